import pexpect, sys, time
for mode in ([], ['u']):
    o = pexpect.spawn(sys.executable, ['inner.py'] + mode, timeout=5)
    time.sleep(1.0)
    o.send(b'ab\x1dcd\x1def')
    o.expect(pexpect.EOF)
    print('mode', mode, 'transcript:', o.before)

import os, re, sys, time, warnings
warnings.simplefilter('ignore')
import pexpect
from pexpect import fdpexpect, socket_pexpect, popen_spawn

def fdpair(data, **kw):
    r, w = os.pipe()
    os.write(w, data)
    return fdpexpect.fdspawn(r, **kw), w

# F1: zero-width match at end of window
p, w = fdpair(b'abc')
p.expect(b'b', timeout=1)
print('F1 setup: before=%r after=%r buffer=%r' % (p.before, p.after, p.buffer))
os.write(w, b'def')
p.expect(b'f')  # ensure def read
os.write(w, b'xyz')
time.sleep(0.05)
try:
    p.expect(b'q', timeout=0.2)
except pexpect.TIMEOUT:
    pass
print('pending before $ match: ', p.buffer, p._before.getvalue())
i = p.expect(re.compile(b'$'), timeout=1)
print('F1: idx', i, 'before=%r after=%r buffer=%r' % (p.before, p.after, p.buffer))

# F2: buffer setter
p, w = fdpair(b'hello world')
try: p.expect(b'zzz', timeout=0.2)
except pexpect.TIMEOUT: pass
print('F2 pending', p.buffer)
p.buffer = b''
os.write(w, b'X')
p.expect(b'X', timeout=1)
print('F2: after buffer=b"" then X: before=%r' % p.before)

# F5: expect_loop default timeout
p, w = fdpair(b'')
from pexpect.expect import searcher_string
t0=time.time()
try:
    p.timeout = 1
    p.expect_loop(searcher_string([b'x']))
except pexpect.TIMEOUT:
    print('F5: TIMEOUT after %.3fs (instance default 1s)' % (time.time()-t0))

# F7/F8: socket
import socket
a, b = socket.socketpair()
s = socket_pexpect.SocketSpawn(a, timeout=1)
try:
    s.expect(b'x', timeout=0)
except Exception as e:
    print('F7: socket timeout=0 ->', type(e).__name__, e)
import io
a, b = socket.socketpair()
log = io.StringIO()
s = socket_pexpect.SocketSpawn(a, timeout=1, encoding='utf-8')
s.logfile_read = log
b.sendall('héllo'.encode())
try:
    s.expect('llo')
    print('F8: ok before=%r log=%r' % (s.before, log.getvalue()))
except Exception as e:
    print('F8: socket unicode ->', type(e).__name__, e)
a, b = socket.socketpair()
log = io.BytesIO()
s = socket_pexpect.SocketSpawn(a, timeout=1)
s.logfile_read = log
b.sendall(b'hello')
s.expect(b'llo')
print('F8b: bytes-mode socket logfile_read=%r (expected b"hello")' % log.getvalue())

# F12
print('F12:', pexpect.split_command_line(' ls -l'), pexpect.split_command_line('ls -l '))

# F19
p, w = fdpair(b'xxABCyy')
i = p.expect([re.compile('abc', re.I)], timeout=1) if False else None
p2, w2 = fdpair(b'xxABCyy')
try:
    p2.expect(re.compile('abc', re.I), timeout=0.3)
    print('F19: matched', p2.after)
except pexpect.TIMEOUT:
    print('F19: str-regex with re.I given to bytes spawn -> TIMEOUT (flags dropped)')
p3, w3 = fdpair(b'xxABCyy')
p3.expect(re.compile(b'abc', re.I), timeout=0.3); print('F19 native ok', p3.after)

import os, re, sys, time, warnings, io
warnings.simplefilter('ignore')
import pexpect
from pexpect import popen_spawn

# F4 waitnoecho(None)
c = pexpect.spawn('cat', timeout=2)
try:
    import threading
    threading.Timer(0.5, lambda: c.setecho(False)).start()
    print('F4: waitnoecho(None) ->', c.waitnoecho(timeout=None))
except Exception as e:
    print('F4: waitnoecho(timeout=None) ->', type(e).__name__, e)
c.close()

# F6 child closes tty but stays alive
t0 = time.time()
c = pexpect.spawn('/bin/sh', ['-c', 'exec 0<&- 1>&- 2>&-; sleep 4'], timeout=1)
try:
    c.expect('never', timeout=1)
except pexpect.EOF:
    print('F6: EOF after %.2fs with timeout=1 (child alive 4s)' % (time.time()-t0))
except pexpect.TIMEOUT:
    print('F6: TIMEOUT after %.2fs' % (time.time()-t0))

# F9 popen carry-over not logged
log = io.BytesIO()
p = popen_spawn.PopenSpawn([sys.executable, '-c', 'import sys; sys.stdout.write("a"*5000)'], timeout=5, maxread=100)
p.logfile_read = log
time.sleep(1)
p.expect(pexpect.EOF)
print('F9: popen delivered %d bytes, logfile_read got %d bytes' % (len(p.before), len(log.getvalue())))

# F11 run with TIMEOUT event duplicates
out = pexpect.run('/bin/sh -c "echo one; sleep 1.5; echo two"', timeout=0.5, events=[(pexpect.TIMEOUT, lambda d: None)])
print('F11: run output with TIMEOUT event:', out)

# F16/F17/F18 screen
from pexpect import ANSI, screen
s = screen.screen(3, 4)
s.fill('x')
print('F17: get() ->', s.get(), ' get_abs ->', s.get_abs(1,1))
s.cursor_home(3, 3); s.erase_down(); print('F18: erase_down at (3,3):', repr(str(s)))
s.fill('x'); s.cursor_home(1, 2); s.erase_up(); print('F18: erase_up at (1,2):', repr(str(s)))
a = ANSI.ANSI(3, 4)
os.chdir('/tmp/scratch')
a.write('\x1b[0;0r')
print('scroll region', a.scroll_row_start, a.scroll_row_end)
a.write('a\nb\nc\nd\n')
print('F16: grid rows after scroll with region 0;0 =', len(a.w), [len(r) for r in a.w])
print('log file created by DoLog:', os.path.exists('/tmp/scratch/log'))

import sys, pexpect, io
enc = 'utf-8' if len(sys.argv) > 1 and sys.argv[1] == 'u' else None
c = pexpect.spawn(sys.executable, ['-c', 'import sys,os,tty; tty.setraw(0); sys.stdout.write("READY\\n"); sys.stdout.flush()\nwhile True:\n    b=os.read(0,100)\n    sys.stdout.write("GOT:"+b.hex()+"\\n"); sys.stdout.flush()'], encoding=enc, timeout=5)
c.expect('READY')
if enc:
    c.logfile_read = io.StringIO()
try:
    c.interact()
except Exception as e:
    print('INTERACT-EXC', type(e).__name__, e)
print('RETURNED pending_before=%r' % (c._before.getvalue(),))

import os, time, pexpect, sys
c = pexpect.spawn(sys.executable, ['-c', 'import os,time; os.close(0); os.close(1); os.close(2); time.sleep(4)'], timeout=1)
time.sleep(1.0)
t0 = time.time()
try:
    c.expect('never', timeout=1)
except pexpect.EOF:
    print('F6: EOF after %.2fs with timeout=1 (child sleeps 4s total)' % (time.time()-t0), 'terminated', c.terminated, 'exit', c.exitstatus)
except pexpect.TIMEOUT:
    print('F6: TIMEOUT after %.2fs' % (time.time()-t0))

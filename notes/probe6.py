import sys, time, os, io
import pexpect, pexpect.pty_spawn as ps, pexpect.popen_spawn as pop
which = sys.argv[1]
print('pexpect from', pexpect.__file__)
real = ps.select_ignore_interrupts
def fake(iwtd, owtd, ewtd, timeout=None):
    if timeout:                       # the timed wait: expires with nothing readable...
        r = real(iwtd, owtd, ewtd, 0)
        if r[0]:
            return r
        time.sleep(0.8)               # ...then the child writes and exits before the liveness check
        return ([], [], [])
    return real(iwtd, owtd, ewtd, timeout)
ps.select_ignore_interrupts = fake
c = pexpect.spawn(sys.executable, ['-c', 'import time,sys; time.sleep(0.3); sys.stdout.write("DATA"); sys.stdout.flush()'], timeout=5)
c.expect(pexpect.EOF)
print('F20: EOF reported, before=%r' % c.before)
ps.select_ignore_interrupts = real
try:
    print('F20: read after EOF returned %r' % c.read_nonblocking(100, 1))
except pexpect.EOF:
    print('F20: nothing left after EOF')

# F22: fault-injected os.read in the reader thread
real_read = os.read
def bad_read(fd, n):
    if getattr(bad_read, 'arm', None) == fd:
        bad_read.arm = None
        raise OSError(5, 'injected EIO')
    return real_read(fd, n)
p = pop.PopenSpawn([sys.executable, '-c', 'import time; time.sleep(0.5); print("hi")'], timeout=3)
log = io.BytesIO(); p.logfile_read = log
bad_read.arm = p.proc.stdout.fileno()
pop.os.read = bad_read
# the reader thread is already blocked in the real os.read; start a second reader to hit the injected fault deterministically
import threading
t = threading.Thread(target=p._read_incoming); t.daemon = True; t.start(); t.join(2)
print('F22: reader thread alive after fault:', t.is_alive(), ' queue has sentinel:', any(x is None for x in list(p._read_queue.queue)))

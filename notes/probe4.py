import os, time, sys, io
os.environ['PATH'] = '/tmp/scratch/fake:' + os.environ['PATH']
from pexpect import pxssh, popen_spawn
s = pxssh.pxssh()
t0 = time.time()
r = s.login('server', 'me', password='pw', login_timeout=1, auto_prompt_reset=False, sync_original_prompt=False)
print('F14: login on a silent server returned', r, 'after %.1fs' % (time.time()-t0))
s.close()
# F21
p = popen_spawn.PopenSpawn(['cat'], timeout=None)
try:
    print('F21:', p.read_nonblocking(10, -1))
except Exception as e:
    print('F21: PopenSpawn(timeout=None).read_nonblocking(10,-1) ->', type(e).__name__, e)
p.sendeof()

"""Length abstraction of the window-selection code (C03-D7, thorough tier).

The three functions Expecter.existing_data / new_data / do_search are
interpreted *abstractly* straight from their AST: every string is abstracted to
the interval of stream offsets it covers, a store to (interval, position), and
integers stay integers.  Nothing of pexpect is imported or run and no string is
ever built; the searcher is a stub that records (window, freshlen, W) and
reports "no match".  The abstraction is exact for this code because it only
measures, slices and concatenates strings and compares lengths.

For every point of a box of small lengths the recorded search request is
compared with what the naive procedure needs, and the buffer left behind is
compared with the inductive invariant the next call relies on:

  pending P, buffer b (any 0..P for existing_data; b >= need(P) for new_data),
  window size W in {None, 1..}, look-back L in {None, 0, 1..}, new data d.

  existing_data : window ends at the stream end; covers min(W,P) (all of P without W);
                  everything in it counts as fresh; W forwarded.
  new_data      : window ends at the stream end; covers min(W,P') with W, else reaches back
                  to P-(L-1) (all of P' when there is no look-back); freshlen >= d (and the
                  part of the window before the fresh region was searched before); W forwarded.
  both          : afterwards _before holds exactly the pending text, _buffer a suffix of it of
                  length >= min(P', W or L or P'), both positioned at the end.

This is a bounded (small-scope) argument, stated as such in the evidence: it is
exhaustive over the box, not over all lengths.  Any construct the interpreter
does not know makes the check exit 2.
"""
import ast

from .astx import dotted, norm, src
from .loader import AnalysisError


class AStr(object):
    __slots__ = ('lo', 'hi')

    def __init__(self, lo, hi):
        self.lo, self.hi = lo, hi

    def __len__(self):
        return self.hi - self.lo

    def slice(self, a, b):
        n = len(self)
        start, stop, _ = slice(a, b).indices(n)
        if stop < start:
            stop = start
        return AStr(self.lo + start, self.lo + stop)

    def __repr__(self):
        return 'str[%d:%d]' % (self.lo, self.hi)


class Broken(Exception):
    pass


class AStore(object):
    def __init__(self):
        self.content = None
        self.pos = 0

    def length(self):
        return 0 if self.content is None else len(self.content)

    def write(self, s):
        if not isinstance(s, AStr):
            raise Broken('write of a non-string')
        if self.pos != self.length():
            raise Broken('write while the position is not at the end')
        if len(s) == 0:
            return 0
        if self.content is None or len(self.content) == 0:
            self.content = AStr(s.lo, s.hi)
        elif self.content.hi == s.lo:
            self.content = AStr(self.content.lo, s.hi)
        else:
            raise Broken('non-contiguous write: store holds %r, written %r' % (self.content, s))
        self.pos = self.length()
        return len(s)

    def getvalue(self):
        return AStr(0, 0) if self.content is None else AStr(self.content.lo, self.content.hi)

    def read(self):
        v = self.getvalue().slice(self.pos, None)
        self.pos = self.length()
        return v


class AObj(object):
    def __init__(self, **kw):
        self.__dict__.update(kw)


class Return(Exception):
    def __init__(self, v):
        self.v = v


class Interp(object):
    def __init__(self, repo, funcs, hooks):
        self.repo = repo
        self.funcs = funcs      # name -> FuncInfo (methods of Expecter)
        self.hooks = hooks
        self.steps = 0

    def call_method(self, name, selfobj, args):
        fi = self.funcs[name]
        env = {}
        params = fi.params
        env[params[0]] = selfobj
        for p, a in zip(params[1:], args):
            env[p] = a
        try:
            self.block(fi.node.body, env)
        except Return as r:
            return r.v
        return None

    # ---- statements
    def block(self, stmts, env):
        for st in stmts:
            self.stmt(st, env)

    def stmt(self, st, env):
        self.steps += 1
        if self.steps > 100000:
            raise AnalysisError('length abstraction: runaway interpretation')
        if isinstance(st, ast.Expr):
            if isinstance(st.value, ast.Constant):
                return
            self.ev(st.value, env)
        elif isinstance(st, ast.Assign):
            v = self.ev(st.value, env)
            for t in st.targets:
                self.assign(t, v, env)
        elif isinstance(st, ast.AugAssign):
            cur = self.ev(st.target, env)
            v = self.binop(st.op, cur, self.ev(st.value, env))
            self.assign(st.target, v, env)
        elif isinstance(st, ast.If):
            if self.truth(self.ev(st.test, env)):
                self.block(st.body, env)
            else:
                self.block(st.orelse, env)
        elif isinstance(st, ast.Return):
            raise Return(self.ev(st.value, env) if st.value is not None else None)
        elif isinstance(st, ast.Pass):
            return
        else:
            raise AnalysisError('length abstraction: statement form not modelled: %s' % norm(st))

    def assign(self, t, v, env):
        if isinstance(t, ast.Name):
            env[t.id] = v
        elif isinstance(t, ast.Attribute):
            o = self.ev(t.value, env)
            if not isinstance(o, AObj):
                raise AnalysisError('length abstraction: attribute store on %r' % (o,))
            if t.attr == 'buffer':
                # property setter: replace both stores (the fixed semantics are checked by C01)
                raise AnalysisError('length abstraction: assignment to .buffer inside the search code')
            setattr(o, t.attr, v)
        elif isinstance(t, ast.Tuple) and isinstance(v, tuple) and len(v) == len(t.elts):
            for a, b in zip(t.elts, v):
                self.assign(a, b, env)
        else:
            raise AnalysisError('length abstraction: assignment target not modelled: %s' % norm(t))

    # ---- expressions
    def truth(self, v):
        if isinstance(v, AStr):
            return len(v) > 0
        if isinstance(v, (AObj, AStore)):
            return True
        return bool(v)

    def binop(self, op, a, b):
        if isinstance(a, AStr) or isinstance(b, AStr):
            if isinstance(op, ast.Add) and isinstance(a, AStr) and isinstance(b, AStr):
                if len(a) == 0:
                    return b
                if len(b) == 0:
                    return a
                if a.hi == b.lo:
                    return AStr(a.lo, b.hi)
                raise Broken('concatenation of non-adjacent text %r + %r' % (a, b))
            raise AnalysisError('length abstraction: string operator not modelled')
        if a is None or b is None:
            raise Broken('arithmetic on None')
        if isinstance(op, ast.Add):
            return a + b
        if isinstance(op, ast.Sub):
            return a - b
        if isinstance(op, ast.Mult):
            return a * b
        if isinstance(op, ast.FloorDiv):
            return a // b
        raise AnalysisError('length abstraction: operator not modelled')

    def ev(self, e, env):
        if isinstance(e, ast.Constant):
            if isinstance(e.value, (bytes, str)):
                return AStr(0, 0) if len(e.value) == 0 else self._unknown(e)
            return e.value
        if isinstance(e, ast.Name):
            if e.id in env:
                return env[e.id]
            if e.id in ('None', 'True', 'False'):
                return {'None': None, 'True': True, 'False': False}[e.id]
            raise AnalysisError('length abstraction: unbound name %s' % e.id)
        if isinstance(e, ast.Attribute):
            o = self.ev(e.value, env)
            if isinstance(o, AObj):
                if e.attr == 'buffer':
                    return o._buffer.getvalue()
                if hasattr(o, e.attr):
                    return getattr(o, e.attr)
            raise AnalysisError('length abstraction: attribute %s of %r not modelled' % (e.attr, o))
        if isinstance(e, ast.UnaryOp):
            v = self.ev(e.operand, env)
            if isinstance(e.op, ast.Not):
                return not self.truth(v)
            if isinstance(e.op, ast.USub):
                if v is None:
                    raise Broken('negation of None')
                return -v
            return self._unknown(e)
        if isinstance(e, ast.BinOp):
            return self.binop(e.op, self.ev(e.left, env), self.ev(e.right, env))
        if isinstance(e, ast.BoolOp):
            if isinstance(e.op, ast.And):
                v = True
                for x in e.values:
                    v = self.ev(x, env)
                    if not self.truth(v):
                        return v
                return v
            v = False
            for x in e.values:
                v = self.ev(x, env)
                if self.truth(v):
                    return v
            return v
        if isinstance(e, ast.Compare):
            left = self.ev(e.left, env)
            for op, r in zip(e.ops, e.comparators):
                right = self.ev(r, env)
                if isinstance(op, (ast.Is, ast.IsNot)):
                    res = (left is right) if not isinstance(left, int) or isinstance(left, bool) else (left == right and type(left) == type(right))
                    if isinstance(op, ast.IsNot):
                        res = not res
                else:
                    if isinstance(left, AStr) or isinstance(right, AStr):
                        raise AnalysisError('length abstraction: comparison of text values')
                    if left is None or right is None:
                        if isinstance(op, (ast.Eq, ast.NotEq)):
                            res = (left == right) if isinstance(op, ast.Eq) else (left != right)
                        else:
                            raise Broken('ordering comparison with None: %s' % norm(e))
                    else:
                        res = {ast.Lt: left < right, ast.LtE: left <= right, ast.Gt: left > right,
                               ast.GtE: left >= right, ast.Eq: left == right, ast.NotEq: left != right}[type(op)]
                if not res:
                    return False
                left = right
            return True
        if isinstance(e, ast.IfExp):
            return self.ev(e.body, env) if self.truth(self.ev(e.test, env)) else self.ev(e.orelse, env)
        if isinstance(e, ast.Subscript):
            base = self.ev(e.value, env)
            if isinstance(base, AStr) and isinstance(e.slice, ast.Slice):
                if e.slice.step is not None:
                    return self._unknown(e)
                a = self.ev(e.slice.lower, env) if e.slice.lower is not None else None
                b = self.ev(e.slice.upper, env) if e.slice.upper is not None else None
                return base.slice(a, b)
            return self._unknown(e)
        if isinstance(e, ast.Call):
            return self.call(e, env)
        return self._unknown(e)

    def _unknown(self, e):
        raise AnalysisError('length abstraction: expression form not modelled: %s' % norm(e))

    def call(self, e, env):
        f = e.func
        args = [self.ev(a, env) for a in e.args]
        if e.keywords:
            return self._unknown(e)
        if isinstance(f, ast.Name):
            if f.id == 'len':
                v = args[0]
                if isinstance(v, AStr):
                    return len(v)
                return self._unknown(e)
            if f.id in ('max', 'min'):
                if any(a is None for a in args):
                    raise Broken('%s() with None' % f.id)
                return max(args) if f.id == 'max' else min(args)
            return self._unknown(e)
        if isinstance(f, ast.Attribute):
            o = self.ev(f.value, env)
            m = f.attr
            if isinstance(o, AStore):
                if m == 'write':
                    return o.write(args[0])
                if m == 'tell' and not args:
                    return o.pos
                if m == 'seek' and len(args) == 1:
                    if args[0] is None or args[0] < 0:
                        raise Broken('seek(%r)' % (args[0],))
                    o.pos = min(args[0], o.length()) if False else args[0]
                    return o.pos
                if m == 'read' and not args:
                    if o.pos > o.length():
                        o.pos = o.length()
                    return o.read()
                if m == 'getvalue' and not args:
                    return o.getvalue()
                return self._unknown(e)
            if isinstance(o, AObj):
                if m == 'buffer_type' and not args:
                    return AStore()
                h = self.hooks.get(m)
                if h is not None and getattr(o, '_hooked', False):
                    return h(*args)
                if m in self.funcs and getattr(o, '_is_expecter', False):
                    return self.call_method(m, o, args)
            return self._unknown(e)
        return self._unknown(e)


def need(P, W, L):
    if W:
        return min(P, W)
    if L:
        return min(P, L)
    return P


def check_window_selection(c, repo, R, maxP=5, maxW=6, maxL=4, maxD=6):
    funcs = {}
    for n in ('existing_data', 'new_data', 'do_search'):
        funcs[n] = repo.func('expect:Expecter.' + n)
    scen = 0
    fails = {}

    def fail(kind, fname, msg, sc):
        key = (fname, kind)
        if key not in fails:
            fails[key] = (msg, sc)

    def run_one(fname, P, b, W, L, d):
        rec = []

        def search(window, freshlen, wsz=None):
            rec.append((window, freshlen, wsz))
            return -1
        it = Interp(repo, funcs, {'search': search})
        before, buf = AStore(), AStore()
        before.write(AStr(0, P))
        buf.write(AStr(P - b, P))
        spawn = AObj(_before=before, _buffer=buf)
        searcher = AObj(_hooked=True, start=0, end=0, match=None)
        exp = AObj(spawn=spawn, searcher=searcher, searchwindowsize=W, lookback=L, _is_expecter=True)
        sc = 'P=%d b=%d W=%s L=%s d=%s' % (P, b, W, L, d)
        try:
            if fname == 'existing_data':
                it.call_method('existing_data', exp, [])
                Pn = P
            else:
                it.call_method('new_data', exp, [AStr(P, P + d)])
                Pn = P + d
        except Broken as e:
            fail('broken', fname, 'abstract execution leaves the model: %s' % e, sc)
            return
        if len(rec) != 1:
            fail('search-count', fname, 'the searcher is consulted %d times (expected once)' % len(rec), sc)
            return
        win, fl, wsz = rec[0]
        if not isinstance(win, AStr) or fl is None:
            fail('args', fname, 'search() got a non-text window or freshlen None', sc)
            return
        if len(win) and win.hi != Pn:
            fail('window-end', fname, 'the searched window %r does not end at the end of the pending text (%d)' % (win, Pn), sc)
        if wsz != W:
            fail('w-forward', fname, 'window size %r forwarded as %r' % (W, wsz), sc)
        if W:
            if len(win) < min(W, Pn):
                fail('window-cover', fname, 'window %r is shorter than the last min(W, pending)=%d characters: an occurrence '
                     'inside the search window is not searched' % (win, min(W, Pn)), sc)
            if len(win) > W:
                fail('window-exact', fname, 'window %r is longer than the search window W=%d: the searcher restricts the start position itself, but '
                     'anchors, word boundaries and look-behind then see text outside the window, so the outcome differs from searching '
                     'the last W characters (and from other chunkings of the same stream)' % (win, W), sc)
        else:
            if fname == 'existing_data' or not L:
                if len(win) != Pn:
                    fail('window-all', fname, 'without a search window all %d pending characters must be searched, window is %r' % (Pn, win), sc)
            else:
                reach = max(0, P - (L - 1))
                if Pn and (len(win) == 0 or win.lo > reach) and not (d == 0):
                    fail('lookback-cover', fname, 'window %r does not reach back to offset %d = pending - (look-back - 1): an occurrence '
                         'straddling the read boundary is missed' % (win, reach), sc)
        if fname == 'existing_data':
            if fl < len(win):
                fail('fresh-all', fname, 'only %d of the %d window characters count as fresh at the start of a call' % (fl, len(win)), sc)
        else:
            if fl < min(d, len(win)):
                fail('fresh-new', fname, 'freshlen %d is less than the %d new characters' % (fl, d), sc)
            if fl > d and not W and L:
                pass
        # post-state
        bc = spawn._before.getvalue()
        uc = spawn._buffer.getvalue()
        if (bc.lo, bc.hi) != (0, Pn) and Pn:
            fail('pending-kept', fname, '_before holds %r instead of the whole pending text [0:%d]' % (bc, Pn), sc)
        if len(uc) and uc.hi != Pn:
            fail('buffer-suffix', fname, '_buffer %r is not a suffix of the pending text' % (uc,), sc)
        if len(uc) < need(Pn, W, L):
            fail('buffer-enough', fname, '_buffer keeps %d characters, the next read needs min(pending, window or look-back) = %d'
                 % (len(uc), need(Pn, W, L)), sc)
        if spawn._before.pos != spawn._before.length() or spawn._buffer.pos != spawn._buffer.length():
            fail('position', fname, 'a store is left positioned before its end', sc)

    Ws = [None] + list(range(1, maxW + 1))
    Ls = [None, 0] + list(range(1, maxL + 1))
    for P in range(0, maxP + 1):
        for W in Ws:
            for L in Ls:
                for b in range(0, P + 1):
                    scen += 1
                    run_one('existing_data', P, b, W, L, None)
                    if b >= need(P, W, L):
                        for d in range(0, maxD + 1):
                            scen += 1
                            run_one('new_data', P, b, W, L, d)
    R.extra['lenabs_scenarios'] = scen
    R.extra['lenabs_box'] = 'pending 0..%d, buffer 0..pending, W in None,1..%d, look-back in None,0..%d, new data 0..%d' % (maxP, maxW, maxL, maxD)
    kinds = [('existing_data', k) for k in ('broken', 'search-count', 'args', 'window-end', 'w-forward', 'window-cover', 'window-exact', 'window-all',
                                            'fresh-all', 'pending-kept', 'buffer-suffix', 'buffer-enough', 'position')] + \
            [('new_data', k) for k in ('broken', 'search-count', 'args', 'window-end', 'w-forward', 'window-cover', 'window-exact', 'window-all',
                                       'lookback-cover', 'fresh-new', 'pending-kept', 'buffer-suffix', 'buffer-enough', 'position')]
    for fname, k in kinds:
        f = funcs[fname]
        if (fname, k) in fails:
            msg, sc = fails[(fname, k)]
            c.bad(f, None, msg, witness='scenario %s (of %d evaluated)' % (sc, scen), tag='lenabs-' + k, kind='alg')
        else:
            c.ok(f, None, 'length-abstraction obligation `%s` holds on all %d scenarios of the box' % (k, scen), tag='lenabs-' + k, kind='alg')

"""Small query helpers shared by the property modules."""
import ast

from .astx import (calls_in, dotted, iter_nodes, norm, src, aliases_of, canon,
                   assigned_targets, const_value, is_const, strip_parens_not)
from .loader import AnalysisError


def calls(fi, pred=None, last=None, within=None):
    """Calls in the function body (not in nested defs), source order.
    *last*: name or set of names the dotted callee must end with."""
    root = within if within is not None else fi.node
    out = []
    names = {last} if isinstance(last, str) else (set(last) if last else None)
    for c in calls_in(root):
        f = dotted(c.func)
        if names is not None:
            if f is None or f.split('.')[-1] not in names:
                if not (isinstance(c.func, ast.Attribute) and c.func.attr in names):
                    continue
        if pred is not None and not pred(c):
            continue
        out.append(c)
    return out


def callee_last(c):
    if isinstance(c.func, ast.Attribute):
        return c.func.attr
    if isinstance(c.func, ast.Name):
        return c.func.id
    return None


def cfg_nodes_with_call(fi, pred):
    """CFG nodes that contain a call satisfying pred -> [(node, call)]"""
    g = fi.cfg
    out = []
    live = g.live_nodes()
    for n in g.nodes:
        if n not in live or n.ast is None:
            continue
        for c in node_calls(n):
            if pred(c):
                out.append((n, c))
    return out


def node_roots(n):
    a = n.ast
    if a is None:
        return []
    if n.kind == 'for':
        return [a.iter]
    if n.kind == 'with':
        return [i.context_expr for i in a.items]
    if n.kind == 'except':
        return []
    if isinstance(a, (ast.FunctionDef, ast.AsyncFunctionDef, ast.ClassDef)):
        return []
    return [a]


def node_calls(n):
    out = []
    for r in node_roots(n):
        out.extend(calls_in(r))
    return out


def node_contains(n, pred):
    for r in node_roots(n):
        for x in iter_nodes(r):
            if pred(x):
                return True
    return False


def stmt_assigns_attr(stmt, attr):
    """Assign statement writing ``<x>.attr`` -> the target node (or None)."""
    if isinstance(stmt, (ast.Assign, ast.AugAssign, ast.AnnAssign)):
        for t in assigned_targets(stmt):
            if isinstance(t, ast.Attribute) and t.attr == attr:
                return t
    return None


def attr_assign_nodes(fi, attr):
    g = fi.cfg
    live = g.live_nodes()
    return [n for n in g.nodes if n in live and n.kind == 'stmt' and stmt_assigns_attr(n.ast, attr) is not None]


def returns(fi):
    g = fi.cfg
    live = g.live_nodes()
    return [n for n in g.nodes if n in live and n.kind == 'stmt' and isinstance(n.ast, ast.Return)]


def raises(fi):
    g = fi.cfg
    live = g.live_nodes()
    return [n for n in g.nodes if n in live and n.kind == 'stmt' and isinstance(n.ast, ast.Raise)]


def raised_class(stmt, fi=None):
    """Name of the exception class of ``raise X(...)`` / ``raise X`` / via a
    local assigned ``exc = X(...)``; None for a bare re-raise or unknown."""
    if not isinstance(stmt, ast.Raise) or stmt.exc is None:
        return None
    e = stmt.exc
    if isinstance(e, ast.Call):
        e = e.func
    d = dotted(e)
    if d is None:
        return None
    if fi is not None and isinstance(stmt.exc, ast.Name):
        al = aliases_of(fi)
        v = al.single_assign.get(stmt.exc.id)
        if v is None:
            # multiply-assigned: look at all assignments
            classes = set()
            for n in iter_nodes(fi.node):
                if isinstance(n, ast.Assign) and any(isinstance(t, ast.Name) and t.id == stmt.exc.id for t in n.targets):
                    if isinstance(n.value, ast.Call):
                        classes.add(dotted(n.value.func))
                    else:
                        classes.add(None)
            if len(classes) == 1:
                c = classes.pop()
                return c.split('.')[-1] if c else None
            return None
        if isinstance(v, ast.Call):
            dd = dotted(v.func)
            return dd.split('.')[-1] if dd else None
        return None
    return d.split('.')[-1]


def edge_true_nodes(g, test_node, label):
    """Nodes reachable only through the given edge of a test node: the region
    dominated by that edge (simple: reachable from the edge target while
    avoiding re-entry through other predecessors is not required here)."""
    tgt = [s for s, l in test_node.succ if l == label]
    return tgt


def test_matches(test, pred):
    """Does the test expression (possibly inside not/and/or) contain a
    sub-expression satisfying pred?"""
    for x in iter_nodes(test):
        if pred(x):
            return True
    return False


def compare_parts(e):
    """(left, op, right) for a single comparison, else None"""
    if isinstance(e, ast.Compare) and len(e.ops) == 1:
        return e.left, e.ops[0], e.comparators[0]
    return None


_FLIP = {ast.Eq: ast.Eq, ast.NotEq: ast.NotEq, ast.Lt: ast.Gt, ast.Gt: ast.Lt, ast.LtE: ast.GtE, ast.GtE: ast.LtE}


def cmp_views(e):
    """both readings of a single comparison: [(left, optype, right), (right, flipped optype, left)]"""
    cp = compare_parts(e)
    if not cp:
        return []
    out = [(cp[0], type(cp[1]), cp[2])]
    if type(cp[1]) in _FLIP:
        out.append((cp[2], _FLIP[type(cp[1])], cp[0]))
    return out


_REL = {ast.Eq: ('eq', True), ast.NotEq: ('eq', False), ast.Is: ('is', True), ast.IsNot: ('is', False),
        ast.In: ('in', True), ast.NotIn: ('in', False)}


def relation(test):
    """(kind, left, right, label) for a test that is a single ==/!=/is/is not/in/not in comparison, possibly under
    `not`s: *label* ('true'/'false') is the outcome of the test on which `left <kind> right` HOLDS.  None otherwise."""
    pos = True
    while isinstance(test, ast.UnaryOp) and isinstance(test.op, ast.Not):
        test, pos = test.operand, not pos
    cp = compare_parts(test)
    if not cp or type(cp[1]) not in _REL:
        return None
    kind, p = _REL[type(cp[1])]
    return kind, cp[0], cp[2], 'true' if p == pos else 'false'


def truth(test):
    """(core, label): the test with leading `not`s stripped, and the outcome of the written test on which core is TRUE"""
    pos = True
    while isinstance(test, ast.UnaryOp) and isinstance(test.op, ast.Not):
        test, pos = test.operand, not pos
    return test, 'true' if pos else 'false'


def core(t):
    """the condition a test node decides, leading `not`s stripped"""
    return truth(t.ast)[0]


def holds_region(g, t, value=True, skip_labels=('exc',)):
    """nodes control-dependent on core(t) being *value*, however the test is written"""
    lab = truth(t.ast)[1]
    return guard_region(g, t, lab if value else other(lab), skip_labels=skip_labels)


_RELTXT = {'eq': '==', 'is': 'is', 'in': 'in'}


def atom_key(e, value=True):
    """normal form (text, value) of an atomic condition having truth value *value*: leading `not`s and negated
    comparison operators are folded into the value, == operands are put in text order"""
    rel = relation(e)
    if rel:
        kind, l, r, lab = rel
        a, b = norm(l), norm(r)
        if kind == 'eq' and a > b:
            a, b = b, a
        return '%s %s %s' % (a, _RELTXT[kind], b), (lab == 'true') == value
    c, lab = truth(e)
    v = (lab == 'true') == value
    cp = compare_parts(c)
    if cp and isinstance(cp[1], (ast.Lt, ast.LtE, ast.Gt, ast.GtE)):
        # every ordering test is read as a strict `x < y`:  a <= b  ==  not (b < a),  a > b  ==  b < a,  a >= b  ==  not (a < b)
        a, b = norm(cp[0]), norm(cp[2])
        if isinstance(cp[1], ast.Lt):
            return '%s < %s' % (a, b), v
        if isinstance(cp[1], ast.Gt):
            return '%s < %s' % (b, a), v
        if isinstance(cp[1], ast.LtE):
            return '%s < %s' % (b, a), not v
        return '%s < %s' % (a, b), not v
    return norm(c), v


def expand_condition(e, value=True):
    """atoms implied by `e` having truth value *value* (conjunctions under true / disjunctions under false are split)"""
    c, lab = truth(e)
    v = (lab == 'true') == value
    if isinstance(c, ast.BoolOp) and ((isinstance(c.op, ast.And) and v) or (isinstance(c.op, ast.Or) and not v)):
        out = set()
        for x in c.values:
            out |= expand_condition(x, v)
        return out
    return {atom_key(c, v)}


def conditions(g, node, skip_labels=('exc',)):
    """the atomic conditions (text, value) the node is control-dependent on, however the tests are written
    (`if a and b`, nested ifs, `not`, != / is not ...)"""
    out = set()
    for t in g.nodes:
        if t.kind != 'test' or t.ast is None:
            continue
        for lab in ('true', 'false'):
            if node in guard_region(g, t, lab, skip_labels=skip_labels):
                out |= expand_condition(t.ast, lab == 'true')
    return out


def loop_entry_conditions(g, node, skip_labels=('exc',)):
    """conditions that hold whenever *node* is reached: its control dependences plus, inside a `while True` loop, the outcomes of the
    leading `if C: break` tests (each iteration passes them before reaching the node)"""
    out = conditions(g, node, skip_labels)
    for t in g.nodes:
        if t.kind != 'test' or t.ast is None:
            continue
        for lab in ('true', 'false'):
            nxt = [s for s, l in t.succ if l == lab]
            if len(nxt) == 1 and nxt[0].kind == 'stmt' and isinstance(nxt[0].ast, (ast.Break, ast.Return, ast.Raise, ast.Continue)):
                # the other outcome is the only way past this test; does every path to node since the last loop-back pass it?
                if g.dominated_by(node, {t}, skip_labels=skip_labels)[0] and g.path(nxt[0], {node}, skip_labels=skip_labels) is None:
                    # dominated by the test and not reachable through the jump => reached through the other outcome,
                    # provided nothing reassigns the tested names in between (checked by the callers that need it)
                    out |= expand_condition(t.ast, lab != 'true')
    return out


def known_nonempty(conds, var):
    """does the condition set say that *var* is non-empty (truthy, != b'', != '', len(var) != 0)?"""
    for a, v in conds:
        if a == var and v:
            return True
        if not v and a in ("%s == b''" % var, "b'' == %s" % var, "%s == ''" % var, "'' == %s" % var, '0 == len(%s)' % var, 'len(%s) == 0' % var):
            return True
        if v and a == '0 < len(%s)' % var:
            return True
    return False


def eval_conditions(g, node, sub):
    """conditions under which the sub-expression *sub* of *node* is evaluated: the node's own conditions plus the
    conjuncts that short-circuit before it when the node is an `a and b and ...` test"""
    out = conditions(g, node)
    e = node.ast if node.kind == 'test' else None
    while isinstance(e, ast.BoolOp) and isinstance(e.op, ast.And):
        nxt = None
        for v in e.values:
            if any(x is sub for x in ast.walk(v)):
                nxt = v
                break
            out |= expand_condition(v, True)
        e = nxt
    return out


def relation_tests(g, kind, lp, rp):
    """[(test node, outcome on which the relation HOLDS)] for tests that are a single `kind` comparison ('eq','is','in')
    between an operand satisfying lp and one satisfying rp (either order for eq), however written (!=, not ..., flipped)"""
    out = []
    live = g.live_nodes()
    for t in g.nodes:
        if t.kind != 'test' or t.ast is None or t not in live:
            continue
        r = relation(t.ast)
        if not r or r[0] != kind:
            continue
        if (lp(r[1]) and rp(r[2])) or (kind == 'eq' and lp(r[2]) and rp(r[1])):
            out.append((t, r[3]))
    return out


def path_tests(g, node, skip_labels=('exc',)):
    """[(test expression, outcome)] of every test the node is control-dependent on (not split into atoms)"""
    out = []
    for t in g.nodes:
        if t.kind != 'test' or t.ast is None:
            continue
        for lab in ('true', 'false'):
            if node in guard_region(g, t, lab, skip_labels=skip_labels):
                out.append((t.ast, lab == 'true'))
    return out


def _prop_eval(e, val):
    """truth value of a test expression under an assignment of its atoms (val: atom text -> bool, filled on demand)"""
    if isinstance(e, ast.UnaryOp) and isinstance(e.op, ast.Not):
        return not _prop_eval(e.operand, val)
    if isinstance(e, ast.BoolOp):
        rs = [_prop_eval(v, val) for v in e.values]
        return all(rs) if isinstance(e.op, ast.And) else any(rs)
    cp = compare_parts(e)
    if cp and isinstance(cp[1], (ast.Eq, ast.NotEq)):
        for a, b in ((cp[0], cp[2]), (cp[2], cp[0])):
            if isinstance(b, ast.Constant) and b.value in (b'', ''):           # x == b''  <=>  not x
                r = not val(norm(a))
                return r if isinstance(cp[1], ast.Eq) else not r
            if isinstance(b, ast.Constant) and b.value == 0 and isinstance(a, ast.Call) and dotted(a.func) == 'len' and a.args:
                r = not val(norm(a.args[0]))
                return r if isinstance(cp[1], ast.Eq) else not r
    k, v = atom_key(e, True)
    return val(k) == v


def entails_empty(tests, var):
    """do the path tests (list of (expr, outcome)) force `var` to be falsy?  Propositional: every distinct atom is an
    independent boolean (x == b'' and len(x) == 0 are read as `not x`); brute force, at most 2^12 assignments."""
    atoms = []

    def collect(name):
        if name not in atoms:
            atoms.append(name)
        return True
    for e, o in tests:
        _prop_eval(e, collect)
    collect(var)
    if len(atoms) > 12:
        return False
    for bits in range(1 << len(atoms)):
        asg = dict((a, bool(bits >> i & 1)) for i, a in enumerate(atoms))
        if not asg[var]:
            continue
        if all(_prop_eval(e, lambda n_: asg.get(n_, False)) == o for e, o in tests):
            return False          # a satisfying assignment with var truthy exists
    return True


def emptiness_facts(var, empty):
    """assumption list for cfg.path(assume=...): the local *var* holds an empty / a non-empty bytes or str value"""
    from .cfg import _local_atoms
    out = [(var, not empty, {var})]
    for lit in (b'', ''):
        cs = []
        _local_atoms(ast.Compare(left=ast.Name(id=var, ctx=ast.Load()), ops=[ast.Eq()], comparators=[ast.Constant(value=lit)]), True, cs)
        for a, v, names in cs:
            out.append((a, empty if (lit == b'' or not empty) else False, set(names)))
    return out


def empty_edges(g, var):
    """{(test node, label)}: the outcomes of single tests that force `var` to be empty (if not var / if var == b'' / if len(var) == 0,
    the else-side of `if var:` ...), however the test is written"""
    out = set()
    for t in g.nodes:
        if t.kind != 'test' or t.ast is None:
            continue
        if not any(isinstance(x, ast.Name) and x.id == var for x in ast.walk(t.ast)):
            continue
        for lab in ('true', 'false'):
            if entails_empty([(t.ast, lab == 'true')], var):
                out.add((t, lab))
    return out


def paths_entail_empty(g, node, var, limit=4000, skip_labels=('exc',)):
    """on EVERY simple path from the entry to *node* the tests passed on the way (minus those whose variables were
    reassigned afterwards) force `var` to be falsy -- or contradict each other (the path cannot be taken).
    False when in doubt (too many paths)."""
    from .astx import assigned_names
    count = [0]
    # backward reachability to prune
    can = set([node])
    stack = [node]
    while stack:
        x = stack.pop()
        for p, l in x.pred:
            if l in skip_labels or p in can:
                continue
            can.add(p)
            stack.append(p)
    if g.entry not in can:
        return False          # not reachable along the edges considered: nothing can be concluded

    def names_in(e):
        return set(norm(x) for x in ast.walk(e) if isinstance(x, (ast.Name, ast.Attribute)))

    def walk(n, onpath, tests):
        if count[0] > limit:
            return False
        if n is node:
            count[0] += 1
            return entails_empty(tests, var)
        for s, l in n.succ:
            if l in skip_labels or s not in can or s in onpath:
                continue
            t2 = tests
            if n.kind == 'test' and n.ast is not None and l in ('true', 'false'):
                t2 = tests + [(n.ast, l == 'true')]
            elif n.kind in ('stmt', 'for', 'with') and n.ast is not None:
                try:
                    killed = set(assigned_names(n.ast))
                except Exception:
                    killed = set()
                if isinstance(n.ast, (ast.Assign, ast.AugAssign)):
                    for tg in (n.ast.targets if isinstance(n.ast, ast.Assign) else [n.ast.target]):
                        killed.add(norm(tg))
                if killed:
                    t2 = [(e, o) for e, o in tests if not (names_in(e) & killed)]
            if not walk(s, onpath | {s}, t2):
                return False
        return True
    return walk(g.entry, {g.entry}, [])


def found_test(test, var):
    """Is *test* a comparison of the name *var* with an integer constant, and if so does it mean "var is a position / index
    (>= 0) rather than the not-found value -1"?  Returns None (not such a test), ('true'|'false') = the outcome on which
    var >= 0, or 'wrong' when it is such a comparison but separates the values -1, 0, 1, 7 differently (e.g. `var > 0`)."""
    import operator as _op
    co, lab = truth(test)
    views = [(a, op, b) for a, op, b in cmp_views(co) if is_name(a, var) and isinstance(b, (ast.Constant, ast.UnaryOp))]
    if not views:
        return None
    a, op, b = views[0]
    try:
        k = ast.literal_eval(b)
    except Exception:
        return None
    if not isinstance(k, int) or isinstance(k, bool):
        return None
    fn = {ast.GtE: _op.ge, ast.Gt: _op.gt, ast.NotEq: _op.ne, ast.Lt: _op.lt, ast.LtE: _op.le, ast.Eq: _op.eq}.get(op)
    if fn is None:
        return None
    prof = [fn(v, k) == (lab == 'true') for v in (-1, 0, 1, 7)]
    if prof == [False, True, True, True]:
        return 'true'
    if prof == [True, False, False, False]:
        return 'false'
    return 'wrong'


def found_tests(g, var):
    """[(test node, verdict)] for every live test that compares *var* with an integer constant (see found_test)"""
    out = []
    live = g.live_nodes()
    for t in g.nodes:
        if t.kind == 'test' and t.ast is not None and t in live:
            v = found_test(t.ast, var)
            if v is not None:
                out.append((t, v))
    return out


def scenario_paths(g, scenario, start=None, limit=3000, skip_labels=('exc',), goal=None):
    """all simple paths start(entry) -> exit / raise-exit on which every test whose atoms the *scenario* (atom text -> bool) decides
    takes the decided outcome; other tests fork.  Short-circuit `and` / `or` are evaluated with Python's rules."""
    try:
        sa_ = aliases_of(g.fi).single_assign
    except Exception:
        sa_ = {}
    # flag locals: `is_eio = isinstance(exc, OSError) and exc.errno == errno.EIO` makes a later `if is_eio:` a test of that condition
    flags = dict((k_, v_) for k_, v_ in sa_.items() if isinstance(v_, (ast.BoolOp, ast.Compare)) or
                 (isinstance(v_, ast.UnaryOp) and isinstance(v_.op, ast.Not)) or
                 (isinstance(v_, ast.Call) and isinstance(v_.func, ast.Name) and v_.func.id == 'isinstance'))

    def decide(test, depth=0):
        co, lab = truth(test)
        if isinstance(co, ast.Name) and co.id in flags and depth < 4:
            r = decide(flags[co.id], depth + 1)
            if r is None:
                return None
            return r if lab == 'true' else not r
        if isinstance(co, ast.BoolOp):
            rs = [decide(v, depth) for v in co.values]
            if isinstance(co.op, ast.And):
                r = False if any(x is False for x in rs) else (True if all(x is True for x in rs) else None)
            else:
                r = True if any(x is True for x in rs) else (False if all(x is False for x in rs) else None)
        else:
            a_, v_ = atom_key(co, True)
            r = None if a_ not in scenario else (scenario[a_] == v_)
            if r is None and isinstance(co, ast.Compare) and len(co.ops) == 1 and isinstance(co.ops[0], (ast.Eq, ast.NotEq, ast.Is, ast.IsNot)):
                # two conditions compared with each other: `isinstance(p, bytes) == bytes_mode`
                l_, r_ = decide(co.left, depth), decide(co.comparators[0], depth)
                if l_ is not None and r_ is not None:
                    r = (l_ == r_) if isinstance(co.ops[0], (ast.Eq, ast.Is)) else (l_ != r_)
        if r is None:
            return None
        return r if lab == 'true' else not r
    out = []
    count = [0]

    def walk(n, trail):
        count[0] += 1
        if count[0] > limit:
            raise AnalysisError('scenario_paths: too many paths')
        if goal is not None and n is goal:
            out.append(trail)          # (paths TO a node: the node may sit in a loop, the path stops at its first visit)
            return
        if n is g.exit or n is g.raise_exit:
            if goal is None:
                out.append(trail)
            return
        labs = None
        if n.kind == 'test' and n.ast is not None:
            r = decide(n.ast)
            if r is not None:
                labs = ('true',) if r else ('false',)
        for s_, l_ in n.succ:
            if l_ in skip_labels or s_ in trail:
                continue
            if labs is not None and l_ in ('true', 'false') and l_ not in labs:
                continue
            walk(s_, trail + [s_])
    s0 = start or g.entry
    walk(s0, [s0])
    return out


def names_at(g, node, scenario, limit=4000):
    """for the truth assignment *scenario*: the ways plain-name copies can stand when control reaches *node* -- a list of dicts
    {local: the name it (transitively) holds a copy of}, one per distinct outcome over the paths entry -> node.  `x = y` copies, any other
    binding of x forgets it; so `if ns is None: ns = state` and `t = state if ns is None else ns` read the same."""
    outs = []
    for path in scenario_paths(g, scenario, goal=node, limit=limit):
        cp = {}
        for n in path[:-1]:
            a_ = n.ast
            if n.kind != 'stmt' or a_ is None:
                if n.kind in ('for', 'with', 'except') and a_ is not None:
                    tgt = a_.target if n.kind == 'for' else a_
                    for x in ast.walk(tgt):
                        if isinstance(x, ast.Name) and isinstance(x.ctx, ast.Store):
                            cp.pop(x.id, None)
                continue
            bound = set(x.id for x in ast.walk(a_) if isinstance(x, ast.Name) and isinstance(x.ctx, (ast.Store, ast.Del))) \
                if not isinstance(a_, (ast.FunctionDef, ast.AsyncFunctionDef, ast.ClassDef)) else {a_.name}
            src_ = None
            if isinstance(a_, ast.Assign) and len(a_.targets) == 1 and isinstance(a_.targets[0], ast.Name) and isinstance(a_.value, ast.Name):
                src_ = cp.get(a_.value.id, a_.value.id)
            for b_ in bound:
                cp.pop(b_, None)
                for k_ in [k_ for k_, v_ in cp.items() if v_ == b_]:
                    cp.pop(k_)
            if src_ is not None and src_ != a_.targets[0].id:
                cp[a_.targets[0].id] = src_
        if cp not in outs:
            outs.append(cp)
    return outs


def dict_contents_at(g, node, var, scenario, limit=4000, fi=None):
    """possible contents {key: value text} of the local dict *var* when control reaches *node*, for the truth assignment
    *scenario* (atom text of lib.atom_key -> bool; tests over other atoms are explored both ways).  Understood writes:
    `var = {...}` / `var = dict(k=v, ...)`, `var[k] = v`, `var.update({...})`, `var.setdefault(k, v)`, `del var[k]` / `var.pop(k)`.
    Returns a list of dicts (one per distinct outcome) or None when a write to var is not understood."""
    outs = []
    seen = set()
    bad = [False]
    amap = aliases_of(fi).map if fi is not None else {}

    copies = {}          # path-local: local -> the name it was last copied from (`v = preexec_fn` in one branch, `v = wrapper` in the other)

    def rtext(e):
        # the value / condition with single-assignment locals that merely hold an access path (echo = self.echo) written out
        t = norm(e)
        if isinstance(e, ast.Name) and e.id in copies:
            return copies[e.id]
        if isinstance(e, ast.Name) and e.id in amap:
            return amap[e.id]
        return t

    def ralias(e):
        if not amap:
            return e
        from .linear import clone

        class T(ast.NodeTransformer):
            def visit_Name(self, n):
                if isinstance(n.ctx, ast.Load) and n.id in amap:
                    return ast.parse(amap[n.id], mode='eval').body
                return n
        return T().visit(clone(e))

    def apply(n, d):
        a = n.ast
        if n.kind != 'stmt' or a is None:
            return d
        if isinstance(a, ast.Assign):
            for tg in a.targets:
                if isinstance(tg, ast.Name) and tg.id == var:
                    v = a.value
                    if isinstance(v, ast.Dict) and all(isinstance(k_, ast.Constant) for k_ in v.keys):
                        return dict((k_.value, rtext(x)) for k_, x in zip(v.keys, v.values))
                    if isinstance(v, ast.Call) and isinstance(v.func, ast.Name) and v.func.id == 'dict' and not v.args and all(k_.arg for k_ in v.keywords):
                        return dict((k_.arg, rtext(k_.value)) for k_ in v.keywords)
                    # a copy of another mapping (dict(other), dict(other, k=v), other.copy()): its entries are carried as '**other'
                    if isinstance(v, ast.Call) and isinstance(v.func, ast.Name) and v.func.id == 'dict' and len(v.args) == 1 and isinstance(v.args[0], ast.Name) \
                            and all(k_.arg for k_ in v.keywords):
                        d2 = {'**': v.args[0].id}
                        d2.update((k_.arg, norm(k_.value)) for k_ in v.keywords)
                        return d2
                    if isinstance(v, ast.Call) and isinstance(v.func, ast.Attribute) and v.func.attr == 'copy' and isinstance(v.func.value, ast.Name) and not v.args:
                        return {'**': v.func.value.id}
                    if isinstance(v, ast.Name):
                        return {'**': v.id}           # the other mapping itself
                    bad[0] = True
                    return d
                if isinstance(tg, ast.Subscript) and is_name(tg.value, var):
                    if isinstance(tg.slice, ast.Constant):
                        d = dict(d)
                        d[tg.slice.value] = rtext(a.value)
                        return d
                    bad[0] = True
        elif isinstance(a, ast.Expr) and isinstance(a.value, ast.Call) and isinstance(a.value.func, ast.Attribute) and is_name(a.value.func.value, var):
            k = a.value
            m = k.func.attr
            if m == 'update' and len(k.args) == 1 and isinstance(k.args[0], ast.Dict) and all(isinstance(x, ast.Constant) for x in k.args[0].keys):
                d = dict(d)
                for kk, vv in zip(k.args[0].keys, k.args[0].values):
                    d[kk.value] = norm(vv)
                return d
            if m == 'update' and not k.args and all(x.arg for x in k.keywords):
                d = dict(d)
                for x in k.keywords:
                    d[x.arg] = norm(x.value)
                return d
            if m == 'setdefault' and len(k.args) == 2 and isinstance(k.args[0], ast.Constant):
                d = dict(d)
                d.setdefault(k.args[0].value, norm(k.args[1]))
                return d
            if m == 'pop' and k.args and isinstance(k.args[0], ast.Constant):
                d = dict(d)
                d.pop(k.args[0].value, None)
                return d
            bad[0] = True
        elif isinstance(a, ast.Delete):
            for tg in a.targets:
                if isinstance(tg, ast.Subscript) and is_name(tg.value, var) and isinstance(tg.slice, ast.Constant):
                    d = dict(d)
                    d.pop(tg.slice.value, None)
                    return d
        return d

    def decide(test):
        co, lab = truth(test)
        if isinstance(co, ast.BoolOp):
            rs = [decide(v) for v in co.values]
            if isinstance(co.op, ast.And):
                r = False if any(x is False for x in rs) else (True if all(x is True for x in rs) else None)
            else:
                r = True if any(x is True for x in rs) else (False if all(x is False for x in rs) else None)
        else:
            a_, v_ = atom_key(ralias(co), True)
            r = None if a_ not in scenario else (scenario[a_] == v_)
        if r is None:
            return None
        return r if lab == 'true' else not r
    stack = [(g.entry, (), ())]
    steps = 0
    while stack:
        n, items, cps = stack.pop()
        steps += 1
        if steps > limit:
            return None
        key = (n.id, items, cps)
        if key in seen:
            continue
        seen.add(key)
        d = dict(items)
        copies.clear()
        copies.update(cps)
        if n is node:
            if d not in outs:
                outs.append(d)
            continue
        d = apply(n, d)
        # plain copies of names made on the way
        if n.kind == 'stmt' and n.ast is not None:
            a_ = n.ast
            bound = set(x.id for x in ast.walk(a_) if isinstance(x, ast.Name) and isinstance(x.ctx, (ast.Store, ast.Del))) \
                if not isinstance(a_, (ast.FunctionDef, ast.AsyncFunctionDef, ast.ClassDef)) else {a_.name}
            for b_ in bound:
                copies.pop(b_, None)
                for k_ in [k_ for k_, v_ in copies.items() if v_ == b_]:
                    copies.pop(k_)
            if isinstance(a_, ast.Assign) and len(a_.targets) == 1 and isinstance(a_.targets[0], ast.Name) and isinstance(a_.value, ast.Name) \
                    and a_.targets[0].id != var and a_.targets[0].id not in amap:
                copies[a_.targets[0].id] = copies.get(a_.value.id, amap.get(a_.value.id, a_.value.id))
        cps2 = tuple(sorted(copies.items()))
        it2 = tuple(sorted(d.items(), key=lambda kv: str(kv[0])))
        labs = None
        if n.kind == 'test' and n.ast is not None:
            r = decide(n.ast)
            if r is not None:
                labs = ('true',) if r else ('false',)
        for s_, l_ in n.succ:
            if l_ in ('exc', 'raise'):
                continue
            if labs is not None and l_ in ('true', 'false') and l_ not in labs:
                continue
            stack.append((s_, it2, cps2))
    return None if bad[0] else outs


def equivalents(f):
    """classes of expressions (locals, parameters, self attributes) that hold the same value because one was assigned from the
    other by a plain `a = b` / `self.x = b` / `a = self.x` and both are assigned at most once in the function.  Returns a function
    cls(text) -> frozenset of texts.  (Only valid up to the next call that may change the attribute: callers use it for what is
    read right after the assignments.)"""
    from .astx import assigned_targets
    counts = {}
    pairs = []
    for n in iter_nodes(f.node):
        if isinstance(n, (ast.Assign, ast.AugAssign, ast.For, ast.AsyncFor, ast.With, ast.AsyncWith)):
            try:
                tgs = assigned_targets(n)
            except Exception:
                tgs = []
            flat = []
            for t in tgs:
                flat.extend(t.elts if isinstance(t, (ast.Tuple, ast.List)) else [t])
            for t in flat:
                counts[norm(t)] = counts.get(norm(t), 0) + 1
            if isinstance(n, ast.Assign) and len(n.targets) == 1 and isinstance(n.targets[0], (ast.Name, ast.Attribute)) and isinstance(n.value, (ast.Name, ast.Attribute)):
                pairs.append((norm(n.targets[0]), norm(n.value)))
    parent = {}

    def find(x):
        parent.setdefault(x, x)
        while parent[x] != x:
            parent[x] = parent[parent[x]]
            x = parent[x]
        return x
    for a, b in pairs:
        if counts.get(a, 0) <= 1 and counts.get(b, 0) <= 1:
            parent[find(a)] = find(b)

    def cls(text):
        r = find(text)
        return frozenset(x for x in list(parent) if find(x) == r) | {text}
    return cls


def log_control_ok(f):
    """_log_control(s): what reaches _log is the parameter itself in bytes mode and parameter.decode(self.encoding, ...) in text mode,
    with direction 'send' -- whether the parameter is rebound or a second local is used.  Returns (ok, witness)."""
    from .astx import assigned_names
    g = f.cfg
    p = f.params[1]
    logs = [k for k in calls_in(f.node) if callee_last(k) == '_log']
    if len(logs) != 1 or len(logs[0].args) < 2 or not (isinstance(logs[0].args[1], ast.Constant) and logs[0].args[1].value == 'send'):
        return False, 'expected exactly one _log(<value>, \'send\')'
    a = logs[0].args[0]
    if not isinstance(a, ast.Name):
        return False, 'logged value %s' % norm(a)
    L = a.id
    defs = [n for n in g.nodes if n.kind == 'stmt' and isinstance(n.ast, ast.Assign) and L in assigned_names(n.ast)]
    ENC = 'self.encoding is None'

    def is_decode(e):
        return isinstance(e, ast.Call) and isinstance(e.func, ast.Attribute) and e.func.attr == 'decode' and is_name(e.func.value, p) \
            and e.args and norm(e.args[0]) == 'self.encoding'
    seen = set()
    for d in defs:
        cs = conditions(g, d)
        if is_decode(d.ast.value) and (ENC, False) in cs:
            seen.add('text')
        elif is_name(d.ast.value, p) and L != p and (ENC, True) in cs:
            seen.add('bytes')
        else:
            return False, 'the logged value is set by `%s` under %s' % (norm(d.ast), sorted(cs))
    if L == p:
        seen.add('bytes')          # not rebound in bytes mode: the parameter itself
    if seen != {'text', 'bytes'}:
        return False, 'covers %s' % sorted(seen)
    if any((p if L != p else None) in assigned_names(n.ast) for n in g.nodes if n.kind == 'stmt' and n.ast is not None and isinstance(n.ast, (ast.Assign, ast.AugAssign))):
        return False, 'the parameter is rebound as well'
    return True, 'bytes mode: the byte itself; text mode: %s.decode(self.encoding, ...)' % p


def other(label):
    return 'false' if label == 'true' else 'true'


def call_arg(call, name, pos):
    """the expression bound to parameter *name* (position *pos* after self) of a call, however it was passed; None if absent"""
    for k in call.keywords:
        if k.arg == name:
            return k.value
    if pos is not None and len(call.args) > pos and not any(isinstance(a, ast.Starred) for a in call.args[:pos + 1]):
        return call.args[pos]
    return None


def is_name(e, name):
    return isinstance(e, ast.Name) and e.id == name


def is_self_attr(e, attr, base='self'):
    return isinstance(e, ast.Attribute) and e.attr == attr and is_name(e.value, base)


def guard_region(g, test_node, label, skip_labels=('exc',)):
    """Nodes that can only be reached from entry through the *label* edge of
    *test_node* (i.e. control-dependent on that outcome)."""
    starts = [s for s, l in test_node.succ if l == label]
    if not starts:
        return set()
    reach_with = g.reachable(g.entry, skip_labels=skip_labels)
    # remove the edge: compute reachability from entry avoiding that edge
    seen = set([g.entry])
    stack = [g.entry]
    while stack:
        n = stack.pop()
        for s, l in n.succ:
            if l in skip_labels:
                continue
            if n is test_node and l == label:
                continue
            if s not in seen:
                seen.add(s)
                stack.append(s)
    return reach_with - seen


def find_test_nodes(fi, pred):
    g = fi.cfg
    live = g.live_nodes()
    return [n for n in g.nodes if n in live and n.kind == 'test' and pred(n.ast)]


def only(items, what):
    if len(items) != 1:
        raise AnalysisError('expected exactly one %s, found %d' % (what, len(items)))
    return items[0]


def mode_mismatch_conditions(var, enc_is_none=True):
    """the path condition `self.encoding is None and not isinstance(<var>, bytes)` as atoms
    (enc_is_none=False: `self.encoding is not None and isinstance(<var>, bytes)`)"""
    return {('self.encoding is None', enc_is_none), ('isinstance(%s, bytes)' % var, not enc_is_none)}


def is_bytes_mode_text_guard(test, var, enc_is_none=True):
    """exactly  `self.encoding is None and not isinstance(<var>, bytes)`  (either operand order);
    with enc_is_none=False:  `self.encoding is not None and isinstance(<var>, bytes)`"""
    if not (isinstance(test, ast.BoolOp) and isinstance(test.op, ast.And) and len(test.values) == 2):
        return False
    texts = sorted(norm(v) for v in test.values)
    if enc_is_none:
        want = sorted(['self.encoding is None', 'not isinstance(%s, bytes)' % var])
    else:
        want = sorted(['self.encoding is not None', 'isinstance(%s, bytes)' % var])
    return texts == want


def mapped_helper(repo, fi):
    """The function a method maps over a list with `[h(x) for x in xs]`: (FuncInfo, index of the parameter that receives x, the
    comprehension).  h is a local def of the method, or -- after a "move the closure to a method" refactoring -- a method of the
    same class called as self.h (directly or through a local that holds the bound method).  None when there is no such unique map."""
    found = []
    for n in ast.walk(fi.node):
        if isinstance(n, ast.ListComp) and len(n.generators) == 1 and isinstance(n.elt, ast.Call) and len(n.elt.args) == 1 and not n.elt.keywords \
                and isinstance(n.generators[0].target, ast.Name) and isinstance(n.elt.args[0], ast.Name) and n.elt.args[0].id == n.generators[0].target.id:
            fn = n.elt.func
            if isinstance(fn, ast.Name) and fn.id in fi.nested:
                found.append((fi.nested[fn.id][0], 0, n))
            elif isinstance(fn, ast.Attribute) and isinstance(fn.value, ast.Name) and fn.value.id == 'self' and fi.cls is not None:
                m_ = fi.cls.methods.get(fn.attr) if hasattr(fi.cls, 'methods') else None
                if m_ is not None:
                    found.append((m_, 1, n))
    return found[0] if len(found) == 1 else None


def decoder_state_guarded(fi):
    """the function tests the incremental decoder's own state (`decoder.getstate()`): a per-chunk decode under such a guard (an "ASCII
    fast path while the decoder is idle") may or may not equal incremental decoding -- a question about codec state, not about shape"""
    return any(isinstance(k, ast.Call) and isinstance(k.func, ast.Attribute) and k.func.attr == 'getstate' for k in ast.walk(fi.node))


def end_bound_kind(fi, call, buf, first_end_arg=2):
    """how a search / find call bounds the END of the region it scans: 'none' (no end argument), 'whole' (the end is len(<buffer>) or
    sys.maxsize on every binding), 'match-end' (derived from the end of an earlier match: an occurrence of a later-listed pattern that starts
    earlier but extends beyond it is cut off -- decidedly wrong), 'unknown' (anything else, e.g. shrunk to the start under a condition)"""
    args = list(call.args[first_end_arg:]) + [kw.value for kw in call.keywords if kw.arg in ('endpos', 'end')]
    if not args and not [kw for kw in call.keywords if kw.arg not in ('pos',)]:
        return 'none'
    kinds = set()
    for a in args:
        vals = [a]
        if isinstance(a, ast.Name):
            vals = [st.value for st in ast.walk(fi.node) if isinstance(st, ast.Assign) and any(isinstance(t, ast.Name) and t.id == a.id for t in st.targets)] or [a]
        for v in vals:
            t = ' '.join(ast.unparse(v).split())
            if t in ('len(%s)' % buf, 'sys.maxsize'):
                kinds.add('whole')
            elif any(isinstance(x, ast.Call) and isinstance(x.func, ast.Attribute) and x.func.attr == 'end' for x in ast.walk(v)) or '.end' in t:
                kinds.add('match-end')
            else:
                kinds.add('unknown')
    if 'match-end' in kinds:
        return 'match-end'
    if kinds == {'whole'}:
        return 'whole'
    return 'unknown'

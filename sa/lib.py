"""Small query helpers shared by the property modules."""
import ast

from .astx import (calls_in, dotted, iter_nodes, norm, src, aliases_of, canon,
                   assigned_targets, const_value, is_const, strip_parens_not)
from .loader import AnalysisError


def calls(fi, pred=None, last=None, within=None):
    """Calls in the function body (not in nested defs), source order.
    *last*: name or set of names the dotted callee must end with."""
    root = within if within is not None else fi.node
    out = []
    names = {last} if isinstance(last, str) else (set(last) if last else None)
    for c in calls_in(root):
        f = dotted(c.func)
        if names is not None:
            if f is None or f.split('.')[-1] not in names:
                if not (isinstance(c.func, ast.Attribute) and c.func.attr in names):
                    continue
        if pred is not None and not pred(c):
            continue
        out.append(c)
    return out


def callee_last(c):
    if isinstance(c.func, ast.Attribute):
        return c.func.attr
    if isinstance(c.func, ast.Name):
        return c.func.id
    return None


def cfg_nodes_with_call(fi, pred):
    """CFG nodes that contain a call satisfying pred -> [(node, call)]"""
    g = fi.cfg
    out = []
    live = g.live_nodes()
    for n in g.nodes:
        if n not in live or n.ast is None:
            continue
        for c in node_calls(n):
            if pred(c):
                out.append((n, c))
    return out


def node_roots(n):
    a = n.ast
    if a is None:
        return []
    if n.kind == 'for':
        return [a.iter]
    if n.kind == 'with':
        return [i.context_expr for i in a.items]
    if n.kind == 'except':
        return []
    if isinstance(a, (ast.FunctionDef, ast.AsyncFunctionDef, ast.ClassDef)):
        return []
    return [a]


def node_calls(n):
    out = []
    for r in node_roots(n):
        out.extend(calls_in(r))
    return out


def node_contains(n, pred):
    for r in node_roots(n):
        for x in iter_nodes(r):
            if pred(x):
                return True
    return False


def stmt_assigns_attr(stmt, attr):
    """Assign statement writing ``<x>.attr`` -> the target node (or None)."""
    if isinstance(stmt, (ast.Assign, ast.AugAssign, ast.AnnAssign)):
        for t in assigned_targets(stmt):
            if isinstance(t, ast.Attribute) and t.attr == attr:
                return t
    return None


def attr_assign_nodes(fi, attr):
    g = fi.cfg
    live = g.live_nodes()
    return [n for n in g.nodes if n in live and n.kind == 'stmt' and stmt_assigns_attr(n.ast, attr) is not None]


def returns(fi):
    g = fi.cfg
    live = g.live_nodes()
    return [n for n in g.nodes if n in live and n.kind == 'stmt' and isinstance(n.ast, ast.Return)]


def raises(fi):
    g = fi.cfg
    live = g.live_nodes()
    return [n for n in g.nodes if n in live and n.kind == 'stmt' and isinstance(n.ast, ast.Raise)]


def raised_class(stmt, fi=None):
    """Name of the exception class of ``raise X(...)`` / ``raise X`` / via a
    local assigned ``exc = X(...)``; None for a bare re-raise or unknown."""
    if not isinstance(stmt, ast.Raise) or stmt.exc is None:
        return None
    e = stmt.exc
    if isinstance(e, ast.Call):
        e = e.func
    d = dotted(e)
    if d is None:
        return None
    if fi is not None and isinstance(stmt.exc, ast.Name):
        al = aliases_of(fi)
        v = al.single_assign.get(stmt.exc.id)
        if v is None:
            # multiply-assigned: look at all assignments
            classes = set()
            for n in iter_nodes(fi.node):
                if isinstance(n, ast.Assign) and any(isinstance(t, ast.Name) and t.id == stmt.exc.id for t in n.targets):
                    if isinstance(n.value, ast.Call):
                        classes.add(dotted(n.value.func))
                    else:
                        classes.add(None)
            if len(classes) == 1:
                c = classes.pop()
                return c.split('.')[-1] if c else None
            return None
        if isinstance(v, ast.Call):
            dd = dotted(v.func)
            return dd.split('.')[-1] if dd else None
        return None
    return d.split('.')[-1]


def edge_true_nodes(g, test_node, label):
    """Nodes reachable only through the given edge of a test node: the region
    dominated by that edge (simple: reachable from the edge target while
    avoiding re-entry through other predecessors is not required here)."""
    tgt = [s for s, l in test_node.succ if l == label]
    return tgt


def test_matches(test, pred):
    """Does the test expression (possibly inside not/and/or) contain a
    sub-expression satisfying pred?"""
    for x in iter_nodes(test):
        if pred(x):
            return True
    return False


def compare_parts(e):
    """(left, op, right) for a single comparison, else None"""
    if isinstance(e, ast.Compare) and len(e.ops) == 1:
        return e.left, e.ops[0], e.comparators[0]
    return None


def is_name(e, name):
    return isinstance(e, ast.Name) and e.id == name


def is_self_attr(e, attr, base='self'):
    return isinstance(e, ast.Attribute) and e.attr == attr and is_name(e.value, base)


def guard_region(g, test_node, label, skip_labels=('exc',)):
    """Nodes that can only be reached from entry through the *label* edge of
    *test_node* (i.e. control-dependent on that outcome)."""
    starts = [s for s, l in test_node.succ if l == label]
    if not starts:
        return set()
    reach_with = g.reachable(g.entry, skip_labels=skip_labels)
    # remove the edge: compute reachability from entry avoiding that edge
    seen = set([g.entry])
    stack = [g.entry]
    while stack:
        n = stack.pop()
        for s, l in n.succ:
            if l in skip_labels:
                continue
            if n is test_node and l == label:
                continue
            if s not in seen:
                seen.add(s)
                stack.append(s)
    return reach_with - seen


def find_test_nodes(fi, pred):
    g = fi.cfg
    live = g.live_nodes()
    return [n for n in g.nodes if n in live and n.kind == 'test' and pred(n.ast)]


def only(items, what):
    if len(items) != 1:
        raise AnalysisError('expected exactly one %s, found %d' % (what, len(items)))
    return items[0]


def is_bytes_mode_text_guard(test, var, enc_is_none=True):
    """exactly  `self.encoding is None and not isinstance(<var>, bytes)`  (either operand order);
    with enc_is_none=False:  `self.encoding is not None and isinstance(<var>, bytes)`"""
    if not (isinstance(test, ast.BoolOp) and isinstance(test.op, ast.And) and len(test.values) == 2):
        return False
    texts = sorted(norm(v) for v in test.values)
    if enc_is_none:
        want = sorted(['self.encoding is None', 'not isinstance(%s, bytes)' % var])
    else:
        want = sorted(['self.encoding is not None', 'isinstance(%s, bytes)' % var])
    return texts == want

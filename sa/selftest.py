"""Sensitivity self-test (thorough tier): single-site source mutations applied
IN MEMORY to the current sources; each must flip the verdict of the property's
rules.  A surviving mutant is a checker weakness (reported in the evidence as
SELFTEST-WEAK), it never changes the property verdict.  A mutation whose site
no longer exists in the tree under test is skipped, not failed.

A mutant is (id, module, old_text, new_text[, clause]) -- old_text must occur
exactly once in the module source.  Behaviour-preserving variants ("twins",
PRESERVING lists) must keep the verdict clean.
"""
import os
import sys
import time
import traceback


def _apply(src, old, new):
    if src.count(old) != 1:
        return None
    return src.replace(old, new)


def _one(args):
    pid, root, mid, module, old, new, clause, preserving, tier = args
    try:
        from .loader import Repo, AnalysisError
        from . import report
        from .main import analyse
        path = os.path.join(root, 'pexpect', module + '.py')
        with open(path, 'rb') as f:
            src = f.read().decode('utf-8')
        msrc = _apply(src, old, new)
        if msrc is None:
            return (mid, 'skipped', 'site not present exactly once', clause)
        try:
            compile(msrc, path, 'exec')
        except SyntaxError as e:
            return (mid, 'skipped', 'mutant does not compile: %s' % e, clause)
        repo = Repo(root, overrides={module: msrc})
        known = report.load_known()
        try:
            run = analyse(pid, repo, tier)
        except AnalysisError as e:
            return (mid, 'analysis-error', str(e)[:200], clause)
        new_v = [o for o in run.violations() if report.match_known(o, known) is None]
        if not new_v and run.errors:
            return (mid, 'analysis-error', run.errors[0][:200], clause)
        if preserving:
            if new_v:
                return (mid, 'FALSE-ALARM', '%s-%s %s' % (new_v[0].prop, new_v[0].clause, new_v[0].what[:120]), clause)
            return (mid, 'silent', '', clause)
        if not new_v:
            return (mid, 'SURVIVED', '', clause)
        hit = sorted(set(o.clause for o in new_v))
        if clause and clause not in hit:
            return (mid, 'killed-other', ','.join(hit), clause)
        return (mid, 'killed', ','.join(hit), clause)
    except Exception:
        return (mid, 'error', traceback.format_exc()[-300:], clause)


def _rewrite(args):
    """one kind of whole-package behaviour-preserving rewrite (tools/twins.py, tools/twins2.py): the property's rules must stay silent"""
    pid, root, kind = args
    try:
        tools = os.path.join(os.path.dirname(os.path.dirname(os.path.abspath(__file__))), 'tools')
        if tools not in sys.path:
            sys.path.insert(0, tools)
        import twins
        import twins2
        from .loader import Repo
        from . import report
        from .main import analyse
        src = twins.sources(root)
        if kind in ('format', 'rename'):
            ov = {}
            for m, s in src.items():
                x = twins.rename(s) if kind == 'rename' else s
                ov[m] = twins.fmt(x)
            nsites = None
        else:
            ov, ns, _ = twins2.build(kind, src, None, twins2.signatures(src))
            nsites = sum(ns.values())
        repo = Repo(root, overrides=ov)
        known = report.load_known()
        run = analyse(pid, repo, 'quick')
        new_v = [o for o in run.violations() if report.match_known(o, known) is None]
        if new_v:
            return (kind, 'FALSE-ALARM', '%s-%s %s: %s' % (new_v[0].prop, new_v[0].clause, new_v[0].unit, new_v[0].what[:100]), nsites)
        if run.errors:
            return (kind, 'analysis-error', run.errors[0][:160], nsites)
        return (kind, 'silent', '', nsites)
    except Exception:
        return (kind, 'error', traceback.format_exc()[-300:], None)


def _apply_unified(sources, patch_text):
    """apply a unified diff (as written by `git diff`) to a dict {relative path: text} in memory; returns the changed paths -> new text,
    or None when a hunk does not fit (the tree under test differs from the one the patch was written for)"""
    import re
    out = {}
    files = re.split(r'(?m)^diff --git ', patch_text)
    for blk in files[1:]:
        m = re.search(r'(?m)^\+\+\+ b/(\S+)', blk)
        if not m:
            continue
        path = m.group(1)
        if path not in sources:
            return None
        lines = sources[path].split('\n')
        res = []
        pos = 0
        for hm in re.finditer(r'(?m)^@@ -(\d+)(?:,(\d+))? \+(\d+)(?:,(\d+))? @@.*\n((?:[ +\-\\].*\n?|\n)*)', blk):
            start = int(hm.group(1)) - 1
            body = hm.group(5).split('\n')
            if body and body[-1] == '':
                body = body[:-1]
            # like `git apply`: a hunk whose context is found a few lines away from the recorded position (the tree under test has had
            # lines added or removed further up) is applied there -- the nearest place at or after the previous hunk where it fits
            old_side = [bl[1:] if bl else '' for bl in body if not bl.startswith('\\') and (bl[:1] in (' ', '-') or bl == '')]

            def fits(at):
                return at >= pos and at + len(old_side) <= len(lines) and lines[at:at + len(old_side)] == old_side
            if not fits(start):
                cand = [start + d_ for k_ in range(1, 400) for d_ in (-k_, k_) if fits(start + d_)]
                if not cand:
                    return None
                start = cand[0]
            if start < pos:
                return None
            res.extend(lines[pos:start])
            pos = start
            for bl in body:
                if bl.startswith('\\'):
                    continue
                tag, txt = (bl[0], bl[1:]) if bl else (' ', '')
                if tag == ' ':
                    if pos >= len(lines) or lines[pos] != txt:
                        return None
                    res.append(txt)
                    pos += 1
                elif tag == '-':
                    if pos >= len(lines) or lines[pos] != txt:
                        return None
                    pos += 1
                elif tag == '+':
                    res.append(txt)
        res.extend(lines[pos:])
        out[path] = '\n'.join(res)
    return out


def _external(args):
    """one committed external patch applied in memory to the tree under test: a behaviour-preserving patch (refactored/<id>) must not
    produce a violation, a seeded change written for this property (seeded/<id>) must be reported"""
    pid, root, kind, ident, patch_path = args
    try:
        from .loader import Repo, AnalysisError
        from . import report
        from .main import analyse
        with open(patch_path, 'rb') as f:
            ptxt = f.read().decode('utf-8', 'replace')
        import re
        paths = set(re.findall(r'(?m)^\+\+\+ b/(\S+)', ptxt))
        if not paths or not all(p_.startswith('pexpect/') and p_.endswith('.py') for p_ in paths):
            return (kind, ident, 'skipped', 'touches files outside the package')
        srcs = {}
        for p_ in paths:
            fp = os.path.join(root, p_)
            if not os.path.exists(fp):
                return (kind, ident, 'skipped', 'file missing in the tree under test')
            with open(fp, 'rb') as f:
                srcs[p_] = f.read().decode('utf-8')
        new = _apply_unified(srcs, ptxt)
        if new is None:
            return (kind, ident, 'skipped', 'does not apply to the tree under test')
        ov = {}
        for p_, txt in new.items():
            try:
                compile(txt, p_, 'exec')
            except SyntaxError:
                return (kind, ident, 'skipped', 'does not compile')
            ov[os.path.basename(p_)[:-3]] = txt
        repo = Repo(root, overrides=ov)
        known = report.load_known()
        try:
            run = analyse(pid, repo, 'quick')
        except AnalysisError as e:
            return (kind, ident, 'analysis-error', str(e)[:160])
        new_v = [o for o in run.violations() if report.match_known(o, known) is None]
        if new_v:
            return (kind, ident, 'violation', '%s-%s %s: %s' % (new_v[0].prop, new_v[0].clause, new_v[0].unit, new_v[0].what[:100]))
        if run.errors:
            return (kind, ident, 'analysis-error', run.errors[0][:160])
        return (kind, ident, 'silent', '')
    except Exception:
        return (kind, ident, 'error', traceback.format_exc()[-300:])


def _external_tasks(pid, root):
    here = os.path.dirname(os.path.dirname(os.path.abspath(__file__)))
    tasks = []
    rd = os.path.join(here, 'refactored')
    if os.path.isdir(rd):
        for i in sorted(os.listdir(rd)):
            pf = os.path.join(rd, i, 'patch.diff')
            if os.path.exists(pf):
                tasks.append((pid, root, 'preserving', i, pf))
    sd = os.path.join(here, 'seeded')
    if os.path.isdir(sd):
        import json
        for i in sorted(os.listdir(sd)):
            pf = os.path.join(sd, i, 'patch.diff')
            mf = os.path.join(sd, i, 'meta.json')
            if not (os.path.exists(pf) and os.path.exists(mf)):
                continue
            try:
                meta = json.load(open(mf))
            except Exception:
                continue
            det = meta.get('detection', {})
            # the seeded changes this property's check is expected to report: its own, and those recorded as reported by it
            if meta.get('property') == pid and det.get('own_property_fires'):
                tasks.append((pid, root, 'seeded', i, pf))
            elif meta.get('property') != pid and pid in (det.get('fired') or []) and not det.get('own_property_fires'):
                tasks.append((pid, root, 'seeded', i, pf))
    return tasks


REWRITE_KINDS = ['format', 'rename', 'swapif', 'cmpflip', 'nestand', 'dropelse', 'addelse', 'tempret', 'plainaug', 'nop', 'kwargs',
                 'demorgan', 'swapassign', 'alias']


def run_selftest(pid, root, out, jobs=None):
    from .main import load_prop
    mod = load_prop(pid)
    muts = list(getattr(mod, 'MUTANTS', []))
    pres = list(getattr(mod, 'PRESERVING', []))
    tasks = []
    for m in muts:
        mid, module, old, new = m[:4]
        clause = m[4] if len(m) > 4 else None
        tier = m[5] if len(m) > 5 else 'quick'
        tasks.append((pid, root, mid, module, old, new, clause, False, tier))
    for m in pres:
        mid, module, old, new = m[:4]
        tier = m[4] if len(m) > 4 else 'quick'
        tasks.append((pid, root, mid, module, old, new, None, True, tier))
    t0 = time.time()
    results = []
    if tasks:
        jobs = jobs or min(16, len(tasks), (os.cpu_count() or 2))
        if jobs > 1:
            import multiprocessing as mp
            ctx = mp.get_context('fork')
            with ctx.Pool(jobs) as pool:
                results = pool.map(_one, tasks)
        else:
            results = [_one(t) for t in tasks]
    rw = []
    try:
        import multiprocessing as mp
        with mp.get_context('fork').Pool(min(14, os.cpu_count() or 2)) as pool:
            rw = pool.map(_rewrite, [(pid, root, k) for k in REWRITE_KINDS])
    except Exception:
        rw = [('*', 'error', traceback.format_exc()[-200:], None)]
    ext = []
    try:
        et = _external_tasks(pid, root)
        if et:
            import multiprocessing as mp
            with mp.get_context('fork').Pool(min(16, os.cpu_count() or 2)) as pool:
                ext = pool.map(_external, et, chunksize=2)
    except Exception:
        ext = [('*', '*', 'error', traceback.format_exc()[-200:])]
    killed = sum(1 for r in results if r[1] in ('killed', 'killed-other'))
    survived = [r for r in results if r[1] == 'SURVIVED']
    aerr = [r for r in results if r[1] in ('analysis-error', 'error')]
    skipped = [r for r in results if r[1] == 'skipped']
    falarm = [r for r in results if r[1] == 'FALSE-ALARM']
    silent = [r for r in results if r[1] == 'silent']
    out('SELFTEST property=%s mutants=%d killed=%d survived=%d analysis-error=%d skipped=%d '
        'preserving=%d silent=%d false-alarm=%d wall=%.1fs'
        % (pid, len(muts), killed, len(survived), len(aerr), len(skipped), len(pres), len(silent),
           len(falarm), time.time() - t0))
    for r in survived:
        out('SELFTEST-WEAK property=%s mutant=%s survived (expected clause %s)' % (pid, r[0], r[3]))
    for r in aerr:
        out('SELFTEST-NOTE property=%s mutant=%s -> %s: %s' % (pid, r[0], r[1], r[2]))
    for r in falarm:
        out('SELFTEST-WEAK property=%s behaviour-preserving variant %s raised an alarm: %s' % (pid, r[0], r[2]))
    out('SELFTEST-REWRITES property=%s whole-package behaviour-preserving rewrites: kinds=%d silent=%d (sites rewritten: %s)'
        % (pid, len(rw), sum(1 for r in rw if r[1] == 'silent'), ', '.join('%s %s' % (r[0], r[3]) for r in rw if r[3] is not None)))
    for r in rw:
        if r[1] != 'silent':
            out('SELFTEST-WEAK property=%s whole-package rewrite `%s` -> %s: %s' % (pid, r[0], r[1], r[2]))
    pres_x = [r for r in ext if r[0] == 'preserving']
    seed_x = [r for r in ext if r[0] == 'seeded']
    out('SELFTEST-PATCHES property=%s independently written behaviour-preserving patches: %d applied, %d silent, %d cannot-decide, %d FALSE-ALARM, %d skipped; '
        'seeded changes expected to be reported by this check: %d applied, %d reported, %d cannot-decide, %d MISSED, %d skipped'
        % (pid, sum(1 for r in pres_x if r[2] != 'skipped'), sum(1 for r in pres_x if r[2] == 'silent'), sum(1 for r in pres_x if r[2] == 'analysis-error'),
           sum(1 for r in pres_x if r[2] == 'violation'), sum(1 for r in pres_x if r[2] == 'skipped'),
           sum(1 for r in seed_x if r[2] != 'skipped'), sum(1 for r in seed_x if r[2] == 'violation'), sum(1 for r in seed_x if r[2] == 'analysis-error'),
           sum(1 for r in seed_x if r[2] == 'silent'), sum(1 for r in seed_x if r[2] == 'skipped')))
    for r in pres_x:
        if r[2] in ('violation', 'error'):
            out('SELFTEST-WEAK property=%s behaviour-preserving patch refactored/%s -> %s: %s' % (pid, r[1], 'FALSE-ALARM' if r[2] == 'violation' else r[2], r[3]))
    for r in seed_x:
        if r[2] in ('silent', 'error'):
            out('SELFTEST-WEAK property=%s seeded change seeded/%s -> %s %s' % (pid, r[1], 'MISSED' if r[2] == 'silent' else r[2], r[3]))
    return {
        'external_patches': [{'kind': r[0], 'id': r[1], 'result': r[2], 'detail': r[3]} for r in ext],
        'package_rewrites': [{'kind': r[0], 'result': r[1], 'detail': r[2], 'sites': r[3]} for r in rw],
        'mutants': len(muts), 'killed': killed, 'survived': [r[0] for r in survived],
        'analysis_error': [r[0] for r in aerr], 'skipped': [r[0] for r in skipped],
        'preserving_variants': len(pres), 'preserving_silent': len(silent),
        'preserving_false_alarm': [r[0] for r in falarm],
        'matrix': [{'mutant': r[0], 'result': r[1], 'by': r[2], 'expected': r[3]} for r in results],
    }

"""Sensitivity self-test (thorough tier): single-site source mutations applied
IN MEMORY to the current sources; each must flip the verdict of the property's
rules.  A surviving mutant is a checker weakness (reported in the evidence as
SELFTEST-WEAK), it never changes the property verdict.  A mutation whose site
no longer exists in the tree under test is skipped, not failed.

A mutant is (id, module, old_text, new_text[, clause]) -- old_text must occur
exactly once in the module source.  Behaviour-preserving variants ("twins",
PRESERVING lists) must keep the verdict clean.
"""
import os
import sys
import time
import traceback


def _apply(src, old, new):
    if src.count(old) != 1:
        return None
    return src.replace(old, new)


def _one(args):
    pid, root, mid, module, old, new, clause, preserving, tier = args
    try:
        from .loader import Repo, AnalysisError
        from . import report
        from .main import analyse
        path = os.path.join(root, 'pexpect', module + '.py')
        with open(path, 'rb') as f:
            src = f.read().decode('utf-8')
        msrc = _apply(src, old, new)
        if msrc is None:
            return (mid, 'skipped', 'site not present exactly once', clause)
        try:
            compile(msrc, path, 'exec')
        except SyntaxError as e:
            return (mid, 'skipped', 'mutant does not compile: %s' % e, clause)
        repo = Repo(root, overrides={module: msrc})
        known = report.load_known()
        try:
            run = analyse(pid, repo, tier)
        except AnalysisError as e:
            return (mid, 'analysis-error', str(e)[:200], clause)
        new_v = [o for o in run.violations() if report.match_known(o, known) is None]
        if not new_v and run.errors:
            return (mid, 'analysis-error', run.errors[0][:200], clause)
        if preserving:
            if new_v:
                return (mid, 'FALSE-ALARM', '%s-%s %s' % (new_v[0].prop, new_v[0].clause, new_v[0].what[:120]), clause)
            return (mid, 'silent', '', clause)
        if not new_v:
            return (mid, 'SURVIVED', '', clause)
        hit = sorted(set(o.clause for o in new_v))
        if clause and clause not in hit:
            return (mid, 'killed-other', ','.join(hit), clause)
        return (mid, 'killed', ','.join(hit), clause)
    except Exception:
        return (mid, 'error', traceback.format_exc()[-300:], clause)


def _rewrite(args):
    """one kind of whole-package behaviour-preserving rewrite (tools/twins.py, tools/twins2.py): the property's rules must stay silent"""
    pid, root, kind = args
    try:
        tools = os.path.join(os.path.dirname(os.path.dirname(os.path.abspath(__file__))), 'tools')
        if tools not in sys.path:
            sys.path.insert(0, tools)
        import twins
        import twins2
        from .loader import Repo
        from . import report
        from .main import analyse
        src = twins.sources(root)
        if kind in ('format', 'rename'):
            ov = {}
            for m, s in src.items():
                x = twins.rename(s) if kind == 'rename' else s
                ov[m] = twins.fmt(x)
            nsites = None
        else:
            ov, ns, _ = twins2.build(kind, src, None, twins2.signatures(src))
            nsites = sum(ns.values())
        repo = Repo(root, overrides=ov)
        known = report.load_known()
        run = analyse(pid, repo, 'quick')
        new_v = [o for o in run.violations() if report.match_known(o, known) is None]
        if new_v:
            return (kind, 'FALSE-ALARM', '%s-%s %s: %s' % (new_v[0].prop, new_v[0].clause, new_v[0].unit, new_v[0].what[:100]), nsites)
        if run.errors:
            return (kind, 'analysis-error', run.errors[0][:160], nsites)
        return (kind, 'silent', '', nsites)
    except Exception:
        return (kind, 'error', traceback.format_exc()[-300:], None)


REWRITE_KINDS = ['format', 'rename', 'swapif', 'cmpflip', 'nestand', 'dropelse', 'addelse', 'tempret', 'plainaug', 'nop', 'kwargs',
                 'demorgan', 'swapassign', 'alias']


def run_selftest(pid, root, out, jobs=None):
    from .main import load_prop
    mod = load_prop(pid)
    muts = list(getattr(mod, 'MUTANTS', []))
    pres = list(getattr(mod, 'PRESERVING', []))
    tasks = []
    for m in muts:
        mid, module, old, new = m[:4]
        clause = m[4] if len(m) > 4 else None
        tier = m[5] if len(m) > 5 else 'quick'
        tasks.append((pid, root, mid, module, old, new, clause, False, tier))
    for m in pres:
        mid, module, old, new = m[:4]
        tier = m[4] if len(m) > 4 else 'quick'
        tasks.append((pid, root, mid, module, old, new, None, True, tier))
    t0 = time.time()
    results = []
    if tasks:
        jobs = jobs or min(16, len(tasks), (os.cpu_count() or 2))
        if jobs > 1:
            import multiprocessing as mp
            ctx = mp.get_context('fork')
            with ctx.Pool(jobs) as pool:
                results = pool.map(_one, tasks)
        else:
            results = [_one(t) for t in tasks]
    rw = []
    try:
        import multiprocessing as mp
        with mp.get_context('fork').Pool(min(14, os.cpu_count() or 2)) as pool:
            rw = pool.map(_rewrite, [(pid, root, k) for k in REWRITE_KINDS])
    except Exception:
        rw = [('*', 'error', traceback.format_exc()[-200:], None)]
    killed = sum(1 for r in results if r[1] in ('killed', 'killed-other'))
    survived = [r for r in results if r[1] == 'SURVIVED']
    aerr = [r for r in results if r[1] in ('analysis-error', 'error')]
    skipped = [r for r in results if r[1] == 'skipped']
    falarm = [r for r in results if r[1] == 'FALSE-ALARM']
    silent = [r for r in results if r[1] == 'silent']
    out('SELFTEST property=%s mutants=%d killed=%d survived=%d analysis-error=%d skipped=%d '
        'preserving=%d silent=%d false-alarm=%d wall=%.1fs'
        % (pid, len(muts), killed, len(survived), len(aerr), len(skipped), len(pres), len(silent),
           len(falarm), time.time() - t0))
    for r in survived:
        out('SELFTEST-WEAK property=%s mutant=%s survived (expected clause %s)' % (pid, r[0], r[3]))
    for r in aerr:
        out('SELFTEST-NOTE property=%s mutant=%s -> %s: %s' % (pid, r[0], r[1], r[2]))
    for r in falarm:
        out('SELFTEST-WEAK property=%s behaviour-preserving variant %s raised an alarm: %s' % (pid, r[0], r[2]))
    out('SELFTEST-REWRITES property=%s whole-package behaviour-preserving rewrites: kinds=%d silent=%d (sites rewritten: %s)'
        % (pid, len(rw), sum(1 for r in rw if r[1] == 'silent'), ', '.join('%s %s' % (r[0], r[3]) for r in rw if r[3] is not None)))
    for r in rw:
        if r[1] != 'silent':
            out('SELFTEST-WEAK property=%s whole-package rewrite `%s` -> %s: %s' % (pid, r[0], r[1], r[2]))
    return {
        'package_rewrites': [{'kind': r[0], 'result': r[1], 'detail': r[2], 'sites': r[3]} for r in rw],
        'mutants': len(muts), 'killed': killed, 'survived': [r[0] for r in survived],
        'analysis_error': [r[0] for r in aerr], 'skipped': [r[0] for r in skipped],
        'preserving_variants': len(pres), 'preserving_silent': len(silent),
        'preserving_false_alarm': [r[0] for r in falarm],
        'matrix': [{'mutant': r[0], 'result': r[1], 'by': r[2], 'expected': r[3]} for r in results],
    }

"""Partial evaluation of small routines on concrete inputs.

Several obligations are of the form "for every return code / every combination of small lengths the routine leaves these fields
with those values".  The symbolic rules decide them for the shapes of code they know; this evaluator decides them for ANY shape
built from the statement and expression kinds below, by running the routine's (canonical) syntax tree on concrete values -- the
analysed package is never imported or executed, only this interpreter runs, on the tree.  What it does not understand raises
AnalysisError (exit 2), never a verdict.

Understood: assignment (names, `self.attr`, tuple targets), augmented assignment, if / elif / else, for over a concrete sequence,
while (bounded), return, pass, raise (reported as an outcome), expression statements that are hooked calls; constants, names,
`self.attr`, arithmetic, comparisons (chained, is / in), boolean operators with Python's short-circuit values, conditional
expressions, subscripts / slices of concrete values, tuples / lists, calls of a few pure builtins and of caller-supplied hooks.
"""
import ast
import operator

from .astx import norm
from .loader import AnalysisError


class Raised(Exception):
    def __init__(self, what):
        Exception.__init__(self, what)
        self.what = what


class _Return(Exception):
    def __init__(self, value):
        self.value = value


class _Break(Exception):
    pass


class _Continue(Exception):
    pass


_BIN = {ast.Add: operator.add, ast.Sub: operator.sub, ast.Mult: operator.mul, ast.FloorDiv: operator.floordiv, ast.Mod: operator.mod,
        ast.BitOr: operator.or_, ast.BitAnd: operator.and_}
_CMP = {ast.Eq: operator.eq, ast.NotEq: operator.ne, ast.Lt: operator.lt, ast.LtE: operator.le, ast.Gt: operator.gt, ast.GtE: operator.ge,
        ast.Is: operator.is_, ast.IsNot: operator.is_not, ast.In: lambda a, b: a in b, ast.NotIn: lambda a, b: a not in b}
_PURE = {'len': len, 'max': max, 'min': min, 'abs': abs, 'int': int, 'bool': bool, 'float': float, 'range': range, 'enumerate': enumerate,
         'list': list, 'tuple': tuple, 'sorted': sorted, 'isinstance': None}


class Evaluator(object):
    def __init__(self, env=None, hooks=None, what='routine', max_steps=5000):
        self.env = dict(env or {})          # 'name' / 'self.attr' -> value
        self.hooks = hooks or {}            # text of the called function expression (norm) -> python callable(args list, evaluator)
        self.what = what
        self.steps = 0
        self.max_steps = max_steps

    def fail(self, node, why='not understood'):
        raise AnalysisError('%s: %s by the partial evaluation: %s' % (self.what, why, norm(node)[:80]))

    # ---- expressions
    def ev(self, e):
        self.steps += 1
        if self.steps > self.max_steps:
            raise AnalysisError('%s: partial evaluation does not terminate' % self.what)
        if isinstance(e, ast.Constant):
            return e.value
        if isinstance(e, ast.Name):
            if e.id in self.env:
                return self.env[e.id]
            if e.id in ('None', 'True', 'False'):
                return {'None': None, 'True': True, 'False': False}[e.id]
            self.fail(e, 'the name has no value')
        if isinstance(e, ast.Attribute):
            t = norm(e)
            if t in self.env:
                return self.env[t]
            base = self.ev(e.value) if not (isinstance(e.value, ast.Name) and e.value.id == 'self') else None
            if isinstance(base, dict) and e.attr in base:
                return base[e.attr]
            self.fail(e, 'the attribute has no value')
        if isinstance(e, ast.UnaryOp):
            v = self.ev(e.operand)
            if isinstance(e.op, ast.Not):
                return not v
            if isinstance(e.op, ast.USub):
                return -v
            if isinstance(e.op, ast.UAdd):
                return +v
            if isinstance(e.op, ast.Invert):
                return ~v
        if isinstance(e, ast.BinOp) and type(e.op) in _BIN:
            return _BIN[type(e.op)](self.ev(e.left), self.ev(e.right))
        if isinstance(e, ast.BoolOp):
            v = None
            for x in e.values:
                v = self.ev(x)
                if isinstance(e.op, ast.And) and not v:
                    return v
                if isinstance(e.op, ast.Or) and v:
                    return v
            return v
        if isinstance(e, ast.Compare):
            left = self.ev(e.left)
            for op, r in zip(e.ops, e.comparators):
                right = self.ev(r)
                try:
                    if not _CMP[type(op)](left, right):
                        return False
                except TypeError:
                    raise Raised('TypeError: %s' % norm(e)[:60])
                left = right
            return True
        if isinstance(e, ast.IfExp):
            return self.ev(e.body) if self.ev(e.test) else self.ev(e.orelse)
        if isinstance(e, (ast.Tuple, ast.List)):
            vals = [self.ev(x) for x in e.elts]
            return tuple(vals) if isinstance(e, ast.Tuple) else vals
        if isinstance(e, ast.Subscript):
            v = self.ev(e.value)
            if isinstance(e.slice, ast.Slice):
                lo = self.ev(e.slice.lower) if e.slice.lower is not None else None
                hi = self.ev(e.slice.upper) if e.slice.upper is not None else None
                st = self.ev(e.slice.step) if e.slice.step is not None else None
                return v[lo:hi:st]
            try:
                return v[self.ev(e.slice)]
            except (KeyError, IndexError) as x:
                raise Raised('%s: %s' % (type(x).__name__, norm(e)[:60]))
        if isinstance(e, ast.Call):
            ft = norm(e.func)
            if ft in self.hooks:
                return self.hooks[ft]([self.ev(a) for a in e.args], self)
            last = ft.split('.')[-1]
            if ('.' + last) in self.hooks and isinstance(e.func, ast.Attribute):
                return self.hooks['.' + last]([self.ev(e.func.value)] + [self.ev(a) for a in e.args], self)
            if isinstance(e.func, ast.Name) and e.func.id in _PURE and _PURE[e.func.id] is not None and not e.keywords:
                try:
                    return _PURE[e.func.id](*[self.ev(a) for a in e.args])
                except TypeError:
                    raise Raised('TypeError: %s' % norm(e)[:60])
            self.fail(e, 'the call is not understood')
        self.fail(e)

    # ---- statements
    def assign(self, target, value):
        if isinstance(target, ast.Name):
            self.env[target.id] = value
        elif isinstance(target, ast.Attribute):
            self.env[norm(target)] = value
        elif isinstance(target, (ast.Tuple, ast.List)):
            vals = list(value)
            if len(vals) != len(target.elts):
                raise Raised('ValueError: unpacking')
            for t, v in zip(target.elts, vals):
                self.assign(t, v)
        else:
            self.fail(target, 'the assignment target is not understood')

    def run(self, stmts):
        for s in stmts:
            self.steps += 1
            if self.steps > self.max_steps:
                raise AnalysisError('%s: partial evaluation does not terminate' % self.what)
            if isinstance(s, ast.Assign):
                v = self.ev(s.value)
                for t in s.targets:
                    self.assign(t, v)
            elif isinstance(s, ast.AugAssign):
                cur = self.ev(ast.copy_location(ast.Name(id=s.target.id, ctx=ast.Load()), s.target)) if isinstance(s.target, ast.Name) else self.ev(s.target)
                if type(s.op) not in _BIN:
                    self.fail(s)
                self.assign(s.target, _BIN[type(s.op)](cur, self.ev(s.value)))
            elif isinstance(s, ast.If):
                self.run(s.body if self.ev(s.test) else s.orelse)
            elif isinstance(s, ast.Return):
                raise _Return(self.ev(s.value) if s.value is not None else None)
            elif isinstance(s, ast.Pass):
                pass
            elif isinstance(s, ast.Expr):
                if isinstance(s.value, ast.Constant):
                    continue
                self.ev(s.value)
            elif isinstance(s, ast.For):
                broke = False
                for item in list(self.ev(s.iter)):
                    self.assign(s.target, item)
                    try:
                        self.run(s.body)
                    except _Break:
                        broke = True
                        break
                    except _Continue:
                        continue
                if not broke:
                    self.run(s.orelse)
            elif isinstance(s, ast.While):
                n = 0
                while self.ev(s.test):
                    n += 1
                    if n > 200:
                        raise AnalysisError('%s: loop does not terminate under partial evaluation' % self.what)
                    try:
                        self.run(s.body)
                    except _Break:
                        break
                    except _Continue:
                        continue
            elif isinstance(s, ast.Break):
                raise _Break()
            elif isinstance(s, ast.Continue):
                raise _Continue()
            elif isinstance(s, ast.Raise):
                raise Raised(norm(s)[:80])
            else:
                self.fail(s, 'the statement is not understood')

    def call(self, fn_node):
        """run a function body; returns ('return', value) / ('raise', text)"""
        try:
            self.run(fn_node.body if hasattr(fn_node, 'body') else fn_node)
        except _Return as r:
            return 'return', r.value
        except Raised as r:
            return 'raise', r.what
        return 'return', None

"""Obligations, findings, known-findings matching, evidence and replay files."""
import hashlib
import json
import os
import time

from .astx import norm
from .loader import AnalysisError

VERIF = os.path.dirname(os.path.dirname(os.path.abspath(__file__)))


class Obligation(object):
    __slots__ = ('prop', 'clause', 'rule', 'unit', 'key', 'ok', 'loc', 'what',
                 'witness', 'kind', 'known')

    def __init__(self, prop, clause, rule, unit, key, ok, loc, what, witness, kind):
        self.prop = prop
        self.clause = clause
        self.rule = rule
        self.unit = unit
        self.key = key
        self.ok = ok
        self.loc = loc
        self.what = what
        self.witness = witness
        self.kind = kind
        self.known = None

    def ident(self):
        return '%s-%s|%s|%s' % (self.prop, self.clause, self.unit, self.key)

    def as_dict(self):
        d = {'clause': '%s-%s' % (self.prop, self.clause), 'rule': self.rule,
             'unit': self.unit, 'construct': self.key, 'at': self.loc,
             'verdict': 'holds' if self.ok else 'VIOLATED', 'obligation': self.what}
        if self.witness:
            d['witness'] = self.witness
        return d


class Clause(object):
    def __init__(self, run, cid, rule, floor, desc, thorough_only=False):
        self.run = run
        self.cid = cid
        self.rule = rule
        # the floor guards against a rule that silently matches (almost) nothing; it is set to 60% of the hand-confirmed count so that
        # a refactoring that merges a few duplicated call sites does not trip it
        self.floor = max(1, (floor * 3) // 5) if floor > 1 else floor
        self.desc = desc
        self.obs = []
        self.notes = []
        self.errored = False

    # -- recording
    def _add(self, ok, fi, node, what, witness=None, tag=None, kind='path'):
        unit = fi.qual if hasattr(fi, 'qual') else str(fi)
        if not ok:
            # a function that hands part of its work to a private helper the analysis could not write back into it (a generator,
            # a helper that takes callables, returns from inside loops ...) is not fully visible: what looks like a missing step may
            # be in the helper.  That is "cannot tell" (exit 2), not a violation.
            oq = self._opaque_calls(fi)
            if oq:
                msg = '%s: delegates to the private helper%s %s, which could not be inlined; the rule "%s" cannot be decided here' % (
                    unit, 's' if len(oq) > 1 else '', ', '.join(sorted(oq)), what[:120])
                if msg not in self.run.errors:
                    self.run.errors.append('%s-%s: %s' % (self.run.prop, self.cid, msg))
                self.errored = True
                return None
        if node is not None and hasattr(node, 'lineno'):
            loc = '%s:%d' % (fi.module.path if hasattr(fi, 'module') else '?', node.lineno)
        elif hasattr(fi, 'loc'):
            loc = fi.loc()
        else:
            loc = str(fi)
        key = tag if tag else (norm(node) if node is not None else what)
        ob = Obligation(self.run.prop, self.cid, self.rule, unit, key, bool(ok), loc,
                        what, witness, kind)
        self.obs.append(ob)
        return ob

    def _opaque_calls(self, fi):
        repo = getattr(self.run, 'repo', None)
        names = set(getattr(repo, 'opaque_helpers', None) or ())
        node = getattr(fi, 'node', None)
        if node is None:
            return set()
        import ast as _ast
        # closures defined inside the function (other than the four the package has always had) are helpers of the same kind
        for x in _ast.walk(node):
            if x is not node and isinstance(x, (_ast.FunctionDef, _ast.AsyncFunctionDef)) and x.name not in ('select', 'prepare_pattern', 'preexec_wrapper', 'write_to_stdout'):
                names.add(x.name)
        # a local variable that holds something callable (`read_child = super(..).read_nonblocking`, a function handed in as a parameter of a
        # non-public function) and is called: what is called there is not known to the rules either
        bound = set()
        other = set()
        for x in _ast.walk(node):
            if isinstance(x, _ast.Assign) and len(x.targets) == 1 and isinstance(x.targets[0], _ast.Name) and isinstance(x.value, _ast.Attribute):
                bound.add(x.targets[0].id)          # m = obj.method / super().method: an alias of package code the rules would have to look into
            elif isinstance(x, _ast.Name) and isinstance(x.ctx, _ast.Store):
                other.add(x.id)
        # (a local that holds a caller-supplied callable -- `response = responses[index]` -- is data, not a piece of this function)
        bound -= set(n_ for n_ in other if sum(1 for y in _ast.walk(node) if isinstance(y, _ast.Name) and y.id == n_ and isinstance(y.ctx, _ast.Store)) >
                     sum(1 for y in _ast.walk(node) if isinstance(y, _ast.Assign) and len(y.targets) == 1 and isinstance(y.targets[0], _ast.Name)
                         and y.targets[0].id == n_ and isinstance(y.value, _ast.Attribute)))
        out = set()
        for x in _ast.walk(node):
            if isinstance(x, _ast.Call):
                nm = x.func.attr if isinstance(x.func, _ast.Attribute) else (x.func.id if isinstance(x.func, _ast.Name) else None)
                if nm in names:
                    out.add(nm)
                elif isinstance(x.func, _ast.Name) and x.func.id in bound and x.func.id not in ('select', 'prepare_pattern', 'preexec_wrapper', 'write_to_stdout'):
                    out.add(x.func.id)
        return out

    def ok(self, fi, node, what, kind='path', tag=None):
        return self._add(True, fi, node, what, None, tag, kind)

    def bad(self, fi, node, what, witness=None, tag=None, kind='path'):
        return self._add(False, fi, node, what, witness, tag, kind)

    def check(self, cond, fi, node, what, witness=None, tag=None, kind='path'):
        return self._add(bool(cond), fi, node, what, None if cond else witness, tag, kind)

    def need(self, cond, msg):
        """An anchor / idiom the rule relies on; absence is an analysis error,
        never a silent pass and never a violation."""
        if not cond:
            raise AnalysisError('%s-%s (%s): %s' % (self.run.prop, self.cid, self.rule, msg))
        return cond

    def note(self, text):
        self.notes.append(text)

    # -- context manager
    def __enter__(self):
        return self

    def __exit__(self, et, ev, tb):
        if et is not None:
            if issubclass(et, AnalysisError):
                # a clause that loses track of the code does not silence the other clauses: it is
                # recorded, the run goes on, and the final status is 1 if any clause found a concrete
                # violation, else 2 (never a silent pass)
                self.notes.append('analysis stopped early: %s' % ev)
                self.run.errors.append('%s-%s: %s' % (self.run.prop, self.cid, ev))
                self.errored = True
                self.run.clauses.append(self)
                return True
            return False
        if len(self.obs) < self.floor and not any(not o.ok for o in self.obs):
            raise AnalysisError('%s-%s (%s): %d rule instances found, below the hand-confirmed '
                                'floor of %d (rule would pass vacuously)'
                                % (self.run.prop, self.cid, self.rule, len(self.obs), self.floor))
        self.run.clauses.append(self)
        return False


class Run(object):
    def __init__(self, prop, tier, repo, seed=0):
        self.prop = prop
        self.tier = tier
        self.repo = repo
        self.seed = seed
        self.clauses = []
        self.t0 = time.time()
        self.extra = {}
        self.errors = []
        self.assumptions = []
        self.trusted = []

    def clause(self, cid, rule, floor=1, desc='', backed_by=None):
        c = Clause(self, cid, rule, floor, desc)
        c.backed_by = backed_by
        return c

    @property
    def thorough(self):
        return self.tier == 'thorough'

    def obligations(self):
        for c in self.clauses:
            for o in c.obs:
                yield o

    def violations(self):
        return [o for o in self.obligations() if not o.ok]


# --------------------------------------------------------------------------
# known findings

def load_known(path=None):
    path = path or os.path.join(VERIF, 'known_findings.json')
    if not os.path.exists(path):
        return []
    with open(path) as f:
        data = json.load(f)
    return data.get('findings', [])


def match_known(ob, known):
    for k in known:
        if k.get('status', 'open') != 'open':
            continue      # fixed entries suppress nothing
        if k['property'] != ob.prop or k['clause'] != ob.clause:
            continue
        if k['unit'] != ob.unit:
            continue
        if k.get('construct') and k['construct'] != ob.key:
            continue
        return k
    return None


# --------------------------------------------------------------------------
# output

def replay_path(ob):
    h = hashlib.sha1(ob.ident().encode('utf-8')).hexdigest()[:10]
    return os.path.join(VERIF, 'out', '%s-%s.json' % (ob.prop, h))


def write_replay(ob, repo):
    p = replay_path(ob)
    try:
        os.makedirs(os.path.dirname(p), exist_ok=True)
        with open(p, 'w') as f:
            json.dump({'property': ob.prop, 'clause': ob.clause, 'rule': ob.rule,
                       'unit': ob.unit, 'construct': ob.key, 'at': ob.loc,
                       'obligation': ob.what, 'witness': ob.witness,
                       'repo': repo.root, 'digests': repo.digests()}, f, indent=1)
    except OSError:
        pass
    return p


def emit(run, known, out, evidence_path=None, selftest=None, quiet=False):
    """Print the per-rule lines, KNOWN-FINDING / VIOLATION lines; write the
    evidence file; return the exit status (0 or 1)."""
    viol_new = []
    known_hits = []
    for c in run.clauses:
        nv = 0
        for o in c.obs:
            if not o.ok:
                k = match_known(o, known)
                if k is not None:
                    o.known = k
                    known_hits.append(o)
                else:
                    viol_new.append(o)
                nv += 1
        if not quiet:
            out('RULE %s-%s %s instances=%d ok=%d viol=%d  %s'
                % (run.prop, c.cid, c.rule, len(c.obs), len(c.obs) - nv, nv, c.desc))
    printed = set()
    for o in known_hits:
        if o.known.get('id') in printed:
            continue
        printed.add(o.known.get('id'))
        out('KNOWN-FINDING: property=%s %s [%s-%s %s at %s]'
            % (o.prop, o.known.get('what_fails', o.what), o.prop, o.clause, o.unit, o.loc))
    for o in viol_new:
        p = write_replay(o, run.repo)
        out('VIOLATION property=%s replay=%s' % (o.prop, p))
        out('  %s %s %s-%s %s: %s' % (o.loc, o.unit, o.prop, o.clause, o.rule, o.what))
        if o.witness:
            out('  witness: %s' % o.witness)
    # a clause that proves its obligation symbolically for one shape of the code and could not be applied to the shape at hand, while
    # the clause that covers the same obligation by exhaustive evaluation ran to the end without a violation: recorded, not an error
    for c in run.clauses:
        bk = getattr(c, 'backed_by', None)
        if bk and getattr(c, 'errored', False):
            b = [x for x in run.clauses if x.cid == bk]
            if b and not getattr(b[0], 'errored', False) and b[0].obs and all(o.ok for o in b[0].obs):
                pre = '%s-%s: ' % (run.prop, c.cid)
                for e in [e for e in run.errors if e.startswith(pre)]:
                    run.errors.remove(e)
                    out('ANALYSIS-NOTE property=%s %s [not applicable to this form of the code; the obligation is covered by %s-%s]' % (run.prop, e, run.prop, bk))
                c.notes.append('not applicable to this form of the code; covered by clause %s' % bk)
    for e in run.errors:
        out('%s property=%s %s' % ('ANALYSIS-NOTE' if viol_new else 'ANALYSIS-ERROR', run.prop, e))
    if evidence_path:
        write_evidence(run, evidence_path, viol_new, known_hits, selftest)
    if viol_new:
        return 1
    return 2 if run.errors else 0


def write_evidence(run, path, viol_new, known_hits, selftest):
    obs = list(run.obligations())
    distinct = set(o.ident() for o in obs if o.kind != 'ast')
    samples = []
    seen_clause = set()
    for o in obs:            # one sample per clause first, then violations
        cid = o.clause
        if cid not in seen_clause:
            seen_clause.add(cid)
            samples.append(o.as_dict())
    for o in viol_new + known_hits:
        d = o.as_dict()
        if o.known is not None:
            d['known_finding'] = o.known.get('id')
        samples.append(d)
    units = sorted(set(o.unit for o in obs))
    cov = {
        'explanation': run.extra.get('explanation', ''),
        'evaluations': len(obs),
        'distinct_nontrivial': len(distinct),
        'rule': ('one evaluation = one rule instance (obligation) found in the current source and '
                 'decided; distinct = distinct (clause, unit, construct) keys; non-trivial = the '
                 'instance needed a CFG path / dataflow / algebra / automaton query, not a bare '
                 'syntactic match'),
        'samples': samples[:60],
        'obligations': len(obs),
        'discharged': sum(1 for o in obs if o.ok),
        'checker_cmd': './check %s --tier %s' % (run.prop, run.tier),
        'trusted_base': run.trusted,
        'clauses': [{'clause': '%s-%s' % (run.prop, c.cid), 'rule': c.rule, 'what': c.desc,
                     'instances': len(c.obs), 'floor': c.floor,
                     'violated': sum(1 for o in c.obs if not o.ok), 'analysis_error': bool(c.errored),
                     'notes': c.notes} for c in run.clauses],
        'units_analysed': units,
        'source_digests': run.repo.digests(),
        'pruned_branches': run.repo.pruned,
        'known_findings_rederived': [o.known.get('id') for o in known_hits],
        'exhaustive': True,
    }
    for k, v in run.extra.items():
        if k != 'explanation':
            cov[k] = v
    if selftest is not None:
        cov['selftest'] = selftest
    ev = {
        'property_id': run.prop,
        'tier': run.tier,
        'seed': int(run.seed),
        'level': 'other',
        'coverage': cov,
        'assumptions': run.assumptions,
        'wall_s': round(time.time() - run.t0, 3),
        'violations': len(viol_new),
    }
    os.makedirs(os.path.dirname(path), exist_ok=True)
    tmp = path + '.tmp'
    with open(tmp, 'w') as f:
        json.dump(ev, f, indent=1, sort_keys=False)
        f.write('\n')
    os.replace(tmp, path)

"""Canonical form of the parsed program.

Every rule of the property modules is written against ONE shape of a construct; the loader
rewrites the syntax tree of every package module into that shape first, so that the usual
behaviour-preserving ways of writing the same thing do not reach the rules at all:

  N1  comparison operands:  the simpler operand goes right (constant < name < attribute < other),
      ties in text order; `b > a` becomes `a < b` accordingly.  Only when at most one side has a call.
  N2  `if not X: A else: B`           ->  `if X: B else: A`      (also for X written with != / is not / not in)
  N4  `if T: A(ends in return/raise/continue/break) else: B`  ->  `if T: A` ; B
      `if T: A else: B(ends so)`      ->  `if not T: B` ; A
      when both alternatives end so (with or without an explicit else) the smaller one is the guarded one,
      ties go to the positively written test -- so guard clauses, if/else and their mirror images all meet
  N3  `if a and b: X` (no else)      ->  `if a:` `if b: X`     (one decision per test; nested ifs stay as they are)
  N5  `t = E` immediately followed by `return t`                  ->  `return E`
  N6  `pass` next to other statements is dropped
  N8  `not (a is b)` -> `a is not b`; likewise in / not in, == / !=
  N9  negation normal form: `not (a and b)` -> `not a or not b`, `not (a or b)` -> `not a and not b`;
      with an else branch a disjunction counts as the negatively written test (N2), so `if a or b: X else: Y`
      and `if not a and not b: Y else: X` meet
  N10 `t = <attribute chain>` immediately followed by the only statement using t, as the receiver of its
      outermost call  ->  the chain is written in place
  N7  keyword arguments of calls to package functions / methods whose signature is unique in the
      package become positional as far as the positions are contiguous

Locations are kept (copy_location), so reports still point into the real file.
"""
import ast
import copy


def copy_stmt(s):
    n = copy.copy(s)
    return n


def unshare(tree):
    """Rewrites that duplicate a statement reuse its sub-expressions; a node that hangs in the tree twice is replaced by a copy,
    so that later in-place edits (renaming one binding of a local) touch one place only."""
    seen = set()
    skip = (ast.expr_context, ast.operator, ast.cmpop, ast.boolop, ast.unaryop)

    def visit(n):
        for f, v in ast.iter_fields(n):
            if isinstance(v, ast.AST):
                if isinstance(v, skip):
                    continue
                if id(v) in seen:
                    v = copy.deepcopy(v)
                    setattr(n, f, v)
                seen.add(id(v))
                visit(v)
            elif isinstance(v, list):
                for i, x in enumerate(v):
                    if isinstance(x, ast.AST) and not isinstance(x, skip):
                        if id(x) in seen:
                            x = copy.deepcopy(x)
                            v[i] = x
                        seen.add(id(x))
                        visit(x)
    visit(tree)
    return tree

FLIP = {ast.Eq: ast.Eq, ast.NotEq: ast.NotEq, ast.Lt: ast.Gt, ast.Gt: ast.Lt, ast.LtE: ast.GtE, ast.GtE: ast.LtE}
TERMINATORS = (ast.Return, ast.Raise, ast.Continue, ast.Break)


def _pure(e):
    return not any(isinstance(n, (ast.Call, ast.Await, ast.Yield, ast.YieldFrom, ast.NamedExpr)) for n in ast.walk(e))


def _rank(e):
    if isinstance(e, ast.Constant):
        return 0
    if isinstance(e, ast.UnaryOp) and isinstance(e.operand, ast.Constant):
        return 0
    if isinstance(e, (ast.List, ast.Tuple, ast.Dict, ast.Set)) and all(isinstance(x, ast.Constant) for x in ast.iter_child_nodes(e) if isinstance(x, ast.expr)):
        return 0
    if isinstance(e, ast.Name):
        return 1
    if isinstance(e, ast.Attribute):
        return 2
    return 3


def terminates(body):
    return bool(body) and isinstance(body[-1], TERMINATORS)


NEG = {ast.Is: ast.IsNot, ast.IsNot: ast.Is, ast.In: ast.NotIn, ast.NotIn: ast.In, ast.Eq: ast.NotEq, ast.NotEq: ast.Eq}


def negate(t):
    """negation in negation normal form: `not` only in front of atoms"""
    if isinstance(t, ast.UnaryOp) and isinstance(t.op, ast.Not):
        return t.operand
    if isinstance(t, ast.Compare) and len(t.ops) == 1 and type(t.ops[0]) in NEG:
        return ast.copy_location(ast.Compare(left=t.left, ops=[NEG[type(t.ops[0])]()], comparators=t.comparators), t)
    if isinstance(t, ast.BoolOp):
        return ast.copy_location(ast.BoolOp(op=ast.Or() if isinstance(t.op, ast.And) else ast.And(), values=[negate(v) for v in t.values]), t)
    return ast.copy_location(ast.UnaryOp(op=ast.Not(), operand=t), t)


def signatures(trees):
    """callable name -> parameter names (self dropped) when all definitions in the package agree"""
    seen = {}

    def add(name, f, drop):
        if f.args.vararg or f.args.posonlyargs:
            seen.setdefault(name, set()).add(None)
            return
        seen.setdefault(name, set()).add(tuple(a.arg for a in f.args.args[drop:]))
    for t in trees:
        for st in t.body:
            if isinstance(st, (ast.FunctionDef, ast.AsyncFunctionDef)):
                add(st.name, st, 0)
        for c in ast.walk(t):
            if isinstance(c, ast.ClassDef):
                for f in c.body:
                    if isinstance(f, (ast.FunctionDef, ast.AsyncFunctionDef)):
                        decos = [ast.unparse(d) for d in f.decorator_list]
                        drop = 0 if 'staticmethod' in decos else 1
                        add(f.name, f, drop)
    return dict((k, list(v)[0]) for k, v in seen.items() if len(v) == 1 and None not in v and not k.startswith('__'))


SOLID_CALLS = frozenset(('read', 'decode', 'encode', 'recv', 'getvalue', 'join', 'format', 'replace', 'strip', 'lstrip', 'rstrip', 'lower', 'upper',
                         'str', 'bytes', 'int', 'float', 'bool', 'len', 'list', 'tuple', 'dict', 'set', 'repr', 'chr', 'ord', 'max', 'min', 'abs', 'sorted'))


def _falls_off(body):
    """can control run off the end of this block?"""
    if not body:
        return True
    s = body[-1]
    if isinstance(s, (ast.Return, ast.Raise)):
        return False
    if isinstance(s, ast.If):
        return _falls_off(s.body) or _falls_off(s.orelse)
    if isinstance(s, ast.Try):
        if s.finalbody and not _falls_off(s.finalbody):
            return False
        return (_falls_off(s.orelse) if s.orelse else _falls_off(s.body)) or any(_falls_off(h.body) for h in s.handlers)
    if isinstance(s, ast.While) and isinstance(s.test, ast.Constant) and s.test.value in (True, 1) and not s.orelse:
        return any(isinstance(x, ast.Break) for x in ast.walk(s))
    if isinstance(s, (ast.With, ast.AsyncWith)):
        return _falls_off(s.body)
    return True


def never_none_functions(trees):
    """names of package functions every definition of which always returns something that cannot be None: no bare return, no
    falling off the end, every returned value built from calls that yield text / numbers / containers (os.read, .decode, ...),
    constants other than None, or other such functions"""
    defs = {}
    for t in trees:
        for n in ast.walk(t):
            if isinstance(n, ast.FunctionDef):
                defs.setdefault(n.name, []).append(n)
            elif isinstance(n, ast.AsyncFunctionDef):
                defs.setdefault(n.name, []).append(None)
    good = set()
    assume = [None]

    def solid(e, fn, depth=0):
        if isinstance(e, ast.Constant):
            return e.value is not None
        if isinstance(e, (ast.JoinedStr, ast.List, ast.Tuple, ast.Dict, ast.Set, ast.ListComp, ast.Compare)):
            return True
        if isinstance(e, ast.BinOp):
            return solid(e.left, fn, depth) or solid(e.right, fn, depth)
        if isinstance(e, ast.Subscript) and isinstance(e.slice, ast.Slice):
            return True
        if isinstance(e, ast.Call):
            f = e.func
            nm = f.attr if isinstance(f, ast.Attribute) else (f.id if isinstance(f, ast.Name) else None)
            if nm == assume[0] and isinstance(f, ast.Attribute) and isinstance(f.value, ast.Call) and isinstance(f.value.func, ast.Name) and f.value.func.id == 'super':
                return True
            return nm in SOLID_CALLS or nm in good
        if isinstance(e, ast.Name) and depth < 3:
            def binds(n):
                if isinstance(n, ast.Assign):
                    parts = n.targets
                elif isinstance(n, (ast.AugAssign, ast.For, ast.AsyncFor, ast.NamedExpr)):
                    parts = [n.target]
                elif isinstance(n, (ast.With, ast.AsyncWith)):
                    parts = [i.optional_vars for i in n.items if i.optional_vars is not None]
                elif isinstance(n, ast.ExceptHandler):
                    return n.name == e.id
                else:
                    return False
                return any(isinstance(x, ast.Name) and x.id == e.id for p_ in parts for x in ast.walk(p_))
            asg = [n for n in ast.walk(fn) if binds(n)]
            if not asg or e.id in [a.arg for a in fn.args.args]:
                return False
            return all(isinstance(a, ast.Assign) and len(a.targets) == 1 and isinstance(a.targets[0], ast.Name) and solid(a.value, fn, depth + 1) for a in asg)
        return False
    for _ in range(3):
        for name, ds in defs.items():
            if name in good or None in ds:
                continue
            assume[0] = name          # a definition may return what another definition of the same name returns (super().f(...))
            ok = True
            for fn in ds:
                if any(isinstance(x, (ast.Yield, ast.YieldFrom)) for x in ast.walk(fn)) or _falls_off(fn.body):
                    ok = False
                    break
                guarded = set()          # `return x` inside `if x is not None:`
                for i_ in ast.walk(fn):
                    if isinstance(i_, ast.If) and isinstance(i_.test, ast.Compare) and len(i_.test.ops) == 1 and isinstance(i_.test.ops[0], ast.IsNot) \
                            and isinstance(i_.test.left, ast.Name) and isinstance(i_.test.comparators[0], ast.Constant) and i_.test.comparators[0].value is None:
                        for st_ in i_.body:
                            for r in ast.walk(st_):
                                if isinstance(r, ast.Return) and isinstance(r.value, ast.Name) and r.value.id == i_.test.left.id:
                                    guarded.add(id(r))
                nested = set(id(x) for d_ in ast.walk(fn) if d_ is not fn and isinstance(d_, (ast.FunctionDef, ast.AsyncFunctionDef, ast.Lambda)) for x in ast.walk(d_))
                for r in ast.walk(fn):
                    if isinstance(r, ast.Return) and id(r) not in nested and id(r) not in guarded and (r.value is None or not solid(r.value, fn)):
                        ok = False
                if not ok:
                    break
            if ok:
                good.add(name)
    return good


class _Expr(ast.NodeTransformer):
    def __init__(self, sigs):
        self.sigs = sigs

    def visit_Compare(self, n):
        self.generic_visit(n)
        # N16  x in (a, b) -> x == a or x == b   (literal tuple/list of at most eight call-free elements)
        if len(n.ops) == 1 and isinstance(n.ops[0], (ast.In, ast.NotIn)) and isinstance(n.comparators[0], (ast.Tuple, ast.List)) \
                and 1 <= len(n.comparators[0].elts) <= 8 and _pure(n.left) and all(_pure(e) for e in n.comparators[0].elts):
            pos = isinstance(n.ops[0], ast.In)
            vals = [self.visit_Compare(ast.copy_location(ast.Compare(left=n.left, ops=[ast.Eq() if pos else ast.NotEq()], comparators=[e]), n))
                    for e in n.comparators[0].elts]
            if len(vals) == 1:
                return vals[0]
            return ast.copy_location(ast.BoolOp(op=ast.Or() if pos else ast.And(), values=vals), n)
        if len(n.ops) == 1 and isinstance(n.left, ast.Constant) and isinstance(n.comparators[0], ast.Constant):
            # N33  a comparison of two literals (a helper specialised for / inlined with a literal argument)
            x, y, op = n.left.value, n.comparators[0].value, type(n.ops[0])
            try:
                import operator as _o
                if op in (ast.Eq, ast.NotEq, ast.Lt, ast.LtE, ast.Gt, ast.GtE):
                    v = {ast.Eq: _o.eq, ast.NotEq: _o.ne, ast.Lt: _o.lt, ast.LtE: _o.le, ast.Gt: _o.gt, ast.GtE: _o.ge}[op](x, y)
                    return ast.copy_location(ast.Constant(value=bool(v)), n)
                if op in (ast.Is, ast.IsNot) and (x is None or y is None or isinstance(x, bool) or isinstance(y, bool)):
                    v = (x is y) if op is ast.Is else (x is not y)
                    return ast.copy_location(ast.Constant(value=bool(v)), n)
            except TypeError:
                pass
        if len(n.ops) != 1 or type(n.ops[0]) not in FLIP:
            return n
        a, b = n.left, n.comparators[0]
        if not (_pure(a) or _pure(b)):
            return n
        ra, rb = _rank(a), _rank(b)
        if ra < rb or (ra == rb and ast.unparse(a) > ast.unparse(b)):
            return ast.copy_location(ast.Compare(left=b, ops=[FLIP[type(n.ops[0])]()], comparators=[a]), n)
        return n

    def visit_UnaryOp(self, n):
        # N8  not (a is b) -> a is not b   (same for in / == and their negations)
        self.generic_visit(n)
        if isinstance(n.op, ast.Not) and isinstance(n.operand, ast.Compare) and len(n.operand.ops) == 1 and type(n.operand.ops[0]) in NEG:
            return negate(n.operand)
        if isinstance(n.op, ast.Not) and isinstance(n.operand, ast.BoolOp):
            # N9 negation normal form (De Morgan); the operands were visited already, so the result is in normal form too
            return self.visit(negate(n.operand))
        if isinstance(n.op, ast.Not) and isinstance(n.operand, ast.UnaryOp) and isinstance(n.operand.op, ast.Not) and self.in_test:
            return n.operand.operand
        return n

    in_test = False

    def visit_BoolOp(self, n):
        self.generic_visit(n)
        # flatten a and (b and c)
        vals = []
        for v in n.values:
            if isinstance(v, ast.BoolOp) and type(v.op) is type(n.op):
                vals.extend(v.values)
            else:
                vals.append(v)
        # constant operands: `True and x` -> x, `False and x` -> False, `False or x` -> x, `True or x` -> True (only when the
        # operand is a literal True / False, i.e. produced by the folding above)
        if self.in_test or True:
            keep = []
            for v in vals:
                if isinstance(v, ast.Constant) and isinstance(v.value, bool):
                    if v.value == isinstance(n.op, ast.Or):
                        # decides the whole expression, provided nothing with an effect is skipped after it: what was kept so far still runs
                        keep.append(v)
                        break
                    continue
                keep.append(v)
            if not keep:
                return ast.copy_location(ast.Constant(value=isinstance(n.op, ast.And)), n)
            if len(keep) == 1:
                return keep[0]
            if isinstance(keep[-1], ast.Constant) and isinstance(keep[-1].value, bool) and all(_pure(k) for k in keep[:-1]):
                return keep[-1]
            vals = keep
        n.values = vals
        return n

    _TYPES = {int: 'int', str: 'str', bytes: 'bytes', float: 'float', bool: 'bool', list: 'list', dict: 'dict', tuple: 'tuple'}

    def _expand_call(self, n):
        """N14 isinstance(x, (A, B)) -> isinstance(x, A) or isinstance(x, B);  N15 type(<literal>) -> the type's name"""
        if isinstance(n.func, ast.Name) and n.func.id == 'isinstance' and len(n.args) == 2 and not n.keywords \
                and isinstance(n.args[1], ast.Tuple) and n.args[1].elts and _pure(n.args[0]) and all(_pure(e) for e in n.args[1].elts):
            vals = [ast.copy_location(ast.Call(func=ast.Name(id='isinstance', ctx=ast.Load()), args=[n.args[0], e], keywords=[]), n) for e in n.args[1].elts]
            return vals[0] if len(vals) == 1 else ast.copy_location(ast.BoolOp(op=ast.Or(), values=vals), n)
        # N32 getattr(x, '<identifier>') -> x.<identifier>
        if isinstance(n.func, ast.Name) and n.func.id == 'getattr' and len(n.args) == 2 and not n.keywords and isinstance(n.args[1], ast.Constant) \
                and isinstance(n.args[1].value, str) and n.args[1].value.isidentifier() and not n.args[1].value.startswith('__'):
            return ast.copy_location(ast.Attribute(value=n.args[0], attr=n.args[1].value, ctx=ast.Load()), n)
        if isinstance(n.func, ast.Name) and n.func.id == 'type' and len(n.args) == 1 and not n.keywords:
            a = n.args[0]
            t = None
            if isinstance(a, ast.Constant) and type(a.value) in self._TYPES:
                t = self._TYPES[type(a.value)]
            elif isinstance(a, ast.List) and not a.elts:
                t = 'list'
            elif isinstance(a, ast.Dict) and not a.keys:
                t = 'dict'
            elif isinstance(a, ast.Tuple) and not a.elts:
                t = 'tuple'
            if t:
                return ast.copy_location(ast.Name(id=t, ctx=ast.Load()), n)
        return None

    def visit_Call(self, n):
        self.generic_visit(n)
        e = self._expand_call(n)
        if e is not None:
            return e
        if not n.keywords or any(isinstance(a, ast.Starred) for a in n.args) or any(k.arg is None for k in n.keywords):
            return n
        if isinstance(n.func, ast.Attribute):
            name = n.func.attr
        elif isinstance(n.func, ast.Name):
            name = n.func.id
        else:
            return n
        sig = self.sigs.get(name)
        if not sig:
            return n
        if any(k.arg not in sig for k in n.keywords) or len(n.args) > len(sig):
            return n
        kws = dict((k.arg, k) for k in n.keywords)
        args = list(n.args)
        while len(args) < len(sig) and sig[len(args)] in kws:
            args.append(kws.pop(sig[len(args)]).value)
        if len(args) == len(n.args):
            return n
        rest = [k for k in n.keywords if k.arg in kws]
        return ast.copy_location(ast.Call(func=n.func, args=args, keywords=rest), n)


class Canon(object):
    def __init__(self, sigs, never_none=(), sentinels=()):
        self.ex = _Expr(sigs)
        self.count = {}
        self.fns = []
        self.never_none = set(never_none)
        self.sentinels = set(sentinels)
        self.sentinel_funcs = set()
        self.sentinel_attrs = set()
        self.stored_any = frozenset()
        self.stored_late = frozenset()
        self._thread_mode = 'none'
        self._push_known = 0

    def _truth_state(self, stmts, x):
        """like _none_state, for the truth value of x: True / False when the block ends by binding x to a literal, 'dead', else None"""
        if not stmts:
            return None
        last = stmts[-1]
        if isinstance(last, TERMINATORS):
            return 'dead'
        if isinstance(last, ast.Assign) and len(last.targets) == 1 and isinstance(last.targets[0], ast.Name) and last.targets[0].id == x \
                and isinstance(last.value, ast.Constant):
            return bool(last.value.value)
        return None

    def _sentinel_state(self, stmts, x, marker):
        """is x the module-level marker object *marker* when control leaves the block at its end?"""
        if not stmts:
            return None
        last = stmts[-1]
        if isinstance(last, TERMINATORS):
            return 'dead'
        if isinstance(last, ast.Assign) and len(last.targets) == 1 and isinstance(last.targets[0], ast.Name) and last.targets[0].id == x:
            v = last.value
            if isinstance(v, ast.Name) and v.id == marker:
                return True
            if isinstance(v, ast.Constant):
                return False
            if isinstance(v, ast.Call):
                f_ = v.func
                nm = f_.attr if isinstance(f_, ast.Attribute) else None          # a method of another object that no marker-aware function is named like
                if nm is not None and nm not in self.sentinel_funcs and not any(isinstance(y, ast.Name) and y.id in self.sentinels for y in ast.walk(v)):
                    return False
        return None

    def _none_state(self, stmts, x):
        """what the last statement of a block says about `x is None` when control leaves the block at its end:
        True / False / None (unknown); 'dead' when control does not leave it there"""
        if not stmts:
            return None
        last = stmts[-1]
        if isinstance(last, TERMINATORS):
            return 'dead'
        if isinstance(last, ast.Assign) and len(last.targets) == 1 and isinstance(last.targets[0], ast.Name) and last.targets[0].id == x:
            v = last.value
            if isinstance(v, ast.Constant):
                return v.value is None
            if isinstance(v, (ast.JoinedStr, ast.List, ast.Tuple, ast.Dict, ast.Set)):
                return False
            if isinstance(v, ast.Call):
                f = v.func
                nm = f.attr if isinstance(f, ast.Attribute) else (f.id if isinstance(f, ast.Name) else None)
                if nm in self.never_none:
                    return False
        return None

    def _continues_ok(self, body):
        """every `continue` of the loop body is in tail position of an if-chain of the body itself (not inside an inner loop / try / with), and
        the body has no return (so that, unrolled, `continue` can be written as "skip the rest of this copy")"""
        if not any(isinstance(x, ast.Continue) for b in body for x in ast.walk(b)):
            return True
        if any(isinstance(x, ast.Return) for b in body for x in ast.walk(b)):
            return False

        def ok(stmts):
            for i, st in enumerate(stmts):
                if isinstance(st, ast.Continue):
                    if i != len(stmts) - 1:
                        return False
                elif isinstance(st, ast.If):
                    if not ok(st.body) or not ok(st.orelse):
                        return False
                elif any(isinstance(x, ast.Continue) for x in ast.walk(st)):
                    return False
            return True
        return ok(body)

    def _drop_continues(self, stmts):
        """the statements with every `continue` removed and what follows an if whose branch continued moved into the other branch"""
        out = []
        for i, st in enumerate(stmts):
            if isinstance(st, ast.Continue):
                return out
            if isinstance(st, ast.If) and any(isinstance(x, ast.Continue) for x in ast.walk(st)):
                rest = stmts[i + 1:]
                b_c = any(isinstance(x, ast.Continue) for z in st.body for x in ast.walk(z))
                e_c = any(isinstance(x, ast.Continue) for z in st.orelse for x in ast.walk(z))
                ends = lambda arm: bool(arm) and isinstance(arm[-1], ast.Continue)
                if b_c and e_c:
                    nb, ne = self._drop_continues(list(st.body) + ([] if ends(st.body) else rest)), self._drop_continues(list(st.orelse) + ([] if ends(st.orelse) else rest))
                elif b_c:
                    nb, ne = self._drop_continues(list(st.body) + rest), self._drop_continues(list(st.orelse) + rest)
                else:
                    nb, ne = self._drop_continues(list(st.body) + rest), self._drop_continues(list(st.orelse) + rest)
                out.append(ast.copy_location(ast.If(test=st.test, body=nb or [ast.copy_location(ast.Pass(), st)], orelse=ne), st))
                return out
            out.append(st)
        return out

    def _seq_literal(self, e, depth=0):
        """the elements of a literal sequence expression: a tuple / list display of call-free elements, a `+` of such, or a local of the
        current function that is bound exactly once (outside loops) to such an expression and otherwise only iterated over / concatenated"""
        if depth > 3:
            return None
        if isinstance(e, (ast.Tuple, ast.List)):
            if all(_pure(x) and not isinstance(x, ast.Starred) for x in e.elts):
                return list(e.elts)
            return None
        if isinstance(e, ast.BinOp) and isinstance(e.op, ast.Add):
            l_, r_ = self._seq_literal(e.left, depth + 1), self._seq_literal(e.right, depth + 1)
            return None if l_ is None or r_ is None else l_ + r_
        if isinstance(e, ast.Name) and self.fns:
            fn = self.fns[-1]
            if e.id in [a.arg for a in fn.args.args + fn.args.kwonlyargs]:
                return None
            defs = [n for n in ast.walk(fn) if isinstance(n, ast.Name) and n.id == e.id and isinstance(n.ctx, (ast.Store, ast.Del))]
            if len(defs) != 1:
                return None
            asg = [n for n in ast.walk(fn) if isinstance(n, ast.Assign) and len(n.targets) == 1 and n.targets[0] is defs[0]]
            if not asg or any(isinstance(p_, (ast.For, ast.While, ast.AsyncFor)) for p_ in _parents(fn, asg[0])):
                return None
            par = {}
            for n in ast.walk(fn):
                for ch in ast.iter_child_nodes(n):
                    par[id(ch)] = n
            for n in ast.walk(fn):
                if isinstance(n, ast.Name) and n.id == e.id and isinstance(n.ctx, ast.Load):
                    p = par.get(id(n))
                    if not ((isinstance(p, (ast.For, ast.AsyncFor)) and p.iter is n) or (isinstance(p, ast.BinOp) and isinstance(p.op, ast.Add))
                            or (isinstance(p, ast.Tuple) and isinstance(par.get(id(p)), (ast.Tuple, ast.For)))):
                        return None
            return self._seq_literal(asg[0].value, depth + 1)
        return None

    def _read_first(self, stmt, name_node):
        """is *name_node* evaluated in *stmt* before any call / await / yield is made (so that reading an attribute chain there instead of
        just before the statement gives the same value)?  Simple statements: everything evaluated before the name must be call-free.
        `if <call-free test>: S1 ...`: the name may sit in S1 (or the first statement of the else branch)."""
        def order(e):
            """sub-expressions in the order in which their evaluation COMPLETES (operands before the operation that uses them)"""
            if isinstance(e, ast.Call):
                for x in order(e.func):
                    yield x
                for a_ in e.args:
                    for x in order(a_):
                        yield x
                for k_ in e.keywords:
                    for x in order(k_.value):
                        yield x
                yield e
            elif isinstance(e, ast.IfExp):
                for part in (e.test, e.body, e.orelse):
                    for x in order(part):
                        yield x
                yield e
            elif isinstance(e, ast.Dict):
                for k_, v_ in zip(e.keys, e.values):
                    if k_ is not None:
                        for x in order(k_):
                            yield x
                    for x in order(v_):
                        yield x
                yield e
            elif isinstance(e, (ast.Lambda, ast.ListComp, ast.SetComp, ast.DictComp, ast.GeneratorExp)):
                yield e          # evaluated later / repeatedly: treated as a barrier below
            else:
                for ch in ast.iter_child_nodes(e):
                    if isinstance(ch, ast.expr):
                        for x in order(ch):
                            yield x
                yield e

        def before_ok(expr_root):
            for x in order(expr_root):
                if x is name_node:
                    return True
                if isinstance(x, (ast.Call, ast.Await, ast.Yield, ast.YieldFrom, ast.NamedExpr, ast.Lambda, ast.ListComp, ast.SetComp, ast.DictComp, ast.GeneratorExp)):
                    return False
            return False
        if isinstance(stmt, (ast.Expr, ast.Assign, ast.AugAssign, ast.Return)):
            if isinstance(stmt, ast.AugAssign):
                return False
            if isinstance(stmt, ast.Assign) and any(any(x is name_node for x in ast.walk(t)) for t in stmt.targets):
                return False
            if isinstance(stmt, ast.Assign) and not all(_pure(t) for t in stmt.targets):
                return False
            return stmt.value is not None and before_ok(stmt.value)
        if isinstance(stmt, ast.If):
            if any(x is name_node for x in ast.walk(stmt.test)):
                return before_ok(stmt.test)
            if not _pure(stmt.test):
                return False
            for arm in (stmt.body, stmt.orelse):
                if arm and any(x is name_node for x in ast.walk(arm[0])):
                    return self._read_first(arm[0], name_node)
        return False

    def _push(self, stmts, x, nxt, is_none_true):
        """*stmts* with the decided copy of the `if x is [not] None` statement *nxt* appended at every place where control leaves the
        block at its end; None when the value of x is not known at one of those places.  Recurses through trailing if/else chains."""
        if not stmts:
            return None
        last = stmts[-1]
        if isinstance(last, ast.If) and last.orelse and not isinstance(last, TERMINATORS):
            b = self._push(last.body, x, nxt, is_none_true)
            e = self._push(last.orelse, x, nxt, is_none_true)
            if b is None or e is None:
                return None
            return list(stmts[:-1]) + [ast.copy_location(ast.If(test=last.test, body=b, orelse=e), last)]
        if isinstance(last, ast.Try) and not last.finalbody:
            # control leaves a try statement at the end of its else part (or of its body) and at the end of every handler
            nt = copy.copy(last)
            if last.orelse:
                nt.orelse = self._push(last.orelse, x, nxt, is_none_true)
            else:
                # what follows the try runs OUTSIDE the protection of its handlers: it goes into an else part, never into the body
                if last.body and not isinstance(last.body[-1], (ast.If, ast.Try)):
                    pushed = self._push(last.body, x, nxt, is_none_true)
                    nt.orelse = pushed[len(last.body):]
                else:
                    nt.orelse = [copy.deepcopy(nxt)]
                if not nt.orelse:
                    nt.orelse = []
            nt.handlers = []
            for h in last.handlers:
                nh = copy.copy(h)
                nh.body = self._push(h.body, x, nxt, is_none_true)
                nt.handlers.append(nh)
            return list(stmts[:-1]) + [nt]
        if self._thread_mode == 'none':
            st = self._none_state(stmts, x)
        elif self._thread_mode == 'truth':
            st = self._truth_state(stmts, x)
        else:
            st = self._sentinel_state(stmts, x, self._thread_mode)
        if st == 'dead':
            return list(stmts)
        if st in (True, False):
            taken = nxt.body if (st == is_none_true) else nxt.orelse
            self._push_known += 1
            return list(stmts) + [copy.deepcopy(z) for z in taken]
        # not known here: the test itself is repeated at this place (it runs right after the block either way)
        return list(stmts) + [copy.deepcopy(nxt)]

    def thread(self, body):
        """N38  <if/else (chain) whose branches end by binding x> ; if x is [not] None: B [else: C]   ->   the second test moves into the branches of
        the first and is decided there where the binding says so (x = None / x = <a literal> / x = <a call that never yields None>).  This is how a
        helper that reports "nothing to do" by returning None reads after it has been written back into its caller, and how a table lookup
        with a None entry for "carry on" does."""
        out = []
        i = 0
        while i < len(body):
            s = body[i]
            nxt = body[i + 1] if i + 1 < len(body) else None
            if ((isinstance(s, ast.If) and s.orelse) or (isinstance(s, ast.Try) and not s.finalbody)) and isinstance(nxt, ast.If) and _size([nxt]) <= 40:
                t = nxt.test
                neg = False
                while isinstance(t, ast.UnaryOp) and isinstance(t.op, ast.Not):
                    t, neg = t.operand, not neg
                x = None
                if isinstance(t, ast.Compare) and len(t.ops) == 1 and isinstance(t.ops[0], (ast.Is, ast.IsNot)) and isinstance(t.left, ast.Name) \
                        and isinstance(t.comparators[0], ast.Constant) and t.comparators[0].value is None:
                    x = t.left.id
                    is_none_true = isinstance(t.ops[0], ast.Is) != neg          # the test is true exactly when x is None
                    self._thread_mode = 'none'
                elif isinstance(t, ast.Compare) and len(t.ops) == 1 and isinstance(t.ops[0], (ast.Is, ast.IsNot)) and isinstance(t.left, ast.Name) \
                        and isinstance(t.comparators[0], ast.Name) and t.comparators[0].id in self.sentinels:
                    # `if x is MARKER:` after branches that end in `x = MARKER` / `x = <something else>`
                    x = t.left.id
                    is_none_true = isinstance(t.ops[0], ast.Is) != neg
                    self._thread_mode = t.comparators[0].id
                elif isinstance(t, ast.Name):
                    # `if flag:` / `if not flag:` after branches that end in `flag = True` / `flag = False`
                    x = t.id
                    is_none_true = not neg          # (here: the test is true exactly when x is TRUE)
                    self._thread_mode = 'truth'
                if x is not None:
                    self._push_known = 0
                    new = self._push([s], x, nxt, is_none_true)
                    if self._push_known == 0:
                        new = None          # nothing would be decided: leave the code as it is
                    if new is not None and len(new) == 1:
                        ns = new[0]
                        ns.body = self.block(ns.body) or [ast.copy_location(ast.Pass(), s)]
                        ns.orelse = self.block(ns.orelse)
                        if isinstance(ns, ast.Try):
                            for h in ns.handlers:
                                h.body = self.block(h.body)
                        out.append(ns)
                        self.hit('N38')
                        i += 2
                        continue
            out.append(s)
            i += 1
        return out

    def dead_stores(self, fn):
        """N39  `x = <constant / name / attribute chain>` where x is never read anywhere in the function (left over when a None-protocol was
        threaded away, or the unused half of an inlined helper's result)"""
        if any(isinstance(n, (ast.Global, ast.Nonlocal, ast.ClassDef)) for n in ast.walk(fn)):
            return 0
        if any(isinstance(n, ast.Call) and isinstance(n.func, ast.Name) and n.func.id in ('locals', 'vars', 'eval', 'exec') for n in ast.walk(fn)):
            return 0
        loads = set(n.id for n in ast.walk(fn) if isinstance(n, ast.Name) and isinstance(n.ctx, (ast.Load, ast.Del)))
        hit = [0]

        def clean(stmts):
            res = []
            for st in stmts:
                if isinstance(st, ast.Assign) and len(st.targets) == 1 and isinstance(st.targets[0], ast.Name) and st.targets[0].id not in loads \
                        and (isinstance(st.value, (ast.Constant, ast.Name)) or _chain(st.value) or
                             (isinstance(st.value, (ast.Dict, ast.Tuple, ast.List)) and _pure(st.value))):
                    hit[0] += 1
                    continue
                if isinstance(st, ast.Assign) and len(st.targets) == 1 and isinstance(st.targets[0], ast.Name) and st.targets[0].id not in loads \
                        and isinstance(st.value, (ast.Call, ast.Await)):
                    # the result of a call that nobody reads: only the call remains
                    hit[0] += 1
                    res.append(ast.copy_location(ast.Expr(value=st.value), st))
                    continue
                for f_ in ('body', 'orelse', 'finalbody'):
                    v = getattr(st, f_, None)
                    if isinstance(v, list) and v and isinstance(v[0], ast.stmt) and not isinstance(st, (ast.FunctionDef, ast.AsyncFunctionDef)):
                        nv = clean(v)
                        if not nv and f_ == 'body':
                            nv = [ast.copy_location(ast.Pass(), st)]
                        setattr(st, f_, nv)
                if isinstance(st, ast.Try):
                    for h in st.handlers:
                        h.body = clean(h.body) or [ast.copy_location(ast.Pass(), h)]
                res.append(st)
            return res
        fn.body = clean(fn.body) or [ast.copy_location(ast.Pass(), fn)]
        return hit[0]

    def hit(self, rule):
        self.count[rule] = self.count.get(rule, 0) + 1

    def unroll_collect(self, fn):
        """N50  `L = []` / `for _ in range(K): ...; L.append(E)` (K a constant 1..4, the loop variable never read, no break / continue):
        the loop is written out K times.  A local list that starts empty, is only appended to by top-level statements of the SAME block
        and is afterwards only read through constant indices / constant slices in later statements of that block is replaced by one
        local per element (`a, b = L[-2:]` becomes `a = L__1; b = L__2`).  Anything else about the list leaves the function alone."""
        def blocks(node):
            for fld in ('body', 'orelse', 'finalbody'):
                b = getattr(node, fld, None)
                if isinstance(b, list) and b and isinstance(b[0], ast.stmt):
                    yield b
                    for st in b:
                        if not isinstance(st, (ast.FunctionDef, ast.AsyncFunctionDef, ast.ClassDef)):
                            for x in blocks(st):
                                yield x
            for h in getattr(node, 'handlers', []) or []:
                for x in blocks(h):
                    yield x

        def is_append(st, name):
            return isinstance(st, ast.Expr) and isinstance(st.value, ast.Call) and isinstance(st.value.func, ast.Attribute) \
                and st.value.func.attr == 'append' and isinstance(st.value.func.value, ast.Name) and st.value.func.value.id == name \
                and len(st.value.args) == 1 and not st.value.keywords and not isinstance(st.value.args[0], ast.Starred) \
                and not any(isinstance(x, ast.Name) and x.id == name for x in ast.walk(st.value.args[0]))

        def cint(e):
            if e is None:
                return None
            if isinstance(e, ast.Constant) and type(e.value) is int:
                return e.value
            if isinstance(e, ast.UnaryOp) and isinstance(e.op, ast.USub) and isinstance(e.operand, ast.Constant) and type(e.operand.value) is int:
                return -e.operand.value
            return 'x'

        all_names = {}
        for x in ast.walk(fn):
            if isinstance(x, ast.Name):
                all_names[x.id] = all_names.get(x.id, 0) + 1
        for B in list(blocks(fn)):
            for i, st in enumerate(B):
                if not (isinstance(st, ast.Assign) and len(st.targets) == 1 and isinstance(st.targets[0], ast.Name)
                        and isinstance(st.value, ast.List) and not st.value.elts):
                    continue
                L = st.targets[0].id
                if L in [a.arg for a in fn.args.args + fn.args.kwonlyargs] or any(isinstance(x, (ast.Global, ast.Nonlocal)) and L in x.names for x in ast.walk(fn)):
                    continue
                # (1) constant-trip collection loops of this list, in this block, are written out
                j = i + 1
                changed = False
                while j < len(B):
                    s2 = B[j]
                    if isinstance(s2, ast.For) and not s2.orelse and isinstance(s2.target, ast.Name) and all_names.get(s2.target.id) == 1 \
                            and isinstance(s2.iter, ast.Call) and isinstance(s2.iter.func, ast.Name) and s2.iter.func.id == 'range' \
                            and len(s2.iter.args) == 1 and not s2.iter.keywords and type(cint(s2.iter.args[0])) is int and 1 <= cint(s2.iter.args[0]) <= 4 \
                            and 'range' not in all_names.keys() - {'range'} \
                            and any(is_append(b, L) for b in s2.body) \
                            and not any(isinstance(x, (ast.Break, ast.Continue, ast.FunctionDef, ast.AsyncFunctionDef, ast.Lambda, ast.ClassDef, ast.NamedExpr))
                                        for b in s2.body for x in ast.walk(b)):
                        k = cint(s2.iter.args[0])
                        copies = []
                        for _ in range(k):
                            copies.extend(copy.deepcopy(b) for b in s2.body)
                        B[j:j + 1] = copies
                        changed = True
                        self.hit('N50')
                        j += len(copies)
                        continue
                    j += 1
                # (2) the list becomes one local per element
                apps = [j for j in range(i + 1, len(B)) if is_append(B[j], L)]
                if not apps:
                    continue
                n = len(apps)
                last = apps[-1]
                occ = sum(1 for x in ast.walk(fn) if isinstance(x, ast.Name) and x.id == L)
                reads = []
                ok = True
                for j in range(last + 1, len(B)):
                    par = {}
                    for x in ast.walk(B[j]):
                        for ch in ast.iter_child_nodes(x):
                            par[id(ch)] = x
                    for x in ast.walk(B[j]):
                        if isinstance(x, ast.Name) and x.id == L:
                            sub = par.get(id(x))
                            if not (isinstance(sub, ast.Subscript) and sub.value is x and isinstance(sub.ctx, ast.Load)):
                                ok = False
                                break
                            sl = sub.slice
                            if isinstance(sl, ast.Slice):
                                lo, hi = cint(sl.lower), cint(sl.upper)
                                if sl.step is not None or lo == 'x' or hi == 'x':
                                    ok = False
                                    break
                                idx = list(range(n))[slice(lo, hi)]
                                reads.append((sub, idx, True, j))
                            else:
                                c_ = cint(sl)
                                if type(c_) is not int or not (-n <= c_ < n):
                                    ok = False
                                    break
                                reads.append((sub, [c_ % n], False, j))
                    if not ok:
                        break
                if not ok or occ != 1 + n + len(reads) or not reads:
                    continue
                names = ['%s__%d' % (L, k) for k in range(n)]
                if any(nm in all_names for nm in names):
                    continue
                # no loop may carry control back from the reads to the appends: the block itself is not (inside) a loop body
                # that matters only if L were re-initialised per iteration, which is exactly what `L = []` in this block does
                for k, j in enumerate(apps):
                    B[j] = ast.copy_location(ast.Assign(targets=[ast.Name(id=names[k], ctx=ast.Store())], value=B[j].value.args[0]), B[j])
                repl = {}
                for sub, idx, is_slice, j in reads:
                    if is_slice:
                        repl[id(sub)] = ast.copy_location(ast.List(elts=[ast.Name(id=names[k], ctx=ast.Load()) for k in idx], ctx=ast.Load()), sub)
                    else:
                        repl[id(sub)] = ast.copy_location(ast.Name(id=names[idx[0]], ctx=ast.Load()), sub)

                class _R(ast.NodeTransformer):
                    def visit_Subscript(s_, x):
                        if id(x) in repl:
                            return repl[id(x)]
                        s_.generic_visit(x)
                        return x
                out = []
                for j, s2 in enumerate(B):
                    if j == i:
                        continue
                    if j > last:
                        s2 = _R().visit(s2)
                        if isinstance(s2, ast.Assign) and len(s2.targets) == 1 and isinstance(s2.targets[0], (ast.Tuple, ast.List)) \
                                and isinstance(s2.value, ast.List) and len(s2.value.elts) == len(s2.targets[0].elts) \
                                and all(isinstance(t, ast.Name) for t in s2.targets[0].elts) \
                                and all(isinstance(v, ast.Name) and v.id in names for v in s2.value.elts):
                            for t, v in zip(s2.targets[0].elts, s2.value.elts):
                                out.append(ast.copy_location(ast.Assign(targets=[t], value=v), s2))
                            continue
                    out.append(s2)
                B[:] = out
                self.hit('N50')
                ast.fix_missing_locations(fn)
                return True
        return False

    def propagate(self, fn):
        """N24  a local assigned exactly once from a call-free expression over names that are themselves never re-assigned
        (parameters that are never assigned, other such locals) and constants -- or len() of such a name -- is replaced by that
        expression wherever it is read: `key = (sym, state)`, `window_len = len(window)`, `longer = a > b`"""
        if any(isinstance(n, (ast.FunctionDef, ast.AsyncFunctionDef, ast.Lambda, ast.ClassDef, ast.Global, ast.Nonlocal)) for n in ast.walk(fn) if n is not fn):
            return
        if any(isinstance(n, ast.Call) and isinstance(n.func, ast.Name) and n.func.id in ('locals', 'vars') for n in ast.walk(fn)):
            return
        stores = {}
        for n in ast.walk(fn):
            if isinstance(n, ast.Name) and isinstance(n.ctx, (ast.Store, ast.Del)):
                stores[n.id] = stores.get(n.id, 0) + 1
            elif isinstance(n, ast.ExceptHandler) and n.name:
                stores[n.name] = stores.get(n.name, 0) + 2
        params = set(a.arg for a in fn.args.args + fn.args.kwonlyargs)
        stable = set(p for p in params if p not in stores)
        defs = {}
        for n in ast.walk(fn):
            if isinstance(n, ast.Assign) and len(n.targets) == 1 and isinstance(n.targets[0], ast.Name) and stores.get(n.targets[0].id) == 1 \
                    and n.targets[0].id not in params:
                defs[n.targets[0].id] = n

        def simple(e, ok_names):
            if isinstance(e, ast.Constant):
                return True
            if isinstance(e, ast.Name):
                return e.id in ok_names
            if isinstance(e, ast.Attribute) and isinstance(e.value, ast.Name) and e.value.id in ('select', 'signal', 'errno', 're', 'socket', 'termios', 'tty', 'stat') \
                    and e.value.id not in stores and e.attr.isupper():
                return True          # select.POLLIN, errno.EINTR, re.DOTALL: constants of a standard module
            if isinstance(e, (ast.Tuple,)):
                return all(simple(x, ok_names) for x in e.elts)
            if isinstance(e, ast.BinOp):
                return simple(e.left, ok_names) and simple(e.right, ok_names)
            if isinstance(e, ast.UnaryOp):
                return simple(e.operand, ok_names)
            if isinstance(e, ast.BoolOp):
                return all(simple(x, ok_names) for x in e.values)
            if isinstance(e, ast.Compare):
                return simple(e.left, ok_names) and all(simple(x, ok_names) for x in e.comparators)
            if isinstance(e, ast.Call) and isinstance(e.func, ast.Name) and e.func.id == 'len' and len(e.args) == 1 and not e.keywords:
                # only for an object nothing in the function can grow or shrink: no method call on it, no item / slice store or delete
                return isinstance(e.args[0], ast.Name) and e.args[0].id in ok_names and e.args[0].id not in mutated
            return False
        mutated = set()
        for n in ast.walk(fn):
            if isinstance(n, ast.Call) and isinstance(n.func, ast.Attribute) and isinstance(n.func.value, ast.Name):
                mutated.add(n.func.value.id)
            elif isinstance(n, ast.Subscript) and isinstance(n.ctx, (ast.Store, ast.Del)) and isinstance(n.value, ast.Name):
                mutated.add(n.value.id)
        # single-assigned locals count as stable operands too (their own value does not change once set), loop targets do not
        once = set(defs)
        subst = {}
        for name, d in defs.items():
            v = d.value
            if isinstance(v, ast.Constant):
                continue
            if isinstance(v, ast.Name):
                # a plain copy `x = y`: propagated only when y is itself a local assigned exactly once (an extracted-helper result)
                if not (v.id in once and v.id != name):
                    continue
            if simple(v, (stable | once) - {name}) and not any(isinstance(p, (ast.For, ast.While, ast.AsyncFor)) for p in _parents(fn, d)):
                subst[name] = d
        if not subst:
            return

        class T(ast.NodeTransformer):
            def visit_Name(self_, n):
                if isinstance(n.ctx, ast.Load) and n.id in subst:
                    return copy.deepcopy(subst[n.id].value)
                return n

            def visit_Assign(self_, n):
                if any(n is d for d in subst.values()):
                    return ast.copy_location(ast.Pass(), n)
                return self_.generic_visit(n)
        for _ in range(3):
            T().visit(fn)
        self.hit('N24')
        self.ex.visit(fn)

    def alias_fields(self, fn):
        """N48  a local bound once to a field (`table = self.state_transitions`, `row = self.cur_r`) all of whose reads happen before
        anything could re-bind the field is the field itself: the statements from the binding to the last read are in the same
        block, make no call (the last one may be a single call whose arguments hold the reads -- they are evaluated before it
        runs), and store to no attribute of that name nor to the root of the chain.  "Look the field up once" micro-optimisations."""
        if any(isinstance(n, (ast.FunctionDef, ast.AsyncFunctionDef, ast.Lambda, ast.ClassDef, ast.Global, ast.Nonlocal)) for n in ast.walk(fn) if n is not fn):
            return
        if any(isinstance(n, ast.Call) and isinstance(n.func, ast.Name) and n.func.id in ('locals', 'vars', 'eval', 'exec') for n in ast.walk(fn)):
            return
        stores, nloads = {}, {}
        for n in ast.walk(fn):
            if isinstance(n, ast.Name):
                if isinstance(n.ctx, (ast.Store, ast.Del)):
                    stores[n.id] = stores.get(n.id, 0) + 1
                else:
                    nloads[n.id] = nloads.get(n.id, 0) + 1
            elif isinstance(n, ast.ExceptHandler) and n.name:
                stores[n.name] = stores.get(n.name, 0) + 2
        params = set(a.arg for a in fn.args.args + fn.args.kwonlyargs + fn.args.posonlyargs)
        QUIET_CALLS = ('len', 'isinstance', 'type', 'id', 'callable')

        from .stale import _foreign_receiver

        def loud_calls(e):
            # (a method of a standard-library object -- `self.fut.done()`, `spawn._before.tell()`, `os.read(..)` -- runs no package code: it
            # cannot re-bind a field)
            return [k for k in ast.walk(e) if isinstance(k, (ast.Await, ast.Yield, ast.YieldFrom)) or
                    (isinstance(k, ast.Call) and not (isinstance(k.func, ast.Name) and k.func.id in QUIET_CALLS and k.func.id not in stores)
                     and not (isinstance(k.func, ast.Attribute) and _foreign_receiver(k.func.value)))]

        def touches(st, attrs, root):
            for n in ast.walk(st):
                if isinstance(n, ast.Attribute) and isinstance(n.ctx, (ast.Store, ast.Del)) and n.attr in attrs:
                    return True
                if isinstance(n, ast.Name) and isinstance(n.ctx, (ast.Store, ast.Del)) and n.id == root:
                    return True
                if isinstance(n, ast.ExceptHandler) and n.name == root:
                    return True
            return False

        def count(st, x):
            return sum(1 for n in ast.walk(st) if isinstance(n, ast.Name) and n.id == x and isinstance(n.ctx, ast.Load))

        def last_ok(st, x):
            """a simple statement whose only call is its value, the reads of x sitting in that call's own (call-free) arguments"""
            if isinstance(st, ast.Expr):
                v, rest = st.value, []
            elif isinstance(st, ast.Return) and st.value is not None:
                v, rest = st.value, []
            elif isinstance(st, ast.Assign):
                v, rest = st.value, st.targets
            else:
                return False
            if not isinstance(v, ast.Call) or any(count(t, x) or loud_calls(t) for t in rest):
                return False
            parts = [v.func] + list(v.args) + [k.value for k in v.keywords]
            return not any(loud_calls(p_) for p_ in parts)

        todo = []

        def blocks(stmts):
            for i, st in enumerate(stmts):
                for f_ in ('body', 'orelse', 'finalbody'):
                    v = getattr(st, f_, None)
                    if isinstance(v, list) and v and isinstance(v[0], ast.stmt):
                        blocks(v)
                if isinstance(st, ast.Try):
                    for h in st.handlers:
                        blocks(h.body)
                if not (isinstance(st, ast.Assign) and len(st.targets) == 1 and isinstance(st.targets[0], ast.Name)):
                    continue
                x = st.targets[0].id
                if stores.get(x) != 1 or x in params or not _chain(st.value) or not nloads.get(x):
                    continue
                attrs, e = set(), st.value
                while isinstance(e, ast.Attribute):
                    attrs.add(e.attr)
                    e = e.value
                root = e.id
                if root != 'self' and not (root in params and root not in stores):
                    continue
                # walk what follows the binding in evaluation order; `dirty` = something that might have re-bound the field may have run
                state = {'seen': 0, 'bad': False}

                def simple(nx, dirty):
                    k = count(nx, x)
                    t_ = touches(nx, attrs, root)
                    loud = bool(loud_calls(nx))
                    if k:
                        if dirty:
                            state['bad'] = True
                        elif (loud or t_) and not last_ok(nx, x):
                            state['bad'] = True          # the read may be evaluated after the call / store of the same statement
                        state['seen'] += k
                    return dirty or loud or t_

                def expr(e, dirty):
                    if e is None:
                        return dirty
                    k = count(e, x)
                    loud = bool(loud_calls(e))
                    if k:
                        if dirty or loud:
                            state['bad'] = True
                        state['seen'] += k
                    return dirty or loud

                def walk(body, dirty):
                    for nx in body:
                        if isinstance(nx, ast.If):
                            dirty = expr(nx.test, dirty)
                            d1 = walk(nx.body, dirty)
                            d2 = walk(nx.orelse, dirty)
                            dirty = d1 or d2
                        elif isinstance(nx, (ast.While, ast.For, ast.AsyncFor)):
                            inner = any(loud_calls(z) or touches(z, attrs, root) for z in [nx])
                            dirty = dirty or inner          # a later iteration runs after the calls of an earlier one
                            if isinstance(nx, ast.While):
                                expr(nx.test, dirty)
                            else:
                                expr(nx.iter, dirty)
                            walk(nx.body, dirty)
                            walk(nx.orelse, dirty)
                        elif isinstance(nx, ast.Try):
                            d1 = walk(nx.body, dirty)
                            dh = dirty or any(loud_calls(z) or touches(z, attrs, root) for z in nx.body)
                            d2 = d1
                            for h in nx.handlers:
                                d2 = walk(h.body, dh) or d2
                            d3 = walk(nx.orelse, d1)
                            dirty = walk(nx.finalbody, d2 or d3 or dh) if nx.finalbody else (d2 or d3)
                        elif isinstance(nx, (ast.With, ast.AsyncWith)):
                            for it in nx.items:
                                dirty = expr(it.context_expr, dirty)
                                if it.optional_vars is not None and touches(it.optional_vars, attrs, root):
                                    dirty = True
                            dirty = walk(nx.body, True if isinstance(nx, ast.AsyncWith) else dirty)
                        elif isinstance(nx, (ast.FunctionDef, ast.AsyncFunctionDef, ast.ClassDef)):
                            state['bad'] = True
                        else:
                            dirty = simple(nx, dirty)
                    return dirty
                walk(stmts[i + 1:], False)
                seen, ok = state['seen'], not state['bad']
                if ok and seen == nloads[x]:
                    todo.append(st)
        blocks(fn.body)
        if not todo:
            return
        subst = dict((d.targets[0].id, d) for d in todo)

        class T(ast.NodeTransformer):
            def visit_Name(self_, n):
                if isinstance(n.ctx, ast.Load) and n.id in subst:
                    return ast.copy_location(copy.deepcopy(subst[n.id].value), n)
                return n

            def visit_Assign(self_, n):
                if any(n is d for d in subst.values()):
                    return ast.copy_location(ast.Pass(), n)
                return self_.generic_visit(n)
        T().visit(fn)
        for _ in todo:
            self.hit('N48')
        self.ex.visit(fn)

    def coalesce_copies(self, fn):
        """N49  `y = x` (x, y locals) where y lives only in the statements that follow in the same block, x is not mentioned there, and x
        is dead afterwards (never read again before it is re-bound: decided by a backward liveness pass over the statement structure,
        exception edges into enclosing handlers included): y is x.  This is what is left when an extracted helper re-binds its
        parameter (`data = data[:i]`): the inliner has to give the helper its own copy of the caller's variable."""
        if any(isinstance(n, (ast.FunctionDef, ast.AsyncFunctionDef, ast.Lambda, ast.ClassDef, ast.Global, ast.Nonlocal)) for n in ast.walk(fn) if n is not fn):
            return
        if any(isinstance(n, ast.Call) and isinstance(n.func, ast.Name) and n.func.id in ('locals', 'vars', 'eval', 'exec') for n in ast.walk(fn)):
            return

        def occ(st, x, ctxs=(ast.Load, ast.Store, ast.Del)):
            return sum(1 for n in ast.walk(st) if (isinstance(n, ast.Name) and n.id == x and isinstance(n.ctx, ctxs)) or
                       (isinstance(n, ast.ExceptHandler) and n.name == x))

        def liveness(x):
            out_of, exc_of = {}, {}

            def uses(e):
                return e is not None and occ(e, x, (ast.Load,)) > 0

            def blk(stmts, out, ctx):
                live = out
                for st in reversed(stmts):
                    live = stmt(st, live, ctx)
                return live

            def stmt(st, out, ctx):
                out_of[id(st)] = out_of.get(id(st), False) or out
                exc_of[id(st)] = exc_of.get(id(st), False) or ctx['exc']
                if isinstance(st, ast.Return):
                    return uses(st.value) or (ctx['fin'])
                if isinstance(st, ast.Raise):
                    return uses(st) or ctx['exc'] or ctx['fin']
                if isinstance(st, ast.Break):
                    return ctx['brk']
                if isinstance(st, ast.Continue):
                    return ctx['cont']
                if isinstance(st, ast.If):
                    return uses(st.test) or blk(st.body, out, ctx) or blk(st.orelse, out, ctx) or ctx['exc']
                if isinstance(st, (ast.While, ast.For, ast.AsyncFor)):
                    head = False
                    is_for = not isinstance(st, ast.While)
                    kills = is_for and any(isinstance(n, ast.Name) and n.id == x for n in ast.walk(st.target))
                    for _ in range(3):
                        inner = dict(ctx, brk=out, cont=head)
                        b_in = blk(st.body, head, inner)
                        if kills:
                            b_in = False
                        after = blk(st.orelse, out, ctx)
                        head = (uses(st.test) if not is_for else False) or b_in or after or ctx['exc']
                    return head or (is_for and uses(st.iter))
                if isinstance(st, (ast.With, ast.AsyncWith)):
                    return any(uses(it.context_expr) for it in st.items) or blk(st.body, out, ctx) or ctx['exc']
                if isinstance(st, ast.Try):
                    fin_in = blk(st.finalbody, out or ctx['exc'] or ctx['fin'] or ctx['brk'] or ctx['cont'], ctx) if st.finalbody else out
                    h_in = False
                    for h in st.handlers:
                        h_in = h_in or (False if h.name == x else blk(h.body, fin_in, dict(ctx, fin=ctx['fin'] or (bool(st.finalbody) and fin_in))))
                    inner = dict(ctx, exc=h_in or ctx['exc'] or (bool(st.finalbody) and fin_in), fin=ctx['fin'] or (bool(st.finalbody) and fin_in))
                    return blk(st.body, blk(st.orelse, fin_in, inner), inner) or h_in
                # a simple statement
                if uses(st) or (isinstance(st, ast.AugAssign) and isinstance(st.target, ast.Name) and st.target.id == x):
                    return True
                if isinstance(st, ast.Assign) and any(isinstance(t, ast.Name) and t.id == x for t in st.targets):
                    return ctx['exc']
                return out or ctx['exc']
            blk(fn.body, False, dict(brk=False, cont=False, exc=False, fin=False))
            return out_of, exc_of

        done = [False]

        def blocks(stmts):
            for i, st in enumerate(stmts):
                for f_ in ('body', 'orelse', 'finalbody'):
                    v = getattr(st, f_, None)
                    if isinstance(v, list) and v and isinstance(v[0], ast.stmt):
                        blocks(v)
                        if done[0]:
                            return
                if isinstance(st, ast.Try):
                    for h in st.handlers:
                        blocks(h.body)
                        if done[0]:
                            return
                if not (isinstance(st, ast.Assign) and len(st.targets) == 1 and isinstance(st.targets[0], ast.Name) and isinstance(st.value, ast.Name)):
                    continue
                y, x = st.targets[0].id, st.value.id
                if x == y or x in ('self', 'None', 'True', 'False') or y in params:
                    continue
                # x must be a local (bound somewhere in the function or a parameter), not a global
                if x not in params and not occ(fn, x, (ast.Store,)):
                    continue
                total_y = occ(fn, y)
                j, seen = i, 1
                for k in range(i + 1, len(stmts)):
                    n_ = occ(stmts[k], y)
                    if n_:
                        j, seen = k, seen + n_
                if seen != total_y or j == i:
                    continue
                if any(occ(stmts[k], x) for k in range(i + 1, j + 1)):
                    continue
                out_of, exc_of = liveness(x)
                if out_of.get(id(stmts[j]), True) or exc_of.get(id(stmts[i]), True):
                    continue
                for k in range(i + 1, j + 1):
                    for n in ast.walk(stmts[k]):
                        if isinstance(n, ast.Name) and n.id == y:
                            n.id = x
                stmts[i] = ast.copy_location(ast.Pass(), st)
                self.hit('N49')
                done[0] = True
                return
        params = set(a.arg for a in fn.args.args + fn.args.kwonlyargs + fn.args.posonlyargs)
        if fn.args.vararg:
            params.add(fn.args.vararg.arg)
        if fn.args.kwarg:
            params.add(fn.args.kwarg.arg)
        for _ in range(6):
            done[0] = False
            blocks(fn.body)
            if not done[0]:
                break

    def split_webs(self, fn):
        """N34  a local that is bound several times to plain access paths (`stream = spawn._before` in one branch, `stream =
        spawn._buffer` in the other), where every read sees exactly one of the bindings, becomes one local per binding -- each of
        them is then a single-assignment alias the rules can look through.  Decided on the block structure: a read is covered
        by the nearest preceding binding in its own or an enclosing block; loops / try blocks that rebind the name, reads after
        a conditional rebinding, closures, augmented assignments, del, for/with/except targets make the name ineligible."""
        if any(isinstance(n, (ast.ClassDef, ast.Global, ast.Nonlocal)) for n in ast.walk(fn)):
            return
        if any(isinstance(n, (ast.FunctionDef, ast.AsyncFunctionDef)) for n in ast.walk(fn) if n is not fn):
            return
        if any(isinstance(n, ast.Call) and isinstance(n.func, ast.Name) and n.func.id in ('vars', 'eval', 'exec') for n in ast.walk(fn)):
            return
        params = set(a.arg for a in fn.args.args + fn.args.kwonlyargs + fn.args.posonlyargs)
        if fn.args.vararg:
            params.add(fn.args.vararg.arg)
        if fn.args.kwarg:
            params.add(fn.args.kwarg.arg)
        defs, bad = {}, set()
        # names that occur inside a comprehension / lambda have a scope of their own there: left alone
        for n in ast.walk(fn):
            if isinstance(n, (ast.Lambda, ast.ListComp, ast.SetComp, ast.DictComp, ast.GeneratorExp)):
                for x in ast.walk(n):
                    if isinstance(x, ast.Name):
                        bad.add(x.id)
        for n in ast.walk(fn):
            if isinstance(n, ast.Assign) and len(n.targets) == 1 and isinstance(n.targets[0], ast.Name):
                if (_chain(n.value) or getattr(n, '_inl', False) or (_pure(n.value) and not isinstance(n.value, (ast.Constant, ast.Name)))
                        or (isinstance(n.value, (ast.Constant, ast.Name)) and any(_pure(o.value) and isinstance(o.value, (ast.Subscript, ast.Attribute))
                                                                                   for o in ast.walk(fn) if isinstance(o, ast.Assign) and len(o.targets) == 1
                                                                                   and isinstance(o.targets[0], ast.Name) and o.targets[0].id == n.targets[0].id))) \
                        and not (isinstance(n.value, ast.Name) and n.value.id == n.targets[0].id) \
                        and not any(isinstance(x, ast.Name) and x.id == n.targets[0].id for x in ast.walk(n.value)):
                    defs.setdefault(n.targets[0].id, []).append(n)
                else:
                    bad.add(n.targets[0].id)
        store_count = {}
        for n in ast.walk(fn):
            if isinstance(n, ast.Name) and isinstance(n.ctx, (ast.Store, ast.Del)):
                store_count[n.id] = store_count.get(n.id, 0) + 1
            elif isinstance(n, ast.ExceptHandler) and n.name:
                bad.add(n.name)
        cands = [x for x, ds in defs.items() if len(ds) >= 2 and x not in bad and x not in params and store_count.get(x) == len(ds)]
        for x in cands:
            use = {}          # id(Name load) -> def statement
            ok = [True]
            AMB = object()

            def loads(e, cur):
                for n in ast.walk(e):
                    if isinstance(n, ast.Name) and n.id == x and isinstance(n.ctx, ast.Load):
                        if cur is None or cur is AMB:
                            ok[0] = False
                        else:
                            use[id(n)] = (n, cur)

            def has_def(stmts):
                return any(isinstance(n, ast.Name) and n.id == x and isinstance(n.ctx, ast.Store) for st in stmts for n in ast.walk(st))

            def walk(stmts, cur):
                for st in stmts:
                    if isinstance(st, ast.Assign) and any(st is d for d in defs[x]):
                        loads(st.value, cur)
                        cur = st
                    elif isinstance(st, ast.If):
                        loads(st.test, cur)
                        b, e = walk(st.body, cur), walk(st.orelse, cur)
                        if terminates(st.body) and not terminates(st.orelse):
                            cur = e
                        elif terminates(st.orelse) and st.orelse and not terminates(st.body):
                            cur = b
                        else:
                            cur = b if b is e else AMB
                    elif isinstance(st, (ast.While, ast.For, ast.AsyncFor)):
                        inner = has_def(st.body) or has_def(st.orelse)
                        loads(st.test if isinstance(st, ast.While) else st.iter, AMB if inner else cur)
                        walk(st.body, AMB if inner else cur)
                        walk(st.orelse, AMB if inner else cur)
                        cur = AMB if inner else cur
                    elif isinstance(st, ast.Try):
                        inner = has_def([st])
                        b = walk(st.body, cur)
                        for h in st.handlers:
                            walk(h.body, AMB if inner else cur)
                        walk(st.orelse, b)
                        walk(st.finalbody, AMB if inner else cur)
                        cur = AMB if inner else cur
                    elif isinstance(st, (ast.With, ast.AsyncWith)):
                        for it in st.items:
                            loads(it.context_expr, cur)
                        cur = walk(st.body, cur)
                    else:
                        loads(st, cur)
                return cur
            walk(fn.body, None)
            n_loads = sum(1 for n in ast.walk(fn) if isinstance(n, ast.Name) and n.id == x and isinstance(n.ctx, ast.Load))
            if not ok[0] or len(use) != n_loads:
                continue
            names = set(n.id for n in ast.walk(fn) if isinstance(n, ast.Name)) | params
            order = sorted(defs[x], key=lambda d: (d.lineno, d.col_offset))
            for k, d in enumerate(order):
                if k == 0:
                    continue
                nm = '%s__w%d' % (x, k + 1)
                while nm in names:
                    nm += '_'
                d.targets[0].id = nm
                for n, dd in use.values():
                    if dd is d:
                        n.id = nm
            self.hit('N34')

    def fold_sentinels(self, fn):
        """N42  `x is SENTINEL` where SENTINEL is a module-level `object()` of the package (the "argument not given" marker of a
        helper) and x is a local every binding of which is something else (an attribute, a call, a literal), or the other side is
        the very same name: the test has one outcome only.  Left when an inlined helper was called with / without the argument."""
        if not self.sentinels:
            return
        params = set(a.arg for a in fn.args.args + fn.args.kwonlyargs + fn.args.posonlyargs)
        binds = {}
        for n in ast.walk(fn):
            if isinstance(n, ast.Assign):
                for t in n.targets:
                    for x in ast.walk(t):
                        if isinstance(x, ast.Name) and isinstance(x.ctx, ast.Store):
                            binds.setdefault(x.id, []).append(n.value if (len(n.targets) == 1 and t is x) else None)
            elif isinstance(n, ast.Name) and isinstance(n.ctx, (ast.Store, ast.Del)):
                binds.setdefault(n.id, [])
        other_stores = {}
        for n in ast.walk(fn):
            if isinstance(n, ast.Name) and isinstance(n.ctx, (ast.Store, ast.Del)):
                other_stores[n.id] = other_stores.get(n.id, 0) + 1
        canon = self

        def foreign(e):
            if isinstance(e, ast.Call):
                # the result of a call is the marker only if the callee can hand it out: any package function that mentions a marker might
                f_ = e.func
                nm = f_.attr if isinstance(f_, ast.Attribute) else (f_.id if isinstance(f_, ast.Name) else None)
                if nm is None or nm in canon.sentinel_funcs or nm in binds or nm in params:
                    return False
                return not any(isinstance(x, ast.Name) and x.id in canon.sentinels for x in ast.walk(e))
            if isinstance(e, (ast.Constant, ast.Attribute, ast.BinOp, ast.Subscript, ast.JoinedStr, ast.Tuple, ast.List, ast.Dict)):
                if isinstance(e, ast.Subscript):
                    return False          # an element of a container: it may be the marker
                if isinstance(e, ast.Attribute):
                    # a stored value is the marker only if the package stores the marker into an attribute of that name somewhere
                    return e.attr not in canon.sentinel_attrs and not any(isinstance(x, ast.Name) and x.id in canon.sentinels for x in ast.walk(e))
                return not any(isinstance(x, ast.Name) and x.id in canon.sentinels for x in ast.walk(e))
            if isinstance(e, ast.Name) and e.id not in canon.sentinels and e.id not in params:
                vs = binds.get(e.id)
                return bool(vs) and len(vs) == other_stores.get(e.id) and all(v is not None and not isinstance(v, ast.Name) and foreign(v) for v in vs)
            return False

        class T(ast.NodeTransformer):
            def visit_Compare(self_, n):
                self_.generic_visit(n)
                if len(n.ops) == 1 and isinstance(n.ops[0], (ast.Is, ast.IsNot)):
                    a, b = n.left, n.comparators[0]
                    sa_, sb_ = isinstance(a, ast.Name) and a.id in canon.sentinels, isinstance(b, ast.Name) and b.id in canon.sentinels
                    val = None
                    if sa_ and sb_:
                        val = a.id == b.id
                    elif sa_ and foreign(b) or sb_ and foreign(a):
                        val = False
                    if val is not None:
                        canon.hit('N42')
                        return ast.copy_location(ast.Constant(value=(val if isinstance(n.ops[0], ast.Is) else not val)), n)
                return n
        T().visit(fn)

    def fold_frozen_dicts(self, fn):
        """N46  a local bound once to a dict literal with constant keys and call-free values, and afterwards only read (D[k], k in D,
        iteration, sorted(D), D.keys()): a lookup table.  `D[<constant>]` becomes the value, `D[x]` under a guarding `x == <constant>` too,
        `x in D` becomes `x in (k1, .., kn)`, `for x in D / sorted(D)` iterates the literal keys (and is then unrolled by N31).  This is
        how an if-chain that was turned into a table reads like the if-chain again."""
        if any(isinstance(n, (ast.Lambda, ast.ClassDef, ast.Global, ast.Nonlocal)) for n in ast.walk(fn)):
            return
        if any(isinstance(n, (ast.FunctionDef, ast.AsyncFunctionDef)) for n in ast.walk(fn) if n is not fn):
            return
        stores = {}
        for n in ast.walk(fn):
            if isinstance(n, ast.Name) and isinstance(n.ctx, (ast.Store, ast.Del)):
                stores[n.id] = stores.get(n.id, 0) + 1
        params = set(a.arg for a in fn.args.args + fn.args.kwonlyargs + fn.args.posonlyargs)
        tables = {}
        for n in ast.walk(fn):
            if isinstance(n, ast.Assign) and len(n.targets) == 1 and isinstance(n.targets[0], ast.Name) and isinstance(n.value, ast.Dict) \
                    and stores.get(n.targets[0].id) == 1 and n.targets[0].id not in params and 1 <= len(n.value.keys) <= 8 \
                    and all(isinstance(k, ast.Constant) and isinstance(k.value, (int, str, bytes)) for k in n.value.keys) \
                    and all(_pure(v) for v in n.value.values) and len(set(k.value for k in n.value.keys)) == len(n.value.keys) \
                    and not any(isinstance(p_, (ast.For, ast.While, ast.AsyncFor)) for p_ in _parents(fn, n)):
                tables[n.targets[0].id] = n
        # module-level lookup tables (bound once at module level to a dict literal of constants, only read anywhere in the module)
        for name, node in getattr(self, 'mod_tables', {}).items():
            if name not in stores and name not in params and name not in tables:
                tables[name] = node
        if not tables:
            return
        # every read of the table must be one of the understood forms
        par = {}
        for n in ast.walk(fn):
            for ch in ast.iter_child_nodes(n):
                par[id(ch)] = n
        for name in list(tables):
            d = tables[name]
            vnames = set(x.id for v in d.value.values for x in ast.walk(v) if isinstance(x, ast.Name))
            if any(stores.get(v, 0) > (0 if v in params else 1) for v in vnames):
                del tables[name]          # a value that is re-bound later would be read too late
                continue
            ok = True
            for n in ast.walk(fn):
                if isinstance(n, ast.Name) and n.id == name and isinstance(n.ctx, ast.Load):
                    p = par.get(id(n))
                    if isinstance(p, ast.Subscript) and p.value is n and isinstance(p.ctx, ast.Load):
                        continue
                    if isinstance(p, ast.Compare) and len(p.ops) == 1 and isinstance(p.ops[0], (ast.In, ast.NotIn)) and p.comparators[0] is n:
                        continue
                    if isinstance(p, (ast.For, ast.AsyncFor)) and p.iter is n:
                        continue
                    if isinstance(p, ast.Call) and isinstance(p.func, ast.Name) and p.func.id == 'sorted' and p.args == [n] and not p.keywords:
                        continue
                    if isinstance(p, ast.Attribute) and p.attr in ('keys', 'get') and isinstance(par.get(id(p)), ast.Call):
                        continue
                    ok = False
            if not ok:
                del tables[name]
        if not tables:
            return
        canon = self

        def keys_tuple(name, at, srt):
            ks = list(tables[name].value.keys)
            if srt:
                try:
                    ks = sorted(ks, key=lambda k: k.value)
                except TypeError:
                    return None
            return ast.copy_location(ast.Tuple(elts=[copy.deepcopy(k) for k in ks], ctx=ast.Load()), at)

        def lookup(name, key):
            for k, v in zip(tables[name].value.keys, tables[name].value.values):
                if type(k.value) is type(key) and k.value == key:
                    return copy.deepcopy(v)
            return None

        class T(ast.NodeTransformer):
            def __init__(self_):
                self_.known = {}

            def visit_Subscript(self_, n):
                self_.generic_visit(n)
                if isinstance(n.value, ast.Name) and n.value.id in tables and isinstance(n.ctx, ast.Load):
                    key = n.slice
                    if isinstance(key, ast.Name) and key.id in self_.known:
                        key = self_.known[key.id]
                    if isinstance(key, ast.Constant):
                        v = lookup(n.value.id, key.value)
                        if v is not None:
                            canon.hit('N46')
                            return ast.copy_location(v, n)
                return n

            def visit_Compare(self_, n):
                self_.generic_visit(n)
                if len(n.ops) == 1 and isinstance(n.ops[0], (ast.In, ast.NotIn)) and isinstance(n.comparators[0], ast.Name) and n.comparators[0].id in tables:
                    kt = keys_tuple(n.comparators[0].id, n, False)
                    canon.hit('N46')
                    return canon.ex.visit(ast.copy_location(ast.Compare(left=n.left, ops=n.ops, comparators=[kt]), n))
                return n

            def visit_Call(self_, n):
                self_.generic_visit(n)
                if isinstance(n.func, ast.Name) and n.func.id == 'sorted' and len(n.args) == 1 and not n.keywords and isinstance(n.args[0], ast.Name) and n.args[0].id in tables:
                    kt = keys_tuple(n.args[0].id, n, True)
                    if kt is not None:
                        canon.hit('N46')
                        return kt
                if isinstance(n.func, ast.Attribute) and n.func.attr == 'keys' and isinstance(n.func.value, ast.Name) and n.func.value.id in tables and not n.args:
                    canon.hit('N46')
                    return keys_tuple(n.func.value.id, n, False)
                if isinstance(n.func, ast.Attribute) and n.func.attr == 'get' and isinstance(n.func.value, ast.Name) and n.func.value.id in tables \
                        and 1 <= len(n.args) <= 2 and not n.keywords:
                    key = n.args[0]
                    if isinstance(key, ast.Name) and key.id in self_.known:
                        key = self_.known[key.id]
                    if isinstance(key, ast.Constant) and (len(n.args) == 1 or _pure(n.args[1])):
                        v = lookup(n.func.value.id, key.value)
                        canon.hit('N46')
                        if v is not None:
                            return ast.copy_location(v, n)
                        return n.args[1] if len(n.args) == 2 else ast.copy_location(ast.Constant(value=None), n)
                return n

            def visit_For(self_, n):
                if isinstance(n.iter, ast.Name) and n.iter.id in tables:
                    n.iter = keys_tuple(n.iter.id, n, False)
                    canon.hit('N46')
                return self_.generic_visit(n)

            def visit_If(self_, n):
                n.test = self_.visit(n.test)
                # `if x == <constant>` (also as a conjunct): x is that constant in the body, until x is bound again
                eqs = {}
                conj = n.test.values if isinstance(n.test, ast.BoolOp) and isinstance(n.test.op, ast.And) else [n.test]
                for c_ in conj:
                    if isinstance(c_, ast.Compare) and len(c_.ops) == 1 and isinstance(c_.ops[0], ast.Eq):
                        a, b = c_.left, c_.comparators[0]
                        if isinstance(a, ast.Name) and isinstance(b, ast.Constant):
                            eqs[a.id] = b
                        elif isinstance(b, ast.Name) and isinstance(a, ast.Constant):
                            eqs[b.id] = a
                saved = dict(self_.known)
                self_.known.update(eqs)
                nb = []
                for st in n.body:
                    nb.append(self_.visit(st))
                    for x in ast.walk(st):
                        if isinstance(x, ast.Name) and isinstance(x.ctx, (ast.Store, ast.Del)):
                            self_.known.pop(x.id, None)
                n.body = nb
                self_.known = dict(saved)
                n.orelse = [self_.visit(st) for st in n.orelse]
                self_.known = saved
                return n
        # x = D.get(<name>, <default>)   ->   if <name> == k1: x = v1 elif ... else: x = <default>
        def chains(stmts):
            out = []
            for st in stmts:
                for f_ in ('body', 'orelse', 'finalbody'):
                    v = getattr(st, f_, None)
                    if isinstance(v, list) and v and isinstance(v[0], ast.stmt) and not isinstance(st, (ast.FunctionDef, ast.AsyncFunctionDef, ast.ClassDef)):
                        setattr(st, f_, chains(v))
                if isinstance(st, ast.Try):
                    for h in st.handlers:
                        h.body = chains(h.body)
                k = st.value if isinstance(st, (ast.Assign, ast.Return)) else None
                if isinstance(k, ast.Call) and isinstance(k.func, ast.Attribute) and k.func.attr == 'get' and isinstance(k.func.value, ast.Name) \
                        and k.func.value.id in tables and 1 <= len(k.args) <= 2 and not k.keywords and isinstance(k.args[0], ast.Name) \
                        and (len(k.args) == 1 or _pure(k.args[1])) \
                        and not (isinstance(st, ast.Assign) and any(isinstance(x, ast.Name) and x.id == k.args[0].id for t_ in st.targets for x in ast.walk(t_))):
                    d = tables[k.func.value.id]
                    dflt = k.args[1] if len(k.args) == 2 else ast.copy_location(ast.Constant(value=None), k)

                    def mk(val):
                        n_ = copy.copy(st)
                        if isinstance(st, ast.Assign):
                            n_.targets = [copy.deepcopy(t_) for t_ in st.targets]
                        n_.value = copy.deepcopy(val)
                        return n_
                    chain = [mk(dflt)]
                    for kk, vv in reversed(list(zip(d.value.keys, d.value.values))):
                        test = ast.copy_location(ast.Compare(left=copy.deepcopy(k.args[0]), ops=[ast.Eq()], comparators=[copy.deepcopy(kk)]), st)
                        chain = [ast.copy_location(ast.If(test=test, body=[mk(vv)], orelse=chain), st)]
                    out.extend(chain)
                    canon.hit('N46')
                    continue
                out.append(st)
            return out
        fn.body = chains(fn.body)
        T().visit(fn)

    def method_aliases(self, fn):
        """N43  m = obj.attr.method  (bound once, not a parameter, every read of m is the function position of a call)   ->   the calls are
        written obj.attr.method(...).  A helper that is handed the bound method to call reads like this after inlining."""
        if any(isinstance(n, (ast.ClassDef, ast.Global, ast.Nonlocal)) for n in ast.walk(fn)):
            return
        inner = set(id(x) for d_ in ast.walk(fn) if d_ is not fn and isinstance(d_, (ast.FunctionDef, ast.AsyncFunctionDef, ast.Lambda)) for x in ast.walk(d_))
        params = set(a.arg for a in fn.args.args + fn.args.kwonlyargs + fn.args.posonlyargs)
        stores, defs = {}, {}
        for n in ast.walk(fn):
            if isinstance(n, ast.Name) and isinstance(n.ctx, (ast.Store, ast.Del)):
                stores[n.id] = stores.get(n.id, 0) + 1
            elif isinstance(n, ast.ExceptHandler) and n.name:
                stores[n.name] = stores.get(n.name, 0) + 2
        for n in ast.walk(fn):
            if isinstance(n, ast.Assign) and len(n.targets) == 1 and isinstance(n.targets[0], ast.Name) and stores.get(n.targets[0].id) == 1 \
                    and n.targets[0].id not in params and (_chain(n.value) or _super_attr(n.value)) \
                    and not any(isinstance(p_, (ast.For, ast.While, ast.AsyncFor)) for p_ in _parents(fn, n)):
                defs[n.targets[0].id] = n
        if not defs:
            return
        callpos = set(id(n.func) for n in ast.walk(fn) if isinstance(n, ast.Call))
        for x, d in list(defs.items()):
            loads = [n for n in ast.walk(fn) if isinstance(n, ast.Name) and n.id == x and isinstance(n.ctx, ast.Load)]
            if any(id(n) in inner for n in loads) or id(d) in inner:
                del defs[x]          # read from inside a closure: evaluated at another time
                continue
            root = d.value
            while isinstance(root, ast.Attribute):
                root = root.value
            if isinstance(root, ast.Call):
                root = ast.Name(id='self', ctx=ast.Load())          # super(C, self).method
            if not loads or not all(id(n) in callpos for n in loads) or stores.get(root.id, 0) > (0 if root.id in params or root.id == 'self' else 1):
                del defs[x]
                continue
            # the method found at the binding must be the one found at the call: the method name is never stored into as an attribute
            # anywhere in the package, and every field on the way to the receiver is one only constructors bind (a field that is re-bound
            # later -- `self._before = <fresh store>` -- may have been re-bound by any call made between the binding and the use)
            chain, e_ = [], d.value
            while isinstance(e_, ast.Attribute):
                chain.append(e_.attr)
                e_ = e_.value
            if '*' in self.stored_any or chain[0] in self.stored_any or any(a_ in self.stored_late for a_ in chain[1:]):
                del defs[x]
        if not defs:
            return

        class T(ast.NodeTransformer):
            def visit_Name(self_, n):
                if isinstance(n.ctx, ast.Load) and n.id in defs:
                    return copy.deepcopy(defs[n.id].value)
                return n

            def visit_Assign(self_, n):
                if any(n is d for d in defs.values()):
                    return ast.copy_location(ast.Pass(), n)
                return self_.generic_visit(n)
        T().visit(fn)
        self.hit('N43')

    def _module_tables(self, tree):
        cnt, val = {}, {}
        for st in tree.body:
            if isinstance(st, ast.Assign):
                for t in st.targets:
                    for x in ast.walk(t):
                        if isinstance(x, ast.Name):
                            cnt[x.id] = cnt.get(x.id, 0) + 1
                            val[x.id] = st if (len(st.targets) == 1 and t is x) else None
        out = {}
        for name, st in val.items():
            if st is None or cnt[name] != 1 or not isinstance(st.value, ast.Dict) or not (1 <= len(st.value.keys) <= 12):
                continue
            if not all(isinstance(k, ast.Constant) and isinstance(k.value, (int, str, bytes)) for k in st.value.keys):
                continue
            if not all(isinstance(v, ast.Constant) for v in st.value.values) or len(set(k.value for k in st.value.keys)) != len(st.value.keys):
                continue
            # bound nowhere else (no local of that name, no global statement, no mutation through a method or an item store)
            bad = False
            for n in ast.walk(tree):
                if isinstance(n, ast.Name) and n.id == name and isinstance(n.ctx, (ast.Store, ast.Del)) and n is not st.targets[0]:
                    bad = True
                if isinstance(n, ast.Global) and name in n.names:
                    bad = True
                if isinstance(n, ast.Subscript) and isinstance(n.ctx, (ast.Store, ast.Del)) and isinstance(n.value, ast.Name) and n.value.id == name:
                    bad = True
                if isinstance(n, ast.Call) and isinstance(n.func, ast.Attribute) and isinstance(n.func.value, ast.Name) and n.func.value.id == name \
                        and n.func.attr not in ('get', 'keys', 'items', 'values'):
                    bad = True
            if not bad:
                out[name] = st
        return out

    def _module_tuples(self, tree):
        """module-level names bound once to a tuple display of call-free elements (types, names, constants) and never re-bound"""
        cnt, val = {}, {}
        for st in tree.body:
            if isinstance(st, ast.Assign):
                for t in st.targets:
                    for x in ast.walk(t):
                        if isinstance(x, ast.Name):
                            cnt[x.id] = cnt.get(x.id, 0) + 1
                            val[x.id] = st if (len(st.targets) == 1 and t is x) else None
        out = {}
        for name, st in val.items():
            if st is None or cnt[name] != 1 or not isinstance(st.value, ast.Tuple) or not (1 <= len(st.value.elts) <= 24):
                continue
            if not all(_pure(e) and not isinstance(e, ast.Starred) for e in st.value.elts):
                continue
            if any((isinstance(n, ast.Name) and n.id == name and isinstance(n.ctx, (ast.Store, ast.Del)) and n is not st.targets[0]) or
                   (isinstance(n, ast.Global) and name in n.names) for n in ast.walk(tree)):
                continue
            out[name] = st.value
        return out

    KNOWN_GLOBALS = frozenset('''BEL BS CAN CR DEL ENQ ESC FF HT LF NUL PEXPECT_CONTINUATION_PROMPT PEXPECT_PROMPT PY3 SI SO SPACE SUB VT XOFF XON
                                  __all__ __revision__ __version__ text_type'''.split())

    def _module_constants(self, tree):
        """N47  a NEW module-level name (not one of the 25 the package binds at module level at the pinned snapshot) bound once to a literal
        number / string / None and never re-bound: a named constant for what used to be a magic number.  It is read as the literal."""
        cnt, val = {}, {}
        for st in tree.body:
            if isinstance(st, ast.Assign):
                for t in st.targets:
                    for x in ast.walk(t):
                        if isinstance(x, ast.Name):
                            cnt[x.id] = cnt.get(x.id, 0) + 1
                            val[x.id] = st if (len(st.targets) == 1 and t is x) else None
        out = {}
        for name, st in val.items():
            if st is None or cnt[name] != 1 or name in self.KNOWN_GLOBALS or not isinstance(st.value, ast.Constant):
                v = st.value if st is not None else None
                # chr(29) and the like: a call of a pure builtin on literals
                def flagexpr(e):
                    # re.IGNORECASE | re.DOTALL, errno.EIO, select.POLLIN | select.POLLPRI: operators over upper-case constants of standard modules and literals
                    if isinstance(e, ast.Constant):
                        return True
                    if isinstance(e, ast.Attribute) and isinstance(e.value, ast.Name) and e.value.id in ('re', 'select', 'signal', 'errno', 'socket', 'termios', 'tty', 'stat', 'os') \
                            and e.attr.isupper() and e.value.id not in cnt:
                        return True
                    if isinstance(e, ast.BinOp) and isinstance(e.op, (ast.BitOr, ast.BitAnd, ast.BitXor, ast.Add, ast.Sub)):
                        return flagexpr(e.left) and flagexpr(e.right)
                    if isinstance(e, ast.UnaryOp) and isinstance(e.op, (ast.Invert, ast.USub)):
                        return flagexpr(e.operand)
                    return False
                if st is not None and cnt[name] == 1 and name not in self.KNOWN_GLOBALS and isinstance(v, (ast.BinOp, ast.UnaryOp, ast.Attribute)) and flagexpr(v):
                    pass
                elif not (st is not None and cnt[name] == 1 and name not in self.KNOWN_GLOBALS and isinstance(v, ast.Call) and isinstance(v.func, ast.Name)
                          and v.func.id in ('chr', 'ord', 'int', 'float', 'str') and v.args and all(isinstance(a, ast.Constant) for a in v.args) and not v.keywords):
                    continue
            if any((isinstance(n, ast.Name) and n.id == name and isinstance(n.ctx, (ast.Store, ast.Del)) and n is not st.targets[0]) or
                   (isinstance(n, ast.Global) and name in n.names) or
                   (isinstance(n, ast.arg) and n.arg == name) for n in ast.walk(tree)):
                continue
            out[name] = st.value
        return out

    def module(self, tree):
        mc = self._module_constants(tree)
        if mc:
            class _MC(ast.NodeTransformer):
                def visit_Name(self_, n):
                    if isinstance(n.ctx, ast.Load) and n.id in mc:
                        return ast.copy_location(copy.deepcopy(mc[n.id]), n)
                    return n
            for fn in [x for x in ast.walk(tree) if isinstance(x, (ast.FunctionDef, ast.AsyncFunctionDef))]:
                # the body only (a default value `escape_character=_ESC` is part of the signature, which the rules read by name / position)
                fn.body = [_MC().visit(st) for st in fn.body]
                fn.args.defaults = [_MC().visit(d) for d in fn.args.defaults]
            self.hit('N47')
        # class-level named constants (NEW names only): `self._NO_LIMIT = 1e6` in the class body, read as self._NO_LIMIT / Class._NO_LIMIT
        for cls in [x for x in tree.body if isinstance(x, ast.ClassDef)]:
            cc = {}
            for st in cls.body:
                if isinstance(st, ast.Assign) and len(st.targets) == 1 and isinstance(st.targets[0], ast.Name) and isinstance(st.value, ast.Constant) \
                        and st.value.value is not None and not isinstance(st.value.value, bool):
                    nm = st.targets[0].id
                    if nm not in KNOWN_FIELDS and nm not in ('_read_reached_eof', 'buffer', 'encoding', 'flag_eof', 'pid', 'transport', 'use_native_pty_fork'):
                        cc[nm] = st.value
            for nm in list(cc):
                # never stored as an attribute anywhere in the module, bound once in the class body
                if any(isinstance(n, ast.Attribute) and n.attr == nm and isinstance(n.ctx, (ast.Store, ast.Del)) for n in ast.walk(tree)) or \
                        sum(1 for st in cls.body for x in ast.walk(st) if isinstance(x, ast.Name) and x.id == nm and isinstance(x.ctx, ast.Store)
                            and not isinstance(st, (ast.FunctionDef, ast.AsyncFunctionDef))) != 1:
                    del cc[nm]
            if cc:
                class _CC(ast.NodeTransformer):
                    def visit_Attribute(self_, n):
                        self_.generic_visit(n)
                        if isinstance(n.ctx, ast.Load) and n.attr in cc and isinstance(n.value, ast.Name) and n.value.id in ('self', cls.name):
                            return ast.copy_location(copy.deepcopy(cc[n.attr]), n)
                        return n
                for fn in [x for x in cls.body if isinstance(x, (ast.FunctionDef, ast.AsyncFunctionDef))]:
                    fn.body = [_CC().visit(st) for st in fn.body]
                self.hit('N47')
        self.mod_tuples = self._module_tuples(tree)
        if self.mod_tuples:
            mt = self.mod_tuples

            class _MT(ast.NodeTransformer):
                # isinstance(x, NAME) / x in NAME / for .. in NAME with NAME a module-level tuple constant: the tuple is written out
                def visit_Call(self_, n):
                    self_.generic_visit(n)
                    if isinstance(n.func, ast.Name) and n.func.id == 'isinstance' and len(n.args) == 2 and isinstance(n.args[1], ast.Name) and n.args[1].id in mt:
                        n.args[1] = copy.deepcopy(mt[n.args[1].id])
                    return n

                def visit_Compare(self_, n):
                    self_.generic_visit(n)
                    if len(n.ops) == 1 and isinstance(n.ops[0], (ast.In, ast.NotIn)) and isinstance(n.comparators[0], ast.Name) and n.comparators[0].id in mt:
                        n.comparators[0] = copy.deepcopy(mt[n.comparators[0].id])
                    return n

                def visit_For(self_, n):
                    self_.generic_visit(n)
                    if isinstance(n.iter, ast.Name) and n.iter.id in mt:
                        n.iter = copy.deepcopy(mt[n.iter.id])
                    return n

                def visit_ListComp(self_, n):
                    # N31c  `[E(x) for x in NAMES]` over a module-level tuple of constants is the display `[E('a'), E('b'), ...]`
                    self_.generic_visit(n)
                    g_ = n.generators[0]
                    if len(n.generators) == 1 and not g_.ifs and not g_.is_async and isinstance(g_.iter, ast.Name) and g_.iter.id in mt \
                            and isinstance(g_.target, ast.Name) and all(isinstance(e_, ast.Constant) for e_ in mt[g_.iter.id].elts) \
                            and not any(isinstance(x_, (ast.Lambda, ast.ListComp, ast.SetComp, ast.DictComp, ast.GeneratorExp, ast.NamedExpr)) for x_ in ast.walk(n.elt)):
                        tv = g_.target.id
                        elts = []
                        for e_ in mt[g_.iter.id].elts:
                            class _S(ast.NodeTransformer):
                                def visit_Name(s_, x):
                                    if x.id == tv and isinstance(x.ctx, ast.Load):
                                        return ast.copy_location(ast.Constant(value=e_.value), x)
                                    return x
                            elts.append(_S().visit(copy.deepcopy(n.elt)))
                        self.hit('N31')
                        return ast.copy_location(ast.List(elts=elts, ctx=ast.Load()), n)
                    return n
            # (not inside functions that bind a local of the same name)
            for fn in ast.walk(tree):
                if isinstance(fn, (ast.FunctionDef, ast.AsyncFunctionDef)):
                    local = set(x.id for x in ast.walk(fn) if isinstance(x, ast.Name) and isinstance(x.ctx, ast.Store)) | set(a.arg for a in fn.args.args)
                    if not (local & set(mt)):
                        _MT().visit(fn)
        tree = self.ex.visit(tree)
        unshare(tree)
        self.mod_tables = self._module_tables(tree)
        for fn in ast.walk(tree):
            if isinstance(fn, (ast.FunctionDef, ast.AsyncFunctionDef)):
                for _ in range(4):
                    if not self.unroll_collect(fn):
                        break
                self.method_aliases(fn)
                self.fold_frozen_dicts(fn)
                self.fold_sentinels(fn)
                self.split_webs(fn)
                self.propagate(fn)
                self.alias_fields(fn)
                self.coalesce_copies(fn)
        tree.body = self.block(tree.body)
        n39 = 0
        if True:
            for fn in ast.walk(tree):
                if isinstance(fn, (ast.FunctionDef, ast.AsyncFunctionDef)):
                    n39 += self.dead_stores(fn)
        if n39:
            self.count['N39'] = self.count.get('N39', 0) + n39
            tree.body = self.block(tree.body)
        unshare(tree)
        ast.fix_missing_locations(tree)
        return tree

    def expand(self, body):
        """statement-level rewrites that create structure (run before the children are visited)"""
        out = []
        for s in body:
            # N13b  if x is None: x = None ; ...   -> the re-binding of x to the value the test just established is dropped
            if isinstance(s, ast.If):
                t_ = s.test
                neg_ = False
                while isinstance(t_, ast.UnaryOp) and isinstance(t_.op, ast.Not):
                    t_, neg_ = t_.operand, not neg_
                if isinstance(t_, ast.Compare) and len(t_.ops) == 1 and isinstance(t_.ops[0], (ast.Is, ast.IsNot)) and isinstance(t_.left, ast.Name) \
                        and isinstance(t_.comparators[0], ast.Constant) and t_.comparators[0].value is None:
                    none_arm = s.body if (isinstance(t_.ops[0], ast.Is) != neg_) else s.orelse
                    if none_arm and isinstance(none_arm[0], ast.Assign) and len(none_arm[0].targets) == 1 and isinstance(none_arm[0].targets[0], ast.Name) \
                            and none_arm[0].targets[0].id == t_.left.id and isinstance(none_arm[0].value, ast.Constant) and none_arm[0].value.value is None:
                        rest_ = none_arm[1:] or [ast.copy_location(ast.Pass(), s)]
                        if none_arm is s.body:
                            s.body = rest_
                        else:
                            s.orelse = [] if (len(rest_) == 1 and isinstance(rest_[0], ast.Pass)) else rest_
                        self.hit('N13')
            # N32b  x = getattr(obj, '<name>', <default>)   ->   if hasattr(obj, '<name>'): x = obj.<name>  else: x = <default>
            if isinstance(s, (ast.Assign, ast.Return)) and isinstance(s.value, ast.Call) and isinstance(s.value.func, ast.Name) and s.value.func.id == 'getattr' \
                    and len(s.value.args) == 3 and not s.value.keywords and isinstance(s.value.args[1], ast.Constant) and isinstance(s.value.args[1].value, str) \
                    and s.value.args[1].value.isidentifier() and not s.value.args[1].value.startswith('__') and _pure(s.value.args[0]) and _pure(s.value.args[2]):
                k = s.value
                a, b = copy_stmt(s), copy_stmt(s)
                if isinstance(s, ast.Assign):
                    b.targets = [copy.deepcopy(t) for t in s.targets]
                a.value = ast.copy_location(ast.Attribute(value=k.args[0], attr=k.args[1].value, ctx=ast.Load()), k)
                b.value = k.args[2]
                test = ast.copy_location(ast.Call(func=ast.copy_location(ast.Name(id='hasattr', ctx=ast.Load()), k), args=[copy.deepcopy(k.args[0]), k.args[1]], keywords=[]), k)
                out.extend(self.expand([ast.copy_location(ast.If(test=test, body=[a], orelse=[b]), s)]))
                self.hit('N32')
                continue
            # N17 conditional expression as the whole value of a statement -> if / else
            if isinstance(s, (ast.Assign, ast.AugAssign, ast.Return)) and isinstance(s.value, ast.IfExp):
                a, b = copy_stmt(s), copy_stmt(s)
                a.value, b.value = s.value.body, s.value.orelse
                out.extend(self.expand([ast.copy_location(ast.If(test=s.value.test, body=[a], orelse=[b]), s)]))
                self.hit('N17')
                continue
            # N17c  x = {k1: v1, k2: (A if c else B)} / [.., (A if c else B), ..]  ->  if c: x = {.., k2: A} else: x = {.., k2: B}
            #       (one conditional entry; what is evaluated before the condition is call-free, and so is the condition)
            if isinstance(s, (ast.Assign, ast.Return)) and isinstance(s.value, (ast.Dict, ast.List, ast.Tuple)):
                disp = s.value
                seq = list(disp.values) if isinstance(disp, ast.Dict) else list(disp.elts)
                idx = [i for i, e_ in enumerate(seq) if isinstance(e_, ast.IfExp)]
                keys_ok = not isinstance(disp, ast.Dict) or all(k_ is not None and _pure(k_) for k_ in disp.keys)
                if len(idx) == 1 and keys_ok and all(_pure(e_) for e_ in seq[:idx[0]]) and _pure(seq[idx[0]].test) \
                        and (not isinstance(s, ast.Assign) or all(_pure(t_) for t_ in s.targets)):
                    ie = seq[idx[0]]

                    def variant(val):
                        ns = copy.deepcopy(s)
                        d2 = ns.value
                        if isinstance(d2, ast.Dict):
                            d2.values[idx[0]] = copy.deepcopy(val)
                        else:
                            d2.elts[idx[0]] = copy.deepcopy(val)
                        return ns
                    out.extend(self.expand([ast.copy_location(ast.If(test=copy.deepcopy(ie.test), body=[variant(ie.body)], orelse=[variant(ie.orelse)]), s)]))
                    self.hit('N17')
                    continue
            if isinstance(s, ast.Expr) and isinstance(s.value, ast.Call) and _pure(s.value.func) and not s.value.keywords:
                k = s.value
                idx = [i for i, a_ in enumerate(k.args) if isinstance(a_, ast.IfExp)]
                if len(idx) == 1 and all(_pure(a_) for a_ in k.args[:idx[0]]):
                    ie = k.args[idx[0]]
                    ca = ast.copy_location(ast.Expr(value=ast.Call(func=k.func, args=k.args[:idx[0]] + [ie.body] + k.args[idx[0] + 1:], keywords=[])), s)
                    cb = ast.copy_location(ast.Expr(value=ast.Call(func=copy.deepcopy(k.func), args=[copy.deepcopy(a_) for a_ in k.args[:idx[0]]] + [ie.orelse] + [copy.deepcopy(a_) for a_ in k.args[idx[0] + 1:]], keywords=[])), s)
                    out.extend(self.expand([ast.copy_location(ast.If(test=ie.test, body=[ca], orelse=[cb]), s)]))
                    self.hit('N17')
                    continue
            # N23 return <not / comparison / and-or of those>  ->  if <expr>: return True ; return False
            if isinstance(s, ast.Return) and s.value is not None and _boolean(s.value) and not isinstance(s.value, ast.Constant):
                t = ast.copy_location(ast.Return(value=ast.copy_location(ast.Constant(value=True), s)), s)
                f_ = ast.copy_location(ast.Return(value=ast.copy_location(ast.Constant(value=False), s)), s)
                out.extend(self.expand([ast.copy_location(ast.If(test=s.value, body=[t], orelse=[f_]), s)]))
                self.hit('N23')
                continue
            # N13 x = x
            if isinstance(s, ast.Assign) and len(s.targets) == 1 and isinstance(s.targets[0], ast.Name) and isinstance(s.value, ast.Name) \
                    and s.targets[0].id == s.value.id:
                out.append(ast.copy_location(ast.Pass(), s))
                continue
            # N18 x op= e -> x = x op e   (names only; not for list/dict/set displays, where += extends the object in place)
            if isinstance(s, ast.AugAssign) and isinstance(s.target, ast.Name) and \
                    not isinstance(s.value, (ast.List, ast.Dict, ast.Set, ast.ListComp, ast.DictComp, ast.SetComp)):
                out.append(ast.copy_location(ast.Assign(targets=[ast.Name(id=s.target.id, ctx=ast.Store())],
                                                        value=ast.BinOp(left=ast.Name(id=s.target.id, ctx=ast.Load()), op=s.op, right=s.value)), s))
                self.hit('N18')
                continue
            # N19 a, b = X, Y  with independent sides -> a = X ; b = Y
            if isinstance(s, ast.Assign) and len(s.targets) == 1 and isinstance(s.targets[0], ast.Tuple) and isinstance(s.value, ast.Tuple) \
                    and len(s.targets[0].elts) == len(s.value.elts) and all(isinstance(t, (ast.Name, ast.Attribute)) for t in s.targets[0].elts):
                # `x, y = x, E`: the identity pair x = x binds nothing new and is dropped (the other values still read the old x)
                keep = [(t, v) for t, v in zip(s.targets[0].elts, s.value.elts) if not (isinstance(t, ast.Name) and isinstance(v, ast.Name) and t.id == v.id)]
                if len(keep) != len(s.value.elts) and keep:
                    if len(keep) == 1:
                        out.extend(self.expand([ast.copy_location(ast.Assign(targets=[keep[0][0]], value=keep[0][1]), s)]))
                    else:
                        out.extend(self.expand([ast.copy_location(ast.Assign(targets=[ast.Tuple(elts=[k[0] for k in keep], ctx=ast.Store())],
                                                                             value=ast.Tuple(elts=[k[1] for k in keep], ctx=ast.Load())), s)]))
                    self.hit('N19')
                    continue
                tnames = [ast.unparse(t) for t in s.targets[0].elts]
                # with plain names on the left, evaluating X, binding a, evaluating Y, binding b is the same as evaluating both first
                # (no value reads an earlier target: checked below); attribute targets need call-free values (a setter could run in between)
                indep = all(isinstance(t, ast.Name) for t in s.targets[0].elts) or all(_pure(v) or i == 0 for i, v in enumerate(s.value.elts))
                for i, v in enumerate(s.value.elts):
                    reads = set(ast.unparse(x) for x in ast.walk(v) if isinstance(x, (ast.Name, ast.Attribute)))
                    if any(t in reads or any(r.startswith(t + '.') for r in reads) for t in tnames[:i]):
                        indep = False
                if indep:
                    for t, v in zip(s.targets[0].elts, s.value.elts):
                        t2 = copy.deepcopy(t)
                        out.extend(self.expand([ast.copy_location(ast.Assign(targets=[t2], value=v), s)]))
                    self.hit('N19')
                    continue
            # N20 except (A, B): X  ->  except A: X  except B: X
            if isinstance(s, ast.Try):
                hs = []
                for h in s.handlers:
                    if isinstance(h.type, ast.Tuple) and h.type.elts:
                        for e in h.type.elts:
                            hs.append(ast.copy_location(ast.ExceptHandler(type=e, name=h.name, body=copy.deepcopy(h.body)), h))
                        self.hit('N20')
                    else:
                        hs.append(h)
                s.handlers = hs
            # N21 while C: B  ->  while True: if not C: break ; B      (one shape for loop conditions and in-loop exits)
            if isinstance(s, ast.While) and not s.orelse and not (isinstance(s.test, ast.Constant) and s.test.value in (True, 1)):
                brk = ast.copy_location(ast.If(test=negate(s.test), body=[ast.copy_location(ast.Break(), s)], orelse=[]), s)
                s = ast.copy_location(ast.While(test=ast.copy_location(ast.Constant(value=True), s), body=[brk] + s.body, orelse=[]), s)
                self.hit('N21')
            # N31 for x in (<2..6 literal, call-free elements>): B   ->   B[x:=e1] ; B[x:=e2] ; ...   (B does not assign x, no break / continue / else)
            #     also `for a, b in ((a1, b1), (a2, b2))`, and a sequence given by a local that is bound once to such a literal (or a `+` of them)
            if isinstance(s, ast.For) and not s.orelse:
                elts = self._seq_literal(s.iter)
                tnames = [s.target.id] if isinstance(s.target, ast.Name) else \
                    ([t.id for t in s.target.elts] if isinstance(s.target, ast.Tuple) and all(isinstance(t, ast.Name) for t in s.target.elts) else None)
                if elts is not None and tnames and (1 <= len(elts) <= 6 or (len(elts) <= 24 and len(s.body) <= 3 and _size(s.body) <= 60)) and (isinstance(s.target, ast.Name) or
                                                                           all(isinstance(e, (ast.Tuple, ast.List)) and len(e.elts) == len(tnames) for e in elts)) \
                        and (len(elts) >= 2 or not isinstance(s.iter, (ast.Tuple, ast.List)) or isinstance(s.target, ast.Tuple)) \
                        and self._continues_ok(s.body) \
                        and not any(isinstance(x, (ast.Break, ast.FunctionDef, ast.AsyncFunctionDef, ast.Lambda)) for b in s.body for x in ast.walk(b)) \
                        and not any(isinstance(x, ast.Name) and x.id in tnames and isinstance(x.ctx, (ast.Store, ast.Del)) for b in s.body for x in ast.walk(b)):
                    class _S(ast.NodeTransformer):
                        def __init__(self, m):
                            self.m = m

                        def visit_Name(self, n):
                            if n.id in self.m and isinstance(n.ctx, ast.Load):
                                return copy.deepcopy(self.m[n.id])
                            return n
                    unrolled = []
                    has_cont = any(isinstance(x, ast.Continue) for b in s.body for x in ast.walk(b))
                    for e in elts:
                        m = {tnames[0]: e} if isinstance(s.target, ast.Name) else dict(zip(tnames, e.elts))
                        one = [self.ex.visit(_S(m).visit(copy.deepcopy(b))) for b in s.body]
                        if has_cont:
                            one = self._drop_continues(one)          # `continue` = skip the rest of THIS copy
                        unrolled.extend(one)
                    out.extend(self.expand(unrolled))
                    self.hit('N31')
                    continue
            # N36 x = min(x, E) / x = min(E, x)  ->  if E < x: x = E      (max: if x < E: x = E);  E call-free apart from len()
            if isinstance(s, ast.Assign) and len(s.targets) == 1 and isinstance(s.targets[0], ast.Name) and isinstance(s.value, ast.Call) \
                    and isinstance(s.value.func, ast.Name) and s.value.func.id in ('min', 'max') and len(s.value.args) == 2 and not s.value.keywords:
                x = s.targets[0].id
                a0, a1 = s.value.args
                oth = a1 if (isinstance(a0, ast.Name) and a0.id == x) else (a0 if (isinstance(a1, ast.Name) and a1.id == x) else None)

                def _calm(e):
                    return all(not isinstance(n, (ast.Call, ast.Await, ast.Yield, ast.NamedExpr)) or
                               (isinstance(n, ast.Call) and isinstance(n.func, ast.Name) and n.func.id == 'len') for n in ast.walk(e))
                if oth is not None and _calm(oth) and not any(isinstance(n, ast.Name) and n.id == x for n in ast.walk(oth)):
                    xl = ast.copy_location(ast.Name(id=x, ctx=ast.Load()), s)
                    if s.value.func.id == 'min':
                        test = ast.Compare(left=copy.deepcopy(oth), ops=[ast.Lt()], comparators=[xl])
                    else:
                        test = ast.Compare(left=xl, ops=[ast.Lt()], comparators=[copy.deepcopy(oth)])
                    asg = ast.copy_location(ast.Assign(targets=[ast.copy_location(ast.Name(id=x, ctx=ast.Store()), s)], value=copy.deepcopy(oth)), s)
                    out.append(self.ex.visit(ast.copy_location(ast.If(test=ast.copy_location(test, s), body=[asg], orelse=[]), s)))
                    self.hit('N36')
                    continue
            # N12 if A or B: <single jump>  ->  if A: <jump> ; if B: <jump>
            if isinstance(s, ast.If) and not s.orelse and isinstance(s.test, ast.BoolOp) and isinstance(s.test.op, ast.Or) and _single_jump(s):
                for v in s.test.values:
                    out.extend(self.expand([ast.copy_location(ast.If(test=v, body=[copy.deepcopy(s.body[0])], orelse=[]), s)]))
                self.hit('N12')
                continue
            # N12b  if x == c1 or x == c2 or ...: <block that reads TABLE[x] and ends in raise / return>   ->   one `if x == ci:` per constant
            #       (the table lookup is then decided by N46)
            if isinstance(s, ast.If) and not s.orelse and isinstance(s.test, ast.BoolOp) and isinstance(s.test.op, ast.Or) \
                    and len(s.test.values) <= 8 and _size(s.body) <= 40:
                vs = s.test.values
                names = set()
                for v in vs:
                    if isinstance(v, ast.Compare) and len(v.ops) == 1 and isinstance(v.ops[0], ast.Eq):
                        a_, b_ = v.left, v.comparators[0]
                        if isinstance(a_, ast.Constant) and isinstance(b_, ast.Name):
                            names.add(b_.id)
                            continue
                        if isinstance(b_, ast.Constant) and isinstance(a_, ast.Name):
                            names.add(a_.id)
                            continue
                    names.add(None)
                if len(names) == 1 and None not in names:
                    x = list(names)[0]
                    if any(isinstance(n, ast.Subscript) and isinstance(n.slice, ast.Name) and n.slice.id == x and isinstance(n.value, ast.Name) for b in s.body for n in ast.walk(b)):
                        if terminates(s.body):
                            for v in vs:
                                out.append(ast.copy_location(ast.If(test=v, body=[copy.deepcopy(b) for b in s.body], orelse=[]), s))
                        else:
                            # an if / elif chain: exactly one copy of the block runs, as before
                            chain = []
                            for v in reversed(vs):
                                chain = [ast.copy_location(ast.If(test=v, body=[copy.deepcopy(b) for b in s.body], orelse=chain), s)]
                            out.extend(chain)
                        self.hit('N12')
                        continue
            out.append(s)
        return out

    def block(self, body):
        body = self.expand(body)
        for s in body:
            isfn = isinstance(s, (ast.FunctionDef, ast.AsyncFunctionDef))
            if isfn:
                self.fns.append(s)
            for f in ('body', 'orelse', 'finalbody'):
                v = getattr(s, f, None)
                if isinstance(v, list) and v and isinstance(v[0], ast.stmt):
                    setattr(s, f, self.block(v))
            if isfn:
                self.fns.pop()
            if isinstance(s, ast.Try):
                for h in s.handlers:
                    h.body = self.block(h.body)
        if self.fns:
            body = self.thread(body)
        body = self.tidy(body, True)
        n25 = self.count.get('N25', 0)
        # right to left, so that what follows an `if` is already in canonical form when the `if` is looked at
        out = []
        for s in reversed(body):
            if isinstance(s, ast.If):
                out = self.norm_if(s, out)
            else:
                out = [s] + out
        out = self.tidy(out, False)
        if self.count.get('N25', 0) != n25:
            return self.block(out)          # an if/else collapsed into an assignment: it may now fold into the test that follows
        return out

    def _ret_into(self, stmts, name):
        """N30 helper: can the trailing `return <name>` be moved into this block (its last statement assigns name)?  Returns the new
        block or None."""
        if not stmts:
            return None
        last = stmts[-1]
        if isinstance(last, ast.Assign) and len(last.targets) == 1 and isinstance(last.targets[0], ast.Name) and last.targets[0].id == name:
            return stmts[:-1] + [ast.copy_location(ast.Return(value=last.value), last)]
        if isinstance(last, (ast.Return, ast.Raise)):
            return list(stmts)          # this branch never reaches the trailing return
        if isinstance(last, ast.If) and last.orelse:
            b, e = self._ret_into(last.body, name), self._ret_into(last.orelse, name)
            if b is not None and e is not None:
                return stmts[:-1] + [ast.copy_location(ast.If(test=last.test, body=b, orelse=e), last)]
        if isinstance(last, ast.Try) and not last.finalbody and not last.orelse:
            b = self._ret_into(last.body, name)
            hs = [self._ret_into(h.body, name) for h in last.handlers]
            if b is not None and all(h is not None for h in hs):
                nh = [ast.copy_location(ast.ExceptHandler(type=h.type, name=h.name, body=hb), h) for h, hb in zip(last.handlers, hs)]
                return stmts[:-1] + [ast.copy_location(ast.Try(body=b, handlers=nh, orelse=[], finalbody=[]), last)]
        return None

    def tidy(self, out, first=True):
        # N28 / N29  try ... except <handlers that all leave> ... else: B   ->   the try without else, then B
        res = []
        for i_, s in enumerate(out):
            if isinstance(s, ast.Try) and s.orelse and not s.finalbody:
                at_end = i_ == len(out) - 1 and self.fns and any(s is x for x in self.fns[-1].body)
                if at_end:
                    for h in s.handlers:          # falling out of a handler of the function's last statement returns None
                        if not terminates(h.body):
                            h.body = list(h.body) + [ast.copy_location(ast.Return(value=None), s)]
                            self.hit('N29')
                if all(terminates(h.body) for h in s.handlers):
                    tail_ = s.orelse
                    s.orelse = []
                    res.append(s)
                    res.extend(tail_)
                    self.hit('N28')
                    continue
            res.append(s)
        out = res
        # N30  <if/else or try/except whose every branch ends in `x = E`> ; return x   ->   the branches return E themselves
        if first and len(out) >= 2 and isinstance(out[-1], ast.Return) and isinstance(out[-1].value, ast.Name) and self.fns:
            x = out[-1].value.id
            if isinstance(out[-2], (ast.If, ast.Try)):
                nb = self._ret_into([out[-2]], x)
                if nb is not None and isinstance(out[-2], ast.Try) or (nb is not None and isinstance(out[-2], ast.If)):
                    out = out[:-2] + nb
                    self.hit('N30')
        # N10
        res = []
        for s in out:
            if res and self.fns and isinstance(res[-1], ast.Assign) and len(res[-1].targets) == 1 and isinstance(res[-1].targets[0], ast.Name) \
                    and _chain(res[-1].value) and isinstance(s, (ast.Expr, ast.Assign, ast.AugAssign, ast.Return)) and isinstance(s.value, ast.Call) \
                    and isinstance(s.value.func, ast.Attribute) and isinstance(s.value.func.value, ast.Name) and s.value.func.value.id == res[-1].targets[0].id:
                t = res[-1].targets[0].id
                uses = [n for n in ast.walk(self.fns[-1]) if isinstance(n, ast.Name) and n.id == t]
                if len(uses) == 2:
                    a = res.pop()
                    s.value.func.value = a.value
                    self.hit('N10')
            res.append(s)
        out = res
        # N22  t = E ; if t / if not t  (t used nowhere else)  ->  if E / if not E
        res = []
        for s in out:
            if first and res and self.fns and isinstance(s, ast.If) and isinstance(res[-1], ast.Assign) and len(res[-1].targets) == 1 \
                    and isinstance(res[-1].targets[0], ast.Name):
                t = res[-1].targets[0].id
                core = s.test.operand if (isinstance(s.test, ast.UnaryOp) and isinstance(s.test.op, ast.Not)) else s.test
                if isinstance(core, ast.Name) and core.id == t and \
                        len([n for n in ast.walk(self.fns[-1]) if isinstance(n, ast.Name) and n.id == t and isinstance(n.ctx, ast.Load)]) == 1:
                    a = res.pop()
                    av = a.value
                    if isinstance(av, ast.Call) and isinstance(av.func, ast.Name) and av.func.id == 'bool' and len(av.args) == 1 and not av.keywords:
                        av = av.args[0]          # truthiness is all an if-test looks at
                    v = self.ex.visit(negate(av)) if core is not s.test else av
                    s.test = v
                    self.hit('N22')
            res.append(s)
        out = res
        # N26  L.append(X) ; return S.join(L)  ->  return S.join(L + [X])
        res = []
        for s in out:
            if res and isinstance(s, ast.Return) and isinstance(s.value, ast.Call) and isinstance(s.value.func, ast.Attribute) and s.value.func.attr == 'join' \
                    and len(s.value.args) == 1 and isinstance(s.value.args[0], ast.Name) and not s.value.keywords \
                    and isinstance(res[-1], ast.Expr) and isinstance(res[-1].value, ast.Call) and isinstance(res[-1].value.func, ast.Attribute) \
                    and res[-1].value.func.attr == 'append' and isinstance(res[-1].value.func.value, ast.Name) \
                    and res[-1].value.func.value.id == s.value.args[0].id and len(res[-1].value.args) == 1:
                a = res.pop()
                lst = ast.copy_location(ast.List(elts=[a.value.args[0]], ctx=ast.Load()), a)
                s = ast.copy_location(ast.Return(value=ast.copy_location(ast.Call(func=s.value.func, args=[ast.copy_location(
                    ast.BinOp(left=s.value.args[0], op=ast.Add(), right=lst), a)], keywords=[]), s)), s)
                self.hit('N26')
            res.append(s)
        out = res
        # N40  x = y ; x = E(x)   ->   x = E(y)        (y a plain name that E does not bind; what the inliner leaves when a helper re-binds its parameter)
        res = []
        for s in out:
            if res and self.fns and isinstance(s, ast.Assign) and len(s.targets) == 1 and isinstance(s.targets[0], ast.Name) \
                    and isinstance(res[-1], ast.Assign) and len(res[-1].targets) == 1 and isinstance(res[-1].targets[0], ast.Name) \
                    and res[-1].targets[0].id == s.targets[0].id and isinstance(res[-1].value, ast.Name) and res[-1].value.id != s.targets[0].id \
                    and any(isinstance(n, ast.Name) and n.id == s.targets[0].id for n in ast.walk(s.value)) \
                    and not any(isinstance(n, (ast.NamedExpr, ast.Lambda, ast.ListComp, ast.GeneratorExp, ast.SetComp, ast.DictComp)) for n in ast.walk(s.value)):
                x, y = s.targets[0].id, res[-1].value.id

                class _R(ast.NodeTransformer):
                    def visit_Name(self_, n):
                        if n.id == x and isinstance(n.ctx, ast.Load):
                            return ast.copy_location(ast.Name(id=y, ctx=ast.Load()), n)
                        return n
                res.pop()
                s = ast.copy_location(ast.Assign(targets=s.targets, value=_R().visit(s.value)), s)
                self.hit('N40')
            res.append(s)
        out = res
        # N41  t = <call> ; f(a.., t, ..)   ->   f(a.., <call>, ..)     (t a temporary made up by the inliner, bound once and read once in the whole function,
        #      the arguments before it call-free, f itself a call-free expression)
        res = []
        for s in out:
            if res and self.fns and isinstance(res[-1], ast.Assign) and len(res[-1].targets) == 1 and isinstance(res[-1].targets[0], ast.Name) \
                    and isinstance(res[-1].value, ast.Call) and isinstance(s, (ast.Expr, ast.Assign, ast.Return)) and isinstance(s.value, ast.Call) \
                    and _pure(s.value.func) and not s.value.keywords:
                t = res[-1].targets[0].id
                uses = [n for n in ast.walk(self.fns[-1]) if isinstance(n, ast.Name) and n.id == t]
                idx = [i for i, a_ in enumerate(s.value.args) if isinstance(a_, ast.Name) and a_.id == t]
                import re as _re
                made = _re.search(r'__\w+?\d+_*$', t) or _re.match(r'_v\d+$', t)          # a name the inliner made up (hand-written temporaries are left alone)
                if (made or getattr(res[-1], '_inl', False)) and len(uses) == 2 and len(idx) == 1 and all(_pure(a_) for a_ in s.value.args[:idx[0]]):
                    a = res.pop()
                    s.value.args[idx[0]] = a.value
                    self.hit('N41')
            res.append(s)
        out = res
        # N44  t = obj.attr.chain (or, for a binding the inliner made up, a call-free arithmetic / subscript expression) ; <statement that reads t once, before it
        #      makes any call>   ->   read in place
        #      (t bound once and read once in the whole function; also through the call-free test of an `if` into the first statement of a branch)
        res = []
        for s in out:
            if res and self.fns and isinstance(res[-1], ast.Assign) and len(res[-1].targets) == 1 and isinstance(res[-1].targets[0], ast.Name) \
                    and (_chain(res[-1].value) or (getattr(res[-1], '_inl', False) and isinstance(res[-1].value, (ast.BinOp, ast.UnaryOp, ast.Subscript, ast.Compare))
                                                   and _pure(res[-1].value))) \
                    and not isinstance(s, (ast.FunctionDef, ast.AsyncFunctionDef, ast.ClassDef)):
                t = res[-1].targets[0].id
                uses = [n for n in ast.walk(self.fns[-1]) if isinstance(n, ast.Name) and n.id == t]
                here = [n for n in ast.walk(s) if isinstance(n, ast.Name) and n.id == t and isinstance(n.ctx, ast.Load)]
                roots = set(n.id for n in ast.walk(res[-1].value) if isinstance(n, ast.Name))
                rebound = any(isinstance(n, ast.Name) and n.id in roots and isinstance(n.ctx, ast.Store) for n in ast.walk(s))
                if len(uses) == 2 and len(here) == 1 and not rebound and self._read_first(s, here[0]):
                    a = res.pop()
                    val = a.value

                    class _R(ast.NodeTransformer):
                        def visit_Name(self_, n):
                            if n is here[0]:
                                return copy.deepcopy(val)
                            return n
                    s = _R().visit(s)
                    self.hit('N44')
            res.append(s)
        out = res
        # N41b  t = <call> ; [x =] await t   ->   [x =] await <call>        (t made up by the inliner, read only there)
        res = []
        for s in out:
            if res and self.fns and isinstance(res[-1], ast.Assign) and len(res[-1].targets) == 1 and isinstance(res[-1].targets[0], ast.Name) \
                    and isinstance(res[-1].value, ast.Call) and getattr(res[-1], '_inl', False) \
                    and isinstance(s, (ast.Expr, ast.Assign, ast.Return)) and isinstance(s.value, ast.Await) and isinstance(s.value.value, ast.Name) \
                    and s.value.value.id == res[-1].targets[0].id:
                t = res[-1].targets[0].id
                uses = [n for n in ast.walk(self.fns[-1]) if isinstance(n, ast.Name) and n.id == t]
                if len(uses) == 2:
                    a = res.pop()
                    s.value.value = a.value
                    self.hit('N41')
            res.append(s)
        out = res
        # N5
        res = []
        for s in out:
            if isinstance(s, ast.Return) and isinstance(s.value, ast.Name) and res and isinstance(res[-1], ast.Assign) \
                    and len(res[-1].targets) == 1 and isinstance(res[-1].targets[0], ast.Name) and res[-1].targets[0].id == s.value.id:
                a = res.pop()
                res.append(ast.copy_location(ast.Return(value=a.value), a))
                self.hit('N5')
                continue
            res.append(s)
        # N6b  `if <call-free test>: pass` (what is left of a branch whose statements were folded away) does nothing
        res = [s for s in res if not (isinstance(s, ast.If) and not s.orelse and all(isinstance(b, ast.Pass) for b in s.body) and _pure(s.test))] or \
            ([ast.copy_location(ast.Pass(), res[0])] if res else res)
        # N6
        if len(res) > 1 and any(isinstance(s, ast.Pass) for s in res):
            keep = [s for s in res if not isinstance(s, ast.Pass)]
            if keep:
                self.hit('N6')
                res = keep
        return res

    def norm_if(self, s, rest):
        """canonical statements for `s` followed by the (already canonical) statements *rest*"""
        if isinstance(s.test, ast.Constant):
            # N33  a test that became a constant (a helper inlined with a literal argument): only the branch taken remains
            self.hit('N33')
            return list(s.body if s.test.value else s.orelse) + rest
        if s.orelse and all(isinstance(x, ast.Pass) for x in s.orelse):
            s = ast.copy_location(ast.If(test=s.test, body=s.body, orelse=[]), s)          # N27  an else that does nothing
        # N25  if C: x = True else: x = False  ->  x = C   (x = not C for the mirrored constants)
        if len(s.body) == 1 and len(s.orelse) == 1 and all(isinstance(b, ast.Assign) and len(b.targets) == 1 and isinstance(b.targets[0], ast.Name)
                                                            and isinstance(b.value, ast.Constant) and isinstance(b.value.value, bool) for b in (s.body[0], s.orelse[0])) \
                and s.body[0].targets[0].id == s.orelse[0].targets[0].id and s.body[0].value.value != s.orelse[0].value.value:
            c_ = s.test if s.body[0].value.value else self.ex.visit(negate(s.test))
            if not _boolean(c_):
                c_ = ast.copy_location(ast.Call(func=ast.Name(id='bool', ctx=ast.Load()), args=[c_], keywords=[]), s)
            self.hit('N25')
            return [ast.copy_location(ast.Assign(targets=[ast.Name(id=s.body[0].targets[0].id, ctx=ast.Store())], value=c_), s)] + rest
        if s.orelse and negative(s.test):
            s = ast.copy_location(ast.If(test=negate(s.test), body=s.orelse, orelse=s.body), s)
            self.hit('N2')
        if s.orelse:
            bt, et = terminates(s.body), terminates(s.orelse)
            if bt and et:
                # two terminal alternatives: the smaller one is the guarded one (guard-clause form)
                if _size(s.orelse) < _size(s.body):
                    s = ast.copy_location(ast.If(test=negate(s.test), body=s.orelse, orelse=s.body), s)
                tail = s.orelse
                s = ast.copy_location(ast.If(test=s.test, body=s.body, orelse=[]), s)
                self.hit('N4')
            elif bt:
                tail = s.orelse
                s = ast.copy_location(ast.If(test=s.test, body=s.body, orelse=[]), s)
                self.hit('N4')
            elif et:
                tail = s.body
                s = ast.copy_location(ast.If(test=negate(s.test), body=s.orelse, orelse=[]), s)
                self.hit('N4')
            else:
                return [s] + rest
            rest = list(tail) + rest
        elif terminates(s.body) and terminates(rest) and not (isinstance(s.test, ast.BoolOp) and isinstance(s.test.op, ast.And)):
            # (a conjunction is split into nested ifs below instead: the nested form is what `if a: if b: ...` already is)
            # `if T: A(ends)` followed by `R(ends)`: the same two terminal alternatives, written without else
            sb, sr = _size(s.body), _size(rest)
            if sr < sb or (sr == sb and negative(s.test)):
                s, rest = ast.copy_location(ast.If(test=negate(s.test), body=rest, orelse=[]), s), list(s.body)
                self.hit('N4')
        if not s.orelse and _single_jump(s) and isinstance(s.test, ast.BoolOp) and isinstance(s.test.op, ast.Or):
            # N12 again: the `if A or B: <jump>` may only have lost its else just now
            self.hit('N12')
            parts = []
            for v in s.test.values:
                parts.extend(self.norm_if(ast.copy_location(ast.If(test=v, body=[copy.deepcopy(s.body[0])], orelse=[]), s), []))
            return parts + rest
        if isinstance(s.test, ast.BoolOp) and isinstance(s.test.op, ast.And):
            # N3: one test node per conjunct, so that path rules see each decision separately
            vals = []

            def flat(t):
                if isinstance(t, ast.BoolOp) and isinstance(t.op, ast.And):
                    for v in t.values:
                        flat(v)
                else:
                    vals.append(t)
            flat(s.test)
            body = s.body
            for v in reversed(vals):
                body = [ast.copy_location(ast.If(test=v, body=body, orelse=[]), s)]
            s = body[0]
            self.hit('N3')
        return [s] + rest


def _super_attr(e):
    """super(C, self).name / super().name"""
    return isinstance(e, ast.Attribute) and isinstance(e.value, ast.Call) and isinstance(e.value.func, ast.Name) and e.value.func.id == 'super' \
        and all(isinstance(a, ast.Name) for a in e.value.args) and not e.value.keywords


def _chain(e):
    """a call-free attribute chain rooted at a name: self.a, self.a.b, mod.x"""
    if not isinstance(e, ast.Attribute):
        return False
    while isinstance(e, ast.Attribute):
        e = e.value
    return isinstance(e, ast.Name)


def _parents(root, node):
    """ancestors of node inside root (nearest first)"""
    path = []

    def walk(n, trail):
        if n is node:
            path.extend(reversed(trail))
            return True
        for c_ in ast.iter_child_nodes(n):
            if walk(c_, trail + [n]):
                return True
        return False
    walk(root, [])
    return path


def _boolean(e):
    """the expression is a bool by construction: not X, a comparison, or and/or of such"""
    if isinstance(e, ast.UnaryOp) and isinstance(e.op, ast.Not):
        return True
    if isinstance(e, ast.Compare):
        return True
    if isinstance(e, ast.BoolOp):
        return all(_boolean(v) for v in e.values)
    return False


def _single_jump(s):
    return len(s.body) == 1 and (isinstance(s.body[0], (ast.Break, ast.Continue)) or
                                 (isinstance(s.body[0], ast.Return) and (s.body[0].value is None or isinstance(s.body[0].value, (ast.Constant, ast.Name)))))


def negative(t):
    """the test is the negatively written one of the pair (T, not T): `not x`, != / is not / not in, or a disjunction
    (whose negation is a conjunction)"""
    return (isinstance(t, ast.UnaryOp) and isinstance(t.op, ast.Not)) or \
        (isinstance(t, ast.Compare) and len(t.ops) == 1 and isinstance(t.ops[0], (ast.NotEq, ast.IsNot, ast.NotIn))) or \
        (isinstance(t, ast.BoolOp) and isinstance(t.op, ast.Or))


def _size(stmts):
    return sum(1 for st in stmts for _ in ast.walk(st))

# Attribute names the package stores into at the pinned snapshot.  A field that is NOT one of these was introduced by a later edit
# (the rules know the package's own fields by name, they cannot know a new one): N35 looks through it when it only caches a value
# derived from other constructor-time fields.
KNOWN_FIELDS = frozenset('''
PROMPT PROMPT_SET_CSH PROMPT_SET_SH PROMPT_SET_ZSH SSH_OPTS STDERR_FILENO STDIN_FILENO STDOUT_FILENO UNIQUE_PROMPT
__cause__ __irix_hack _before _buf _buffer _decoder _encoder _read_queue _read_reached_eof _read_thread _searches
_strings action after allowed_string_types args async_pw_transport before buffer_type child child_fd closed codec_errors
cols command continuation_prompt crlf cur_c cur_r cur_saved_c cur_saved_r current_state cwd daemon debug_command_string
decoder default_transition delayafterclose delayafterread delayafterterminate delaybeforesend delimiter dwFlags echo
encoding encoding_errors end env eof_index exitstatus expecter flag_eof force_password fut ignore_sighup ignorecase
initial_state input_symbol linesep logfile logfile_read logfile_send longest_string lookback match match_index maxread
memory name next_state options own_fd pid proc prompt ptyproc rows scroll_row_end scroll_row_start searcher
searchwindowsize signalstatus socket softspace spawn start state state_transitions state_transitions_any status stderr
stdin stdout str_last_chars string_type terminated timeout timeout_index transport use_poll value w write_to_stdout
'''.split())


def expand_derived_fields(trees, skip=()):
    """N35  `self.maintain = self.searchwindowsize or self.lookback` in __init__ (a NEW field, bound once, at the top level of the
    constructor, from a call-free expression over constants and fields that are themselves only ever bound in constructors of
    the same class family and never through another object) is read as that expression in the other methods of the class."""
    classes = []
    for m, t in trees.items():
        if m in skip:
            continue
        for st in t.body:
            if isinstance(st, ast.ClassDef):
                classes.append((m, st))
    by_name = {}
    for m, c in classes:
        by_name.setdefault(c.name, []).append(c)

    def family(c):
        """names of the class, its (package) ancestors and descendants"""
        fam = {c.name}
        changed = True
        while changed:
            changed = False
            for m, k in classes:
                bases = set(b.id if isinstance(b, ast.Name) else getattr(b, 'attr', None) for b in k.bases)
                if k.name not in fam and bases & fam:
                    fam.add(k.name)
                    changed = True
        # ancestors
        todo = [c]
        while todo:
            k = todo.pop()
            for b in k.bases:
                bn = b.id if isinstance(b, ast.Name) else getattr(b, 'attr', None)
                if bn and bn not in fam:
                    fam.add(bn)
                    todo.extend(by_name.get(bn, []))
        return fam
    # every attribute store of the package: (attr, base is `self`, class name or None, function name)
    stores = []
    for m, t in trees.items():
        if m in skip:
            continue
        for node, cls, fn in _walk_ctx(t):
            if isinstance(node, ast.Attribute) and isinstance(node.ctx, (ast.Store, ast.Del)):
                stores.append((node.attr, isinstance(node.value, ast.Name) and node.value.id == 'self', cls, fn))
            elif isinstance(node, ast.Call) and isinstance(node.func, ast.Name) and node.func.id in ('setattr', 'delattr'):
                stores.append((None, False, cls, fn))
    if any(a is None for a, _, _, _ in stores):
        return 0
    hits = 0
    for m, c in classes:
        init = [f for f in c.body if isinstance(f, ast.FunctionDef) and f.name == '__init__']
        if not init:
            continue
        init = init[0]
        fam = family(c)

        def stable(b):
            for a, is_self, cls, fn in stores:
                if a != b:
                    continue
                if not is_self:
                    return False
                if cls in fam and fn != '__init__':
                    return False
            return True

        def pure(e):
            if isinstance(e, ast.Constant):
                return True
            if isinstance(e, ast.Attribute):
                return isinstance(e.value, ast.Name) and e.value.id == 'self' and stable(e.attr)
            if isinstance(e, ast.BoolOp):
                return all(pure(x) for x in e.values)
            if isinstance(e, ast.BinOp):
                return pure(e.left) and pure(e.right)
            if isinstance(e, ast.UnaryOp):
                return pure(e.operand)
            if isinstance(e, ast.Compare):
                return pure(e.left) and all(pure(x) for x in e.comparators)
            if isinstance(e, ast.IfExp):
                return pure(e.test) and pure(e.body) and pure(e.orelse)
            return False
        derived = {}
        for i, st in enumerate(init.body):
            if isinstance(st, ast.Assign) and len(st.targets) == 1 and isinstance(st.targets[0], ast.Attribute) \
                    and isinstance(st.targets[0].value, ast.Name) and st.targets[0].value.id == 'self':
                a = st.targets[0].attr
                if a in KNOWN_FIELDS or sum(1 for x in stores if x[0] == a) != 1 or not pure(st.value):
                    continue
                if not any(isinstance(x, ast.Attribute) for x in ast.walk(st.value)):
                    continue          # a plain constant default is a configuration knob, not a derived value
                # the fields it reads are all bound before it, at the top level or above
                read = set(x.attr for x in ast.walk(st.value) if isinstance(x, ast.Attribute))
                later = set()
                for st2 in init.body[i + 1:]:
                    for x in ast.walk(st2):
                        if isinstance(x, ast.Attribute) and isinstance(x.ctx, (ast.Store, ast.Del)):
                            later.add(x.attr)
                        elif isinstance(x, ast.Call):
                            later.add('*call*') if isinstance(x.func, ast.Attribute) and isinstance(x.func.value, ast.Name) and x.func.value.id == 'self' else None
                if read & later or '*call*' in later:
                    continue
                derived[a] = st.value
        if not derived:
            continue

        class T(ast.NodeTransformer):
            def visit_Attribute(self_, n):
                if isinstance(n.ctx, ast.Load) and isinstance(n.value, ast.Name) and n.value.id == 'self' and n.attr in derived:
                    return copy.deepcopy(derived[n.attr])
                return self_.generic_visit(n)
        for f in c.body:
            if isinstance(f, (ast.FunctionDef, ast.AsyncFunctionDef)) and f.name != '__init__':
                before = ast.dump(f)
                T().visit(f)
                if ast.dump(f) != before:
                    hits += 1
    return hits


def _walk_ctx(tree):
    """(node, enclosing class name, enclosing function name) for every node of a module"""
    def go(n, cls, fn):
        for ch in ast.iter_child_nodes(n):
            if isinstance(ch, ast.ClassDef):
                yield ch, cls, fn
                for x in go(ch, ch.name, None):
                    yield x
            elif isinstance(ch, (ast.FunctionDef, ast.AsyncFunctionDef)):
                yield ch, cls, fn
                for x in go(ch, cls, fn or ch.name):
                    yield x
            else:
                yield ch, cls, fn
                for x in go(ch, cls, fn):
                    yield x
    return go(tree, None, None)


def canonicalise(trees, skip=()):
    """trees: dict name -> Module ast (modified in place); returns rule hit counts"""
    from . import inline
    sigs = signatures([t for n, t in trees.items() if n not in skip])
    total = {}
    n35 = expand_derived_fields(trees, skip)
    if n35:
        total['N35'] = n35

    nn = set()
    # module-level `NAME = object()` bound once in the package: unique markers
    cnt = {}
    for n_, t_ in trees.items():
        if n_ in skip:
            continue
        for st in t_.body:
            if isinstance(st, ast.Assign):
                for tg in st.targets:
                    if isinstance(tg, ast.Name):
                        is_obj = isinstance(st.value, ast.Call) and isinstance(st.value.func, ast.Name) and st.value.func.id == 'object' and not st.value.args and not st.value.keywords
                        cnt.setdefault(tg.id, []).append(is_obj)
    sent = set(k for k, v in cnt.items() if v == [True])
    sent_funcs = set()
    sent_attrs = set()
    if sent:
        for n_, t_ in trees.items():
            if n_ in skip:
                continue
            for st_ in ast.walk(t_):
                if isinstance(st_, (ast.Assign, ast.AugAssign, ast.AnnAssign)) and st_.value is not None \
                        and any(isinstance(x, ast.Name) and x.id in sent for x in ast.walk(st_.value)):
                    tg_ = st_.targets if isinstance(st_, ast.Assign) else [st_.target]
                    for t2_ in tg_:
                        for x in ast.walk(t2_):
                            if isinstance(x, ast.Attribute):
                                sent_attrs.add(x.attr)
                if isinstance(st_, ast.Call) and isinstance(st_.func, ast.Name) and st_.func.id == 'setattr':
                    sent_attrs.add('*')
    if sent:
        for n_, t_ in trees.items():
            if n_ in skip:
                continue
            for fn_ in ast.walk(t_):
                if isinstance(fn_, (ast.FunctionDef, ast.AsyncFunctionDef)) and any(isinstance(x, ast.Name) and x.id in sent for x in ast.walk(fn_)):
                    sent_funcs.add(fn_.name)

    # attribute names the package stores into: anywhere (a method name in this set may have been re-bound on the instance), and
    # outside constructors (a field in this set may be re-bound by any call made between two reads of it)
    st_any, st_late = set(), set()
    for n_, t_ in trees.items():
        if n_ in skip:
            continue
        for fn_ in ast.walk(t_):
            if isinstance(fn_, (ast.FunctionDef, ast.AsyncFunctionDef)):
                for x in ast.walk(fn_):
                    if isinstance(x, ast.Attribute) and isinstance(x.ctx, (ast.Store, ast.Del)):
                        st_any.add(x.attr)
                        if fn_.name != '__init__':
                            st_late.add(x.attr)
                    elif isinstance(x, ast.Call) and isinstance(x.func, ast.Name) and x.func.id in ('setattr', 'delattr'):
                        if len(x.args) >= 2 and isinstance(x.args[1], ast.Constant) and isinstance(x.args[1].value, str):
                            st_any.add(x.args[1].value)
                            st_late.add(x.args[1].value)
                        else:
                            st_any.add('*')
                            st_late.add('*')
    st_any, st_late = frozenset(st_any), frozenset(st_late)

    def run():
        for n, t in list(trees.items()):
            if n in skip:
                continue
            c = Canon(sigs, nn, sent)
            c.sentinel_funcs = sent_funcs
            c.sentinel_attrs = sent_attrs
            c.stored_any, c.stored_late = st_any, st_late
            trees[n] = c.module(t)
            for k, v in c.count.items():
                total[k] = total.get(k, 0) + v
    run()
    # extracted private helpers are written back into their callers (inline.py), then the result is brought into canonical form again
    n_inl = inline.inline_all(trees, skip=skip)
    if n_inl:
        total['INLINE'] = n_inl
    nn |= never_none_functions([t for n, t in trees.items() if n not in skip])
    run()
    # some rewrites only become possible once another one has been written back into the function (a temporary that is read once
    # AFTER two bindings were merged): repeat while the trees still change
    for _ in range(3):
        before = [ast.dump(t) for n, t in sorted(trees.items()) if n not in skip]
        run()
        if before == [ast.dump(t) for n, t in sorted(trees.items()) if n not in skip]:
            break
    return total

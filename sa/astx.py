"""AST helpers shared by all rules: dotted names, alias canonicalisation,
normalised statement text, call iteration in evaluation order."""
import ast


def src(node):
    if node is None:
        return ''
    try:
        return ast.unparse(node)
    except Exception:  # pragma: no cover
        return '<?>'


def norm(node):
    """Normalised source of a node: layout independent, used to key findings."""
    s = src(node)
    s = ' '.join(s.split())
    return s if len(s) <= 160 else s[:157] + '...'


def dotted(node):
    """'a.b.c' for Name/Attribute chains, also through calls-free subscripts
    of constants (fsm.memory[0]); None otherwise."""
    if isinstance(node, ast.Name):
        return node.id
    if isinstance(node, ast.Attribute):
        b = dotted(node.value)
        return None if b is None else b + '.' + node.attr
    if isinstance(node, ast.Subscript) and isinstance(node.slice, ast.Constant):
        b = dotted(node.value)
        return None if b is None else '%s[%r]' % (b, node.slice.value)
    if isinstance(node, ast.Call) and isinstance(node.func, ast.Name) \
            and node.func.id == 'super':
        return 'super()'
    return None


def call_name(call):
    """Dotted name of the callee of an ast.Call (None if not a plain chain)."""
    if not isinstance(call, ast.Call):
        return None
    return dotted(call.func)


def iter_nodes(node, stop_at_defs=True):
    """Pre-order walk in source order; does not descend into nested function /
    class definitions or lambdas (they are separate units)."""
    stack = [node]
    first = True
    while stack:
        n = stack.pop()
        if not first and stop_at_defs and isinstance(
                n, (ast.FunctionDef, ast.AsyncFunctionDef, ast.ClassDef, ast.Lambda)):
            yield n
            continue
        first = False
        yield n
        stack.extend(reversed(list(ast.iter_child_nodes(n))))


def calls_in(node):
    """ast.Call nodes inside *node* in (approximate) evaluation order:
    arguments before the call itself."""
    out = []

    def go(n):
        if isinstance(n, (ast.FunctionDef, ast.AsyncFunctionDef, ast.ClassDef, ast.Lambda)) and n is not node:
            return
        for c in ast.iter_child_nodes(n):
            go(c)
        if isinstance(n, ast.Call):
            out.append(n)
    go(node)
    return out


def names_in(node):
    return set(n.id for n in iter_nodes(node) if isinstance(n, ast.Name))


def attr_reads(node, base='self'):
    """(attr, node) for every ``base.attr`` read inside node."""
    out = []
    for n in iter_nodes(node):
        if isinstance(n, ast.Attribute) and isinstance(n.value, ast.Name) \
                and n.value.id == base and isinstance(n.ctx, ast.Load):
            out.append((n.attr, n))
    return out


def assigned_targets(stmt):
    """Target expressions written by a statement (flattening tuples)."""
    tg = []
    if isinstance(stmt, ast.Assign):
        tg = list(stmt.targets)
    elif isinstance(stmt, (ast.AugAssign, ast.AnnAssign)):
        tg = [stmt.target]
    elif isinstance(stmt, (ast.For, ast.AsyncFor)):
        tg = [stmt.target]
    elif isinstance(stmt, (ast.With, ast.AsyncWith)):
        tg = [i.optional_vars for i in stmt.items if i.optional_vars is not None]
    out = []

    def flat(t):
        if isinstance(t, (ast.Tuple, ast.List)):
            for e in t.elts:
                flat(e)
        elif isinstance(t, ast.Starred):
            flat(t.value)
        else:
            out.append(t)
    for t in tg:
        flat(t)
    return out


def assigned_names(stmt):
    return [t.id for t in assigned_targets(stmt) if isinstance(t, ast.Name)]


def const_value(node, default=None):
    if isinstance(node, ast.Constant):
        return node.value
    if isinstance(node, ast.UnaryOp) and isinstance(node.op, ast.USub) \
            and isinstance(node.operand, ast.Constant) \
            and isinstance(node.operand.value, (int, float)):
        return -node.operand.value
    return default


def is_const(node, value):
    sentinel = object()
    v = const_value(node, sentinel)
    return v is not sentinel and v == value and type(v) == type(value)


class Aliases(object):
    """Single-assignment local aliases of pure access paths in one function:
    ``spawn = self.spawn`` makes ``spawn._before`` canonicalise to
    ``self.spawn._before``.  A local bound more than once is not an alias."""

    def __init__(self, fn_node):
        counts = {}
        vals = {}
        params = set()
        a = fn_node.args
        for p in a.posonlyargs + a.args + a.kwonlyargs:
            params.add(p.arg)
        if a.vararg:
            params.add(a.vararg.arg)
        if a.kwarg:
            params.add(a.kwarg.arg)
        for n in iter_nodes(fn_node):
            if isinstance(n, (ast.Assign, ast.AugAssign, ast.AnnAssign, ast.For,
                              ast.AsyncFor, ast.With, ast.AsyncWith)):
                for t in assigned_targets(n):
                    if isinstance(t, ast.Name):
                        counts[t.id] = counts.get(t.id, 0) + 1
                        if isinstance(n, ast.Assign) and len(n.targets) == 1 \
                                and n.targets[0] is t:
                            vals[t.id] = n.value
                        else:
                            vals[t.id] = None
            elif isinstance(n, ast.ExceptHandler) and n.name:
                counts[n.name] = counts.get(n.name, 0) + 2
            elif isinstance(n, ast.NamedExpr) and isinstance(n.target, ast.Name):
                counts[n.target.id] = counts.get(n.target.id, 0) + 2
        self.map = {}
        for name, c in counts.items():
            if c == 1 and name not in params and vals.get(name) is not None:
                d = dotted(vals[name])
                if d is not None and d != 'super()':
                    self.map[name] = d
        self.single_assign = dict((k, vals[k]) for k, c in counts.items()
                                  if c == 1 and k not in params and vals.get(k) is not None)
        self.counts = counts
        self.params = params

    def canon(self, node_or_dotted):
        d = node_or_dotted if isinstance(node_or_dotted, str) else dotted(node_or_dotted)
        if d is None:
            return None
        for _ in range(8):
            head, sep, rest = d.partition('.')
            # handle subscripts on the head: name[0].x
            h0 = head.split('[')[0]
            if h0 in self.map and h0 != self.map[h0].split('.')[0].split('[')[0]:
                d = self.map[h0] + head[len(h0):] + sep + rest
            else:
                break
        return d


def aliases_of(fi):
    if fi._aliases is None:
        al = Aliases(fi.node)
        fi._aliases = al
        al.stale = {}
        al.stale_map = {}
        al.stale_single = {}
        # a local that may be read after the expression it was bound to changed its value is not an alias of that expression (stale.py)
        import os
        if os.environ.get('SA_NO_STALE') != '1':
            from . import stale
            try:
                al.stale = stale.stale_locals(fi, al)
            except RecursionError:
                al.stale = {}
            # (kept aside for the rules that reason about the value AT THE BINDING and check the order of events themselves: stale_ok=True)
            al.stale_map = dict((x, al.map[x]) for x in al.stale if x in al.map)
            al.stale_single = dict((x, al.single_assign[x]) for x in al.stale if x in al.single_assign)
            for x in al.stale:
                al.map.pop(x, None)
                al.single_assign.pop(x, None)
    return fi._aliases


def canon(fi, node):
    return aliases_of(fi).canon(node)


def enclosing_stmt(node):
    n = node
    while n is not None and not isinstance(n, ast.stmt):
        n = getattr(n, '_parent', None)
    return n


def parent_chain(node):
    n = getattr(node, '_parent', None)
    while n is not None:
        yield n
        n = getattr(n, '_parent', None)


def strip_parens_not(test):
    """(negated?, inner) peeling ``not``."""
    neg = False
    while isinstance(test, ast.UnaryOp) and isinstance(test.op, ast.Not):
        neg = not neg
        test = test.operand
    return neg, test

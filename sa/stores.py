"""Typestate / abstract-content analysis of the two expect stores.

``_before`` (untrimmed pending text) and ``_buffer`` (search buffer) live on the
spawn object.  The invariant every function must re-establish at each exit and
before handing control to another store-aware function is

    Inv:  content(_buffer) is a suffix of content(_before)

Abstract contents (relative to the pending text P0 at function entry):

  _before : full = t      content is exactly P0 ++ t        (t: tuple of symbols)
            exact = parts  content is exactly ++parts        (after a rebind)
  _buffer : suf = pattern  content is a suffix of P0 ++ pattern; a pattern that
                           starts with '*' stands for "anything, then ..."
            exact = parts  content is exactly ++parts (() = freshly created)

Values of locals: ('S', pattern) suffix of P0++pattern, ('SYM', name) an opaque
whole string, ('X', parts), ('TOP',).  The analysis is a forward dataflow over
the function's CFG that keeps the *set* of abstract states per node (no lossy
join; the writer functions are small), so it is exhaustive over CFG paths.
"""
import ast

from .astx import dotted, norm, src, aliases_of, assigned_targets
from .loader import AnalysisError

STORES = ('_before', '_buffer')
TOP = ('TOP',)


def store_attr(node, fi=None):
    """'_before' / '_buffer' when *node* is ``<anything>._before`` etc. (or a
    single-assignment local alias of such an attribute when *fi* is given)."""
    if isinstance(node, ast.Attribute) and node.attr in STORES:
        return node.attr
    if fi is not None and isinstance(node, ast.Name):
        d = aliases_of(fi).map.get(node.id)
        if d:
            last = d.split('.')[-1]
            if last in STORES:
                return last
    return None


def is_fresh_store(value):
    """``X.buffer_type()`` / ``BytesIO()`` / ``StringIO()`` without arguments."""
    if isinstance(value, ast.Call) and not value.args and not value.keywords:
        f = dotted(value.func)
        if f and (f.endswith('.buffer_type') or f in ('BytesIO', 'StringIO', 'io.BytesIO', 'io.StringIO')):
            return True
    return False


def store_call(call, fi=None):
    """(store, method) for ``X._before.write(..)`` style calls."""
    if isinstance(call, ast.Call) and isinstance(call.func, ast.Attribute):
        st = store_attr(call.func.value, fi)
        if st:
            return st, call.func.attr
    return None


def touches_stores(fi):
    """Does the function rebind / write / seek a store, or assign ``.buffer``?"""
    for n in ast.walk(fi.node):
        if isinstance(n, (ast.Assign, ast.AugAssign)):
            for t in assigned_targets(n):
                if store_attr(t):
                    return True
                if isinstance(t, ast.Attribute) and t.attr == 'buffer':
                    return True
        sc = store_call(n, fi)
        if sc and sc[1] in ('write', 'seek', 'truncate', 'writelines'):
            return True
    return False


def fits(pattern, t):
    if pattern is None or t is None:
        return False
    if pattern and pattern[0] == '*':
        k = len(pattern) - 1
        return k == 0 or (len(t) >= k and tuple(t[-k:]) == tuple(pattern[1:]))
    return tuple(pattern) == tuple(t)


def tuple_suffix(a, b):
    """is a a suffix of b (tuples)"""
    return len(a) <= len(b) and (len(a) == 0 or tuple(b[-len(a):]) == tuple(a))


class State(object):
    __slots__ = ('bfull', 'bexact', 'usuf', 'uexact', 'locs', 'seeked', 'urep')

    def __init__(self, bfull=(), bexact=None, usuf=(), uexact=None, locs=(), seeked=(), urep=None):
        self.bfull = bfull
        self.bexact = bexact
        self.usuf = usuf
        self.uexact = uexact
        self.locs = locs          # tuple of (name, value) sorted
        self.seeked = seeked      # tuple of store names whose position is not at the end
        self.urep = urep          # name of a caller-supplied value the search buffer was REPLACED with (fresh + write)

    def key(self):
        return (self.bfull, self.bexact, self.usuf, self.uexact, self.locs, self.seeked, self.urep)

    def __hash__(self):
        return hash(self.key())

    def __eq__(self, o):
        return self.key() == o.key()

    def copy(self, **kw):
        s = State(self.bfull, self.bexact, self.usuf, self.uexact, self.locs, self.seeked, self.urep)
        for k, v in kw.items():
            setattr(s, k, v)
        return s

    def loc(self, name):
        for k, v in self.locs:
            if k == name:
                return v
        return None

    def with_loc(self, name, val):
        d = dict(self.locs)
        if val is None:
            d.pop(name, None)
        else:
            d[name] = val
        return self.copy(locs=tuple(sorted(d.items())))

    def inv(self):
        """(holds, reason)"""
        if self.uexact == ():
            return True, 'search buffer empty'
        if self.bfull is not None:
            if self.usuf is not None and fits(self.usuf, self.bfull):
                return True, 'buffer suffix of P0++%r' % (self.bfull,)
            return False, ('_before holds P0++%s but _buffer is only known to be %s'
                           % (list(self.bfull), self.describe_buf()))
        if self.bexact is not None:
            if self.uexact is not None and tuple_suffix(self.uexact, self.bexact):
                return True, 'both stores hold the same expression'
            if self.usuf is not None and self.usuf and self.usuf[0] == '*' \
                    and tuple_suffix(tuple(self.usuf[1:]), self.bexact):
                return True, 'buffer suffix of the rebuilt pending text'
            return False, ('_before was rebuilt as %s but _buffer is %s'
                           % (list(self.bexact), self.describe_buf()))
        return False, 'content of _before unknown'

    def describe_buf(self):
        if self.uexact is not None:
            return 'exactly %s' % (list(self.uexact),)
        if self.usuf is not None:
            return 'a suffix of P0++%s' % (list(self.usuf),)
        return 'unknown'


class Event(object):
    def __init__(self, kind, node, store=None, arg=None, name=None):
        self.kind = kind
        self.node = node
        self.store = store
        self.arg = arg
        self.name = name


class StoreAnalysis(object):
    """Run the typestate over one function; collect problems."""

    def __init__(self, repo, fi, writer_names, assume_params=None):
        self.repo = repo
        self.fi = fi
        self.writer_names = writer_names    # method names that are store-aware
        self.assume = assume_params or {}   # param -> value
        self.problems = []                  # (node, tag, message)
        self.call_checks = []               # (node, callee, ok, message)
        self.exit_states = 0
        self.rebinds = []
        self.writes = []
        self.seeks = []
        self.al = aliases_of(fi)

    # ---- abstract value of an expression
    def absval(self, e, st):
        if isinstance(e, ast.Name):
            v = st.loc(e.id)
            if v is not None:
                return v
            if e.id in self.assume:
                return self.assume[e.id]
            return ('SYM', e.id)
        if isinstance(e, ast.Call):
            sc = store_call(e, self.fi)
            if sc:
                store, meth = sc
                if meth == 'getvalue' and not e.args:
                    return self.content_value(store, st)
                if meth == 'read' and not e.args:
                    v = self.content_value(store, st)
                    if v[0] == 'S':
                        return v
                    if v[0] == 'X' and v[1] == ():
                        return v
                    return TOP
                return TOP
            return TOP
        if isinstance(e, ast.Attribute) and e.attr == 'buffer':
            return self.content_value('_buffer', st)
        if isinstance(e, ast.BinOp) and isinstance(e.op, ast.Add):
            # <a suffix of the text so far> + <a whole chunk>  is a suffix of  <text so far> ++ <chunk>
            a, b = self.absval(e.left, st), self.absval(e.right, st)
            if b[0] == 'SYM':
                if a[0] == 'S':
                    return ('S', tuple(a[1]) + (b[1],))
                if a[0] == 'X' and a[1] == ():
                    return ('S', ('*', b[1]))
                if a[0] == 'SYM':
                    return ('S', ('*', a[1], b[1]))
            return TOP
        if isinstance(e, ast.Subscript) and isinstance(e.slice, ast.Slice):
            s = e.slice
            base = self.absval(e.value, st)
            if s.upper is None and s.step is None:
                # lower-bound-only slice: a suffix of the base
                if base[0] == 'S':
                    return base
                if base[0] == 'SYM':
                    return ('S', ('*', base[1]))
                if base[0] == 'X' and base[1] == ():
                    return base
            return TOP
        return TOP

    def content_value(self, store, st):
        if store == '_before':
            if st.bfull is not None:
                return ('S', st.bfull)
            if st.bexact is not None:
                return ('X', st.bexact)
            return TOP
        if st.usuf is not None:
            return ('S', st.usuf)
        if st.uexact is not None:
            return ('X', st.uexact)
        return TOP

    # ---- events of a CFG node, in evaluation order
    def events(self, node):
        out = []
        a = node.ast
        if node.kind == 'stmt':
            roots = [a]
        elif node.kind == 'test':
            roots = [a]
        elif node.kind == 'for':
            roots = [a.iter]
        elif node.kind == 'with':
            roots = [i.context_expr for i in a.items]
        else:
            roots = []
        for r in roots:
            if isinstance(r, (ast.FunctionDef, ast.AsyncFunctionDef, ast.ClassDef)):
                continue
            self._expr_events(r, out)
        if node.kind == 'stmt' and isinstance(a, ast.Assign):
            n_store_targets = sum(1 for t in assigned_targets(a) if store_attr(t))
            if n_store_targets > 1 and not isinstance(a.value, ast.Tuple):
                out.append(Event('alias', a))
            elif n_store_targets >= 1 and (store_attr(a.value, self.fi) or
                                           (isinstance(a.value, ast.Name) and self._holds_store_object(a.value.id, a))):
                out.append(Event('alias', a))
            for t in assigned_targets(a):
                stn = store_attr(t)
                if stn:
                    out.append(Event('rebind', a, store=stn, arg=a.value))
                elif isinstance(t, ast.Attribute) and t.attr == 'buffer':
                    out.append(Event('setbuffer', a, arg=a.value))
                elif isinstance(t, ast.Name):
                    if len(a.targets) == 1 and a.targets[0] is t:
                        out.append(Event('assign', a, name=t.id, arg=a.value))
                    else:
                        out.append(Event('assign', a, name=t.id, arg=None))
        elif node.kind == 'stmt' and isinstance(a, ast.AugAssign):
            t = a.target
            if store_attr(t):
                out.append(Event('rebind', a, store=store_attr(t), arg=None))
            elif isinstance(t, ast.Name):
                out.append(Event('assign', a, name=t.id, arg=None))
        elif node.kind == 'for':
            for t in assigned_targets(a):
                if isinstance(t, ast.Name):
                    out.append(Event('assign', a, name=t.id, arg=None))
        return out

    def _holds_store_object(self, name, stmt):
        """is *name* a local that was bound to a fresh store object and is used for
        more than one store (tmp = buffer_type(); _buffer = tmp; _before = tmp)?"""
        uses = 0
        fresh = False
        for n in ast.walk(self.fi.node):
            if isinstance(n, ast.Assign):
                if any(isinstance(t, ast.Name) and t.id == name for t in n.targets) and is_fresh_store(n.value):
                    fresh = True
                if isinstance(n.value, ast.Name) and n.value.id == name and any(store_attr(t) for t in assigned_targets(n)):
                    uses += sum(1 for t in assigned_targets(n) if store_attr(t))
        return fresh and uses > 1

    def _expr_events(self, root, out):
        from .astx import calls_in
        for c in calls_in(root):
            sc = store_call(c, self.fi)
            if sc:
                store, meth = sc
                if meth == 'write':
                    out.append(Event('write', c, store=store, arg=c.args[0] if c.args else None))
                elif meth == 'seek':
                    out.append(Event('seek', c, store=store))
                elif meth == 'read':
                    out.append(Event('read', c, store=store, arg=c.args[0] if c.args else None))
                elif meth in ('truncate', 'writelines'):
                    out.append(Event('clobber', c, store=store))
                continue
            f = dotted(c.func)
            if f is None:
                continue
            last = f.split('.')[-1]
            if last in self.writer_names and (f.startswith('self.') or '.' in f):
                out.append(Event('call', c, name=last, arg=c))

    # ---- transfer
    def step(self, ev, st):
        k = ev.kind
        if k == 'assign':
            val = self.absval(ev.arg, st) if ev.arg is not None else TOP
            if val == TOP:
                val = ('SYM', ev.name) if ev.arg is not None else TOP
            st = self._invalidate(st, ev.name)
            return st.with_loc(ev.name, val)
        if k == 'rebind':
            self.rebinds.append(ev)
            fresh = ev.arg is not None and is_fresh_store(ev.arg)
            if ev.store == '_before':
                return st.copy(bfull=None, bexact=() if fresh else None,
                               seeked=tuple(x for x in st.seeked if x != '_before'))
            return st.copy(usuf=None, uexact=() if fresh else None, urep=None,
                           seeked=tuple(x for x in st.seeked if x != '_buffer'))
        if k == 'write':
            self.writes.append(ev)
            if ev.store in st.seeked:
                self.problem(ev.node, 'write-after-seek',
                             '%s.write() while the position is not at the end (seek without read)' % ev.store)
            v = self.absval(ev.arg, st) if ev.arg is not None else TOP
            text = norm(ev.arg) if ev.arg is not None else '?'
            if ev.store == '_before':
                bfull = st.bfull + (v[1],) if (st.bfull is not None and v[0] == 'SYM') else None
                bexact = st.bexact + (text,) if st.bexact is not None else None
                if bfull is not None and len(bfull) > 6:
                    raise AnalysisError('store typestate: unbounded appends in %s' % self.fi.qual)
                return st.copy(bfull=bfull, bexact=bexact)
            uexact = st.uexact + (text,) if st.uexact is not None else None
            urep = st.urep
            if st.uexact == ():
                if v[0] == 'S':
                    usuf = v[1]
                elif v[0] == 'SYM':
                    usuf = ('*', v[1])
                    # replaced by a value that does not come from the pending text: a parameter of this function
                    if v[1] in self.fi.params and (st.bfull is None or v[1] not in st.bfull):
                        urep = v[1]
                elif v[0] == 'X' and v[1] == ():
                    usuf = None
                    uexact = ()
                else:
                    usuf = None
            elif st.usuf is not None and v[0] == 'SYM':
                usuf = st.usuf + (v[1],)
                if len(usuf) > 7:
                    raise AnalysisError('store typestate: unbounded appends in %s' % self.fi.qual)
            else:
                usuf = None
            return st.copy(usuf=usuf, uexact=uexact, urep=urep)
        if k == 'alias':
            self.problem(ev.node, 'inv-aliased-stores',
                         'both stores are bound to the SAME buffer object: every chunk appended to _before and then to '
                         '_buffer lands in it twice (the pending text is duplicated)')
            return st
        if k == 'seek':
            self.seeks.append(ev)
            if ev.store not in st.seeked:
                return st.copy(seeked=tuple(sorted(st.seeked + (ev.store,))))
            return st
        if k == 'read':
            if ev.arg is None:
                return st.copy(seeked=tuple(x for x in st.seeked if x != ev.store))
            return st
        if k == 'clobber':
            if ev.store == '_before':
                return st.copy(bfull=None, bexact=None)
            return st.copy(usuf=None, uexact=None)
        if k == 'setbuffer':
            # property setter == call of _set_buffer: needs Inv? no: it replaces both
            return State(bfull=(), bexact=None, usuf=(), uexact=None, locs=(), seeked=())
        if k == 'call':
            ok, why = st.inv()
            msg = None
            if st.seeked:
                ok = False
                why = 'position of %s left before the end (seek without read)' % '/'.join(st.seeked)
            if ok and ev.name == 'do_search':
                c = ev.arg
                if c.args:
                    v = self.absval(c.args[0], st)
                    if v[0] == 'S' and st.bfull is not None and fits(v[1], st.bfull):
                        pass
                    elif v[0] == 'S' and st.bexact is not None and v[1] and v[1][0] == '*' \
                            and tuple_suffix(tuple(v[1][1:]), st.bexact):
                        pass
                    elif v[0] == 'SYM' and ((st.bfull is not None and tuple_suffix((v[1],), tuple(st.bfull))) or
                                            (st.bexact is not None and tuple_suffix((v[1],), tuple(st.bexact)))):
                        pass        # the chunk just appended, whole: a suffix of the pending text
                    else:
                        ok = False
                        why = ('window argument %s is not known to be a suffix of the pending text '
                               '(value: %r, pending: P0++%r)' % (norm(c.args[0]), v, st.bfull))
            self.call_checks.append((ev.node, ev.name, ok, why))
            if not ok:
                self.problem(ev.node, 'inv-at-call:' + ev.name,
                             'calls %s() with the stores out of step: %s' % (ev.name, why))
            return State()
        return st

    def _invalidate(self, st, name):
        """A local was reassigned: forget exact parts that mention it."""
        def mentions(parts):
            import re
            return parts is not None and any(re.search(r'\b%s\b' % re.escape(name), p) for p in parts)
        bexact = None if mentions(st.bexact) else st.bexact
        uexact = None if mentions(st.uexact) else st.uexact
        if bexact is st.bexact and uexact is st.uexact:
            return st
        return st.copy(bexact=bexact, uexact=uexact)

    def problem(self, node, tag, msg):
        key = (getattr(node, 'lineno', 0), tag)
        if key not in [(getattr(n, 'lineno', 0), t) for n, t, _ in self.problems]:
            self.problems.append((node, tag, msg))

    # ---- driver
    def run(self, entry_state=None, check_exits=True, skip_exc=True):
        g = self.fi.cfg
        init = entry_state or State()
        states = {g.entry: {init}}
        work = [g.entry]
        n_iter = 0
        evcache = {}
        while work:
            n = work.pop()
            n_iter += 1
            if n_iter > 20000:
                raise AnalysisError('store typestate did not converge in %s' % self.fi.qual)
            ins = states.get(n, set())
            outs = set()
            if n not in evcache:
                evcache[n] = self.events(n)
            for st in ins:
                cur = st
                for ev in evcache[n]:
                    cur = self.step(ev, cur)
                outs.add(cur)
            if len(outs) > 128:
                raise AnalysisError('store typestate: too many abstract states in %s' % self.fi.qual)
            for s, lab in n.succ:
                if skip_exc and lab == 'exc':
                    continue
                cur = states.setdefault(s, set())
                new = outs - cur
                if new:
                    cur |= new
                    if s not in work:
                        work.append(s)
        # exits
        finals = []
        for ex, what in ((g.exit, 'return'), (g.raise_exit, 'raise')):
            for st in states.get(ex, ()):  # states flowing into the exit
                finals.append((ex, what, st))
        self.exit_states = len(finals)
        if check_exits:
            for ex, what, st in finals:
                ok, why = st.inv()
                if st.seeked:
                    ok, why = False, 'position of %s left before the end (seek without read)' % '/'.join(st.seeked)
                if not ok:
                    self.problem(self.fi.node, 'inv-at-exit',
                                 'a path reaches the function %s with the stores out of step: %s' % (what, why))
                elif st.urep and st.bexact is None:
                    self.problem(self.fi.node, 'one-sided-clear',
                                 'a path replaces the search buffer with the caller-supplied %s but only appends to / keeps the untrimmed '
                                 'pending text in _before: the old pending text is not replaced (it reappears in a later before)' % st.urep)
                elif st.uexact == () and st.bexact != ():
                    # D8: one-sided clear
                    self.problem(self.fi.node, 'one-sided-clear',
                                 'a path empties the search buffer but leaves the untrimmed pending text in '
                                 '_before (existing_data() re-synchronises from it, so the text comes back)')
        return finals

"""Stale single-assignment locals.

The alias machinery (astx.Aliases, linear.Expander) reads a local that is bound once to a call-free expression as that expression
(`spawn = self.spawn`, `row = self.cur_r`, `n = len(buf)`).  That is only right while the expression still has the value it had
at the binding.  A local is STALE at one of its reads when, on some path from the binding to that read (not passing the binding
again), something may have changed a part the expression is made of:

  * a store to an attribute whose name occurs in the expression (any receiver), an item / slice store or a mutator call
    (`write`, `append`, `seek`, ...) on such an attribute, a re-binding of a local the expression mentions;
  * a call that may reach a package function which does one of these -- resolved BY NAME over the whole package (every function of
    that name, transitively), so the summary over-approximates.

Stale locals are not expanded: a rule then sees the local itself (and, not knowing it, reports or gives up) instead of silently
reading a cached value as the live one -- the "cache a field in a local, use it after it changed" kind of defect.
"""
import ast

from .astx import iter_nodes

MUT = frozenset(('append', 'extend', 'insert', 'pop', 'remove', 'clear', 'sort', 'reverse', 'update', 'write', 'writelines', 'seek', 'truncate',
                 'put', 'put_nowait', 'get', 'get_nowait', 'setdefault', 'popitem', 'add', 'discard', 'read', 'readline', 'feed', 'reset', 'decode', 'encode'))
PURE_FUNCS = frozenset(('len', 'isinstance', 'min', 'max', 'abs', 'int', 'bool', 'float', 'type', 'id', 'tuple', 'list', 'sorted', 'hasattr', 'getattr', 'callable'))
PURE_METHODS = frozenset(('tell', 'getvalue', 'fileno', 'find', 'rfind', 'index', 'startswith', 'endswith', 'lower', 'upper', 'strip', 'rstrip', 'lstrip',
                          'split', 'splitlines', 'join', 'format', 'keys', 'values', 'items', 'copy', 'count', 'isalive', 'done', 'search', 'match',
                          'start', 'end', 'group', 'groups', 'get', 'replace', 'encode', 'decode'))


# fields that hold objects of the standard library at the pinned snapshot (text stores, codecs, queue, files, socket, subprocess, future,
# transport, the character grid): a method called on them runs no package code.  A field that is not listed is resolved by name.
FOREIGN_FIELDS = frozenset(('_before', '_buffer', '_decoder', '_encoder', 'decoder', 'encoder', '_read_queue', 'logfile', 'logfile_read', 'logfile_send',
                            'stdout', 'stdin', 'stderr', 'sock', 'socket', 'proc', 'fut', 'transport', 'w', '_read_thread', 'state_transitions',
                            'state_transitions_any', 'memory'))
STD_MODULES = frozenset(('os', 'sys', 'time', 'select', 'errno', 'signal', 're', 'codecs', 'struct', 'tty', 'termios', 'fcntl', 'socket', 'subprocess',
                         'threading', 'shlex', 'stat', 'pty', 'resource', 'asyncio', 'itertools', 'traceback', 'string', 'types', 'io', 'locale', 'copy',
                         'warnings', 'inspect', 'shutil', 'tempfile', 'glob', 'platform', 'math', 'random', 'queue', 'Queue', 'contextlib', 'functools'))


def _foreign_receiver(e):
    """the receiver of a method call is an object of the standard library: `os.`, `sys.stdout.`, `spawn._before.`, a literal"""
    if isinstance(e, (ast.Constant, ast.JoinedStr, ast.List, ast.Tuple, ast.Dict, ast.Set, ast.BinOp)):
        return True
    if isinstance(e, ast.Subscript):
        return _foreign_receiver(e.value)
    if isinstance(e, ast.Attribute):
        if e.attr in FOREIGN_FIELDS:
            return True
        r = e
        while isinstance(r, ast.Attribute):
            r = r.value
        return isinstance(r, ast.Name) and r.id in STD_MODULES
    return isinstance(e, ast.Name) and e.id in STD_MODULES


def _direct(fn, ctor=False):
    """attribute names a function may change itself, names of what it calls.  In a constructor (`ctor`) the stores to attributes of
    `self` initialise the NEW object: they cannot change a field of an object that already exists"""
    w, c = set(), set()
    for n in ast.walk(fn):
        if isinstance(n, ast.Attribute) and isinstance(n.ctx, (ast.Store, ast.Del)):
            if ctor and isinstance(n.value, ast.Name) and n.value.id == 'self':
                continue
            w.add(n.attr)
        elif isinstance(n, ast.Subscript) and isinstance(n.ctx, (ast.Store, ast.Del)):
            r = n.value
            while isinstance(r, ast.Subscript):
                r = r.value
            if isinstance(r, ast.Attribute):
                w.add(r.attr)
        elif isinstance(n, ast.Call):
            f = n.func
            if isinstance(f, ast.Attribute):
                if not _foreign_receiver(f.value):
                    c.add(f.attr)
                if f.attr in MUT:
                    r = f.value
                    while isinstance(r, ast.Subscript):
                        r = r.value
                    if isinstance(r, ast.Attribute):
                        w.add(r.attr)
            elif isinstance(f, ast.Name):
                c.add(f.id)
                if f.id in ('setattr', 'delattr'):
                    if len(n.args) >= 2 and isinstance(n.args[1], ast.Constant) and isinstance(n.args[1].value, str):
                        w.add(n.args[1].value)
                    else:
                        w.add('*')
    return w, c


def name_writes(repo):
    """function name -> attribute names any package function of that name may change, transitively (resolution by name)"""
    cached = getattr(repo, '_name_writes', None)
    if cached is not None:
        return cached
    direct, calls = {}, {}
    for f in repo.funcs.values():
        w, c = _direct(f.node, ctor=(f.name == '__init__'))
        direct.setdefault(f.name, set()).update(w)
        calls.setdefault(f.name, set()).update(c)
    # a class name called as a constructor runs __init__
    for cn in getattr(repo, 'classes', {}):
        calls.setdefault(cn, set()).add('__init__')
        direct.setdefault(cn, set())
    res = dict((k, set(v)) for k, v in direct.items())
    changed = True
    while changed:
        changed = False
        for k in res:
            for m in calls.get(k, ()):
                if m in res and not res[m] <= res[k]:
                    res[k] |= res[m]
                    changed = True
    repo._name_writes = res
    return res


def _parts(e, single, depth=6):
    """(attribute names, local names, pure?) of an expression, single-assignment locals written out"""
    attrs, names, pure = set(), set(), True
    seen = set()

    def walk(x, d):
        nonlocal pure
        for n in ast.walk(x):
            if isinstance(n, ast.Attribute):
                attrs.add(n.attr)
            elif isinstance(n, ast.Name) and isinstance(n.ctx, ast.Load):
                if n.id in single and n.id not in seen and d > 0:
                    seen.add(n.id)
                    walk(single[n.id], d - 1)
                else:
                    names.add(n.id)
            elif isinstance(n, ast.Call):
                f = n.func
                ok = (isinstance(f, ast.Name) and f.id in PURE_FUNCS) or (isinstance(f, ast.Attribute) and f.attr in PURE_METHODS)
                if not ok:
                    pure = False
            elif isinstance(n, (ast.Await, ast.Yield, ast.YieldFrom, ast.Lambda, ast.NamedExpr)):
                pure = False
    walk(e, depth)
    return attrs, names, pure


def stale_locals(fi, al):
    """names of single-assignment locals of *fi* that may be read after their value went out of date"""
    repo = getattr(fi, 'repo', None)
    if repo is None or not al.single_assign:
        return {}
    nw = name_writes(repo)
    try:
        g = fi.cfg
    except Exception:
        return {}
    own = set(id(x) for x in iter_nodes(fi.node))
    defs = {}
    for st in iter_nodes(fi.node):
        if isinstance(st, ast.Assign) and len(st.targets) == 1 and isinstance(st.targets[0], ast.Name) and st.targets[0].id in al.single_assign \
                and st.value is al.single_assign[st.targets[0].id]:
            defs[st.targets[0].id] = st
    out = {}
    kill_cache = {}

    def kills(node, attrs, names):
        a = node.ast
        if a is None:
            return None
        key = id(node)
        if key not in kill_cache:
            w, c = _direct(a) if not isinstance(a, (ast.FunctionDef, ast.AsyncFunctionDef, ast.ClassDef)) else (set(), set())
            stn = set(n.id for n in ast.walk(a) if isinstance(n, ast.Name) and isinstance(n.ctx, (ast.Store, ast.Del))) \
                if not isinstance(a, (ast.FunctionDef, ast.AsyncFunctionDef, ast.ClassDef)) else set()
            via = set()
            for m in c:
                if m in nw:
                    via |= nw[m]
            kill_cache[key] = (w, via, stn)
        w, via, stn = kill_cache[key]
        if w & attrs or '*' in w:
            return 'stores .%s' % sorted(w & attrs or ['*'])[0]
        if via & attrs or '*' in via:
            return 'calls something that may store .%s' % sorted(via & attrs or ['*'])[0]
        if stn & names:
            return 're-binds %s' % sorted(stn & names)[0]
        return None
    for x, d in defs.items():
        attrs, names, pure = _parts(d.value, al.single_assign)
        names.discard('self')
        if not pure or (not attrs and not names):
            continue
        dn = g.node_of_stmt(d)
        if dn is None:
            continue
        loads = [n for n in ast.walk(fi.node) if isinstance(n, ast.Name) and n.id == x and isinstance(n.ctx, ast.Load) and id(n) in own or
                 (isinstance(n, ast.Name) and n.id == x and isinstance(n.ctx, ast.Load))]
        use_nodes = set()
        for l_ in loads:
            for un in g.nodes_containing(l_):
                use_nodes.add(un)
        if not use_nodes:
            continue
        after_def = g.reachable(dn, include_start=False)
        for k in after_def:
            if k is dn or k.ast is None:
                continue
            why = kills(k, attrs, names)
            if not why:
                continue
            reach = g.reachable(k, avoid={dn}, include_start=False)
            hit = [u for u in use_nodes if u in reach and u is not k]
            if hit:
                out[x] = '%s (L%s) between its binding and the read at L%s' % (why, getattr(k.ast, 'lineno', '?'), getattr(hit[0].ast, 'lineno', '?'))
                break
    return out

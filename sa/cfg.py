"""Statement-level control-flow graph for one function, with the path queries
the rules need (reachability avoiding a node set, dominators, min/max number of
occurrences of an event on entry->exit paths).

Node kinds
  entry, exit (normal return / fall off the end), raise (exceptional exit)
  stmt   simple statement (``ast`` = the statement)
  test   test of an if/while (``ast`` = the test expression; edges 'true'/'false')
  for    a for statement's "next item" step (edges 'true' = item, 'false' = exhausted)
  with   entry of a with statement (``ast`` = the With)
  except entry of an exception handler (``ast`` = the ExceptHandler)
  join   synthetic (finally entry/exit, loop exits)

Edge labels: 'next', 'true', 'false', 'exc' (implicit exception from a statement
inside a try body to a handler or outwards), 'raise' (explicit raise),
'return', 'break', 'continue', 'loop'.
"""
import ast

from .astx import src


class Node(object):
    __slots__ = ('id', 'kind', 'ast', 'succ', 'pred', 'stmt', 'in_handler')

    def __init__(self, id, kind, astnode=None, stmt=None):
        self.id = id
        self.kind = kind
        self.ast = astnode
        self.stmt = stmt if stmt is not None else astnode
        self.succ = []   # (Node, label)
        self.pred = []   # (Node, label)
        self.in_handler = None

    @property
    def lineno(self):
        return getattr(self.ast, 'lineno', 0) if self.ast is not None else 0

    def __repr__(self):
        t = src(self.ast)[:40] if self.ast is not None and self.kind not in ('with', 'except', 'for') else ''
        return '<%d %s L%d %s>' % (self.id, self.kind, self.lineno, t)


def _local_atoms(e, value, out):
    """constraints (text, bool) a test outcome puts on plain local names; tests that involve calls or attributes constrain nothing
    (two evaluations of self.isalive() may differ)"""
    if isinstance(e, ast.UnaryOp) and isinstance(e.op, ast.Not):
        return _local_atoms(e.operand, not value, out)
    if isinstance(e, ast.BoolOp):
        if (isinstance(e.op, ast.And) and value) or (isinstance(e.op, ast.Or) and not value):
            for v in e.values:
                _local_atoms(v, value, out)
        return
    if any(isinstance(x, (ast.Call, ast.Attribute, ast.Subscript, ast.Await, ast.Yield)) for x in ast.walk(e)):
        return
    if isinstance(e, ast.Compare) and len(e.ops) == 1:
        op = e.ops[0]
        a, b = src(e.left), src(e.comparators[0])
        neg = {ast.IsNot: 'is', ast.NotEq: '==', ast.NotIn: 'in'}
        pos = {ast.Is: 'is', ast.Eq: '==', ast.In: 'in'}
        if type(op) in neg:
            k, value = neg[type(op)], not value
        elif type(op) in pos:
            k = pos[type(op)]
        else:
            out.append((src(e), value, set(x.id for x in ast.walk(e) if isinstance(x, ast.Name))))
            return
        if k == '==' and a > b:
            a, b = b, a
        out.append(('%s %s %s' % (a, k, b), value, set(x.id for x in ast.walk(e) if isinstance(x, ast.Name))))
        return
    if isinstance(e, ast.Name):
        out.append((e.id, value, {e.id}))


def _assign_facts(stmt, facts, flags):
    """what a plain assignment to a local name tells about later tests: `x = <literal>` fixes the truth value of x (and x == <that
    literal>); `x = <call-free condition>` is remembered as a flag and, when the facts at hand already decide the condition, also
    fixes the truth value of x.  Returns (new facts, new flags) (copies when changed)."""
    if not (isinstance(stmt, ast.Assign) and len(stmt.targets) == 1 and isinstance(stmt.targets[0], ast.Name)):
        return facts, flags
    x = stmt.targets[0].id
    v_ = stmt.value
    if isinstance(v_, (ast.Compare, ast.BoolOp, ast.UnaryOp)) and \
            not any(isinstance(y, (ast.Call, ast.Attribute, ast.Subscript, ast.Await)) for y in ast.walk(v_)):
        nm = frozenset(y.id for y in ast.walk(v_) if isinstance(y, ast.Name))
        if x not in nm:
            flags = dict(flags)
            flags[x] = (v_, nm)
            for val in (True, False):
                cs = []
                _local_atoms(v_, val, cs)
                if any(a in facts and facts[a][0] != v for a, v, names in cs):
                    # the condition cannot have this value, so it has the other one
                    facts = dict(facts)
                    facts[x] = (not val, frozenset([x]))
                    break
    elif isinstance(v_, ast.Constant) and (v_.value is None or isinstance(v_.value, (bool, int, str, bytes))):
        facts = dict(facts)
        facts[x] = (bool(v_.value), frozenset([x]))
        if isinstance(v_.value, (str, bytes)):
            cs = []
            _local_atoms(ast.Compare(left=ast.Name(id=x, ctx=ast.Load()), ops=[ast.Eq()], comparators=[v_]), True, cs)
            for a, v, names in cs:
                facts[a] = (v, frozenset(names))
        if v_.value is None:
            facts['%s is None' % x] = (True, frozenset([x]))
        else:
            facts['%s is None' % x] = (False, frozenset([x]))
    return facts, flags


def _feasible(path, assume=()):
    """no two tests on the way contradict each other (same atom, opposite outcome, no assignment to its names in between);
    *assume*: facts (atom text, value, names) that hold at the start of the path"""
    facts = dict((a, (v, set(names))) for a, v, names in assume)
    flags = {}          # local name -> (call-free expression over local names it was last assigned, names of that expression)
    for i, n in enumerate(path[:-1]):
        nxt = path[i + 1]
        if n.kind == 'test' and n.ast is not None:
            lab = [l for t, l in n.succ if t is nxt and l in ('true', 'false')]
            if len(lab) == 1:
                cs = []
                _local_atoms(_subst_flags(n.ast, flags) if flags else n.ast, lab[0] == 'true', cs)
                if flags:
                    _local_atoms(n.ast, lab[0] == 'true', cs)
                for a, v, names in cs:
                    if a in facts and facts[a][0] != v:
                        return False
                    facts[a] = (v, names)
        elif n.ast is not None and n.kind in ('stmt', 'for', 'with', 'except') and not (i == 0 and assume):
            # (the assumed facts describe the state AFTER the first node of the path)
            killed = set()
            for x in ast.walk(n.ast) if n.kind == 'stmt' else ast.walk(n.ast.target if n.kind == 'for' else n.ast):
                if isinstance(x, ast.Name) and isinstance(x.ctx, (ast.Store, ast.Del)):
                    killed.add(x.id)
            if n.kind == 'except' and getattr(n.ast, 'name', None):
                killed.add(n.ast.name)
            if n.kind == 'with':
                for it in n.ast.items:
                    if it.optional_vars is not None:
                        for x in ast.walk(it.optional_vars):
                            if isinstance(x, ast.Name):
                                killed.add(x.id)
            if killed:
                for a in [a for a, (v, names) in facts.items() if names & killed]:
                    del facts[a]
                for x in [x for x, (e_, names) in flags.items() if x in killed or names & killed]:
                    del flags[x]
            if n.kind == 'stmt':
                f2, g2 = _assign_facts(n.ast, facts, flags)
                facts = dict((k_, (v_[0], set(v_[1]))) for k_, v_ in f2.items())
                flags = dict((k_, (v_[0], set(v_[1]))) for k_, v_ in g2.items())
    return True


class _State(object):
    """facts about local names accumulated along a path (see _feasible): immutable, hashable"""
    __slots__ = ('facts', 'flags', 'assumed')

    def __init__(self, assume=(), facts=None, flags=None):
        self.facts = dict((a, (v, frozenset(names))) for a, v, names in assume) if facts is None else facts
        self.flags = {} if flags is None else flags
        self.assumed = bool(assume)

    def key(self):
        return (tuple(sorted((a, v) for a, (v, nm) in self.facts.items())), tuple(sorted((x, src(e)) for x, (e, nm) in self.flags.items())))

    def step(self, n, t, lab, is_start=False):
        facts, flags = self.facts, self.flags
        if n.kind == 'test' and n.ast is not None and lab in ('true', 'false'):
            cs = []
            _local_atoms(_subst_flags(n.ast, flags) if flags else n.ast, lab == 'true', cs)
            if flags:
                _local_atoms(n.ast, lab == 'true', cs)          # and what the outcome says about the flag variables themselves
            if cs:
                facts = dict(facts)
                for a, v, names in cs:
                    if a in facts and facts[a][0] != v:
                        return None
                    facts[a] = (v, frozenset(names))
        elif n.ast is not None and n.kind in ('stmt', 'for', 'with', 'except') and not (is_start and self.assumed):
            killed = set()
            for x in ast.walk(n.ast) if n.kind == 'stmt' else ast.walk(n.ast.target if n.kind == 'for' else n.ast):
                if isinstance(x, ast.Name) and isinstance(x.ctx, (ast.Store, ast.Del)):
                    killed.add(x.id)
            if n.kind == 'except' and getattr(n.ast, 'name', None):
                killed.add(n.ast.name)
            if n.kind == 'with':
                for it in n.ast.items:
                    if it.optional_vars is not None:
                        for x in ast.walk(it.optional_vars):
                            if isinstance(x, ast.Name):
                                killed.add(x.id)
            if killed:
                facts = dict((a, fv) for a, fv in facts.items() if not (fv[1] & killed))
                flags = dict((x, ev) for x, ev in flags.items() if x not in killed and not (ev[1] & killed))
            if n.kind == 'stmt':
                facts, flags = _assign_facts(n.ast, facts, flags)
        st = _State((), facts, flags)
        st.assumed = self.assumed
        return st


def _clone(node):
    """structural copy that does not follow the `_parent` back-links"""
    if isinstance(node, ast.AST):
        new = node.__class__()
        for name, val in ast.iter_fields(node):
            setattr(new, name, _clone(val))
        return new
    if isinstance(node, list):
        return [_clone(x) for x in node]
    return node


def _subst_flags(e, flags):
    if not any(isinstance(x, ast.Name) and x.id in flags for x in ast.walk(e)):
        return e

    class T(ast.NodeTransformer):
        def visit_Name(self, n):
            if isinstance(n.ctx, ast.Load) and n.id in flags:
                return _clone(flags[n.id][0])
            return n
    return T().visit(_clone(e))


class CFG(object):
    def __init__(self, fi):
        self.fi = fi
        self.nodes = []
        self.entry = self.new('entry')
        self.exit = self.new('exit')
        self.raise_exit = self.new('raise')
        self._dom = None

    def new(self, kind, astnode=None, stmt=None):
        n = Node(len(self.nodes), kind, astnode, stmt)
        self.nodes.append(n)
        return n

    def edge(self, a, b, label='next'):
        if (b, label) not in a.succ:
            a.succ.append((b, label))
            b.pred.append((a, label))

    # ------------------------------------------------------------------ queries
    def succs(self, n, skip_labels=()):
        return [s for s, l in n.succ if l not in skip_labels]

    def reachable(self, start, avoid=(), skip_labels=(), include_start=True):
        """Set of nodes reachable from *start* (a node or list) without entering
        a node in *avoid*."""
        avoid = set(avoid)
        starts = start if isinstance(start, (list, tuple, set)) else [start]
        seen = set()
        stack = []
        for s in starts:
            if include_start:
                if s in avoid:
                    continue
                seen.add(s)
                stack.append(s)
            else:
                for t in self.succs(s, skip_labels):
                    if t not in avoid and t not in seen:
                        seen.add(t)
                        stack.append(t)
        while stack:
            n = stack.pop()
            for t in self.succs(n, skip_labels):
                if t not in seen and t not in avoid:
                    seen.add(t)
                    stack.append(t)
        return seen

    def live_nodes(self, skip_labels=()):
        return self.reachable(self.entry, skip_labels=skip_labels)

    def path(self, start, goal, avoid=(), skip_labels=(), include_start=True, avoid_edges=(), assume=(), via=None):
        """A witness path start -> goal avoiding *avoid* that is not ruled out by the tests on LOCAL NAMES it passes
        (`idx is None` false then `idx is not None` false without an assignment to idx in between is no path); None if there
        is none.  The shortest candidate is tried first; only when it is contradictory are other simple paths enumerated
        (bounded: if the bound is hit the candidate is returned, i.e. the answer errs on the side of reporting)."""
        goals = set(goal) if isinstance(goal, (set, list, tuple, frozenset)) else {goal}
        if assume and not isinstance(start, (set, list, tuple, frozenset)):
            assume = list(assume) + self.flag_facts_at(start, set(a for a, v, nm in assume))
        if via is not None:
            q = self._path_dfs(start, goals, set(avoid), skip_labels, include_start, set(avoid_edges), assume=assume, via=set(via))
            return None if q == 'limit' else q
        p = self._path_bfs(start, goal, avoid, skip_labels, include_start, avoid_edges)
        if p is None or _feasible(p, assume):
            return p
        q = self._path_dfs(start, goals, set(avoid), skip_labels, include_start, set(avoid_edges), assume=assume)
        return p if q == 'limit' else q

    def flag_facts_at(self, node, have=()):
        """[(name, truth value, {name})] for locals that hold a constant flag value (True / False / None / 0 / 1) whenever *node* is
        reached: the assignment dominates the node and no other assignment to the name can be passed on the way from it"""
        if not hasattr(self, '_flagdefs'):
            d = {}
            for n in self.nodes:
                if n.ast is None or n.kind not in ('stmt', 'for', 'with', 'except'):
                    continue
                root = n.ast if n.kind == 'stmt' else (n.ast.target if n.kind == 'for' else n.ast)
                if n.kind == 'stmt' and isinstance(n.ast, (ast.FunctionDef, ast.AsyncFunctionDef, ast.ClassDef)):
                    continue
                for x in ast.walk(root):
                    if isinstance(x, ast.Name) and isinstance(x.ctx, (ast.Store, ast.Del)):
                        d.setdefault(x.id, []).append(n)
            self._flagdefs = d
        out = []
        for name, ds in self._flagdefs.items():
            if name in have:
                continue
            for d in ds:
                a = d.ast
                if not (d.kind == 'stmt' and isinstance(a, ast.Assign) and len(a.targets) == 1 and isinstance(a.targets[0], ast.Name)
                        and isinstance(a.value, ast.Constant) and (a.value.value is None or isinstance(a.value.value, (bool, int)))):
                    continue
                if d is node or self._path_bfs(self.entry, {node}, {d}, ('exc',), True, ()) is not None:
                    continue          # does not dominate
                if any(o is not d and (o is node or self._path_bfs(o, {node}, {d}, ('exc',), False, ()) is not None) for o in ds):
                    continue          # another binding may come in between
                out.append((name, bool(a.value.value), {name}))
                break
        return out

    def _path_dfs(self, start, goals, avoid, skip_labels, include_start, avoid_edges, limit=60000, assume=(), via=None):
        """shortest feasible path by breadth-first search over (node, facts about local names) pairs"""
        from collections import deque
        if include_start and start in goals:
            return [start]
        f0 = _State(assume)
        first = True
        seen = set()
        dq = deque()
        dq.append((start, f0, None, via is None or start in via))
        steps = 0
        while dq:
            item = dq.popleft()
            n, st, _prev, passed = item
            steps += 1
            if steps > limit:
                return 'limit'
            if passed and (n in goals and not (first and not include_start) and item[2] is not None or (n in goals and include_start and item[2] is None)):
                out = []
                cur = item
                while cur is not None:
                    out.append(cur[0])
                    cur = cur[2]
                return list(reversed(out))
            for t, l in n.succ:
                if l in skip_labels or (n, l) in avoid_edges or (t in avoid and t not in goals) or (t in avoid):
                    continue
                st2 = st.step(n, t, l, is_start=(item[2] is None))
                if st2 is None:
                    continue
                p2_ = passed or (via is not None and t in via)
                key = (t.id, st2.key(), p2_)
                if key in seen:
                    continue
                seen.add(key)
                dq.append((t, st2, item, p2_))
            first = False
        return None

    def _path_bfs(self, start, goal, avoid=(), skip_labels=(), include_start=True, avoid_edges=()):
        """A shortest witness path start -> goal (goal: node or set) avoiding
        *avoid*; None if there is none.  With include_start=False the path has
        at least one edge (start itself is neither tested against the goals nor
        against *avoid*)."""
        goals = set(goal) if isinstance(goal, (set, list, tuple, frozenset)) else {goal}
        avoid = set(avoid)
        from collections import deque
        prev = {}
        dq = deque()
        avoid_edges = set(avoid_edges)

        def nxt(n):
            return [t for t, l in n.succ if l not in skip_labels and (n, l) not in avoid_edges]
        init = [start] if include_start else nxt(start)
        for t in init:
            if t not in avoid and t not in prev:
                prev[t] = None
                dq.append(t)
        while dq:
            n = dq.popleft()
            if n in goals:
                out = [n]
                while prev[out[-1]] is not None:
                    out.append(prev[out[-1]])
                if not include_start:
                    out.append(start)
                return list(reversed(out))
            for t in nxt(n):
                if t not in prev and t not in avoid:
                    prev[t] = n
                    dq.append(t)
        return None

    def must_pass(self, start, goals, through, skip_labels=(), include_start=False, through_edges=()):
        """True iff every path from *start* to any node of *goals* enters a node
        of *through*.  Returns (ok, witness_path)."""
        goals = set(goals) - set(through)
        p = self.path(start, goals, avoid=through, skip_labels=skip_labels,
                      include_start=include_start, avoid_edges=through_edges)
        return (p is None), p

    def dominated_by(self, node, doms, skip_labels=('exc',)):
        """True iff every path entry -> node passes through a node in *doms*."""
        if node in doms:
            return True, None
        p = self.path(self.entry, {node}, avoid=doms, skip_labels=skip_labels)
        return (p is None), p

    def occurrences(self, pred, start=None, goals=None, skip_labels=('exc',)):
        """(min, max) number of nodes satisfying *pred* on any path from *start*
        (default entry) to *goals* (default: normal exit).  max is None when a
        matching node lies on a cycle of such a path (unbounded)."""
        start = start or self.entry
        goals = set(goals) if goals is not None else {self.exit}
        # goals are sinks: a path ends when it first reaches a goal
        fwd = set()
        stack0 = [start]
        fwd.add(start)
        while stack0:
            n0 = stack0.pop()
            if n0 in goals and n0 is not start:
                continue
            for s0, l0 in n0.succ:
                if l0 in skip_labels or s0 in fwd:
                    continue
                fwd.add(s0)
                stack0.append(s0)
        # backward reachability
        back = set()
        stack = [g for g in goals if g in fwd]
        back.update(stack)
        while stack:
            n = stack.pop()
            for p, l in n.pred:
                if l in skip_labels:
                    continue
                if p in goals and p is not start:
                    continue
                if p not in back and p in fwd:
                    back.add(p)
                    stack.append(p)
        region = fwd & back
        if not region or start not in region:
            return None, None
        # SCCs (Tarjan, iterative)
        index = {}
        low = {}
        onst = set()
        st = []
        comp = {}
        comps = []
        counter = [0]

        def succ_r(n):
            if n in goals and n is not start:
                return []
            return [s for s, l in n.succ if l not in skip_labels and s in region]
        for root in region:
            if root in index:
                continue
            work = [(root, iter(succ_r(root)))]
            index[root] = low[root] = counter[0]
            counter[0] += 1
            st.append(root)
            onst.add(root)
            while work:
                n, it = work[-1]
                adv = False
                for s in it:
                    if s not in index:
                        index[s] = low[s] = counter[0]
                        counter[0] += 1
                        st.append(s)
                        onst.add(s)
                        work.append((s, iter(succ_r(s))))
                        adv = True
                        break
                    elif s in onst:
                        low[n] = min(low[n], index[s])
                if adv:
                    continue
                work.pop()
                if work:
                    low[work[-1][0]] = min(low[work[-1][0]], low[n])
                if low[n] == index[n]:
                    c = []
                    while True:
                        x = st.pop()
                        onst.discard(x)
                        comp[x] = len(comps)
                        c.append(x)
                        if x is n:
                            break
                    comps.append(c)
        unbounded = False
        weight = []
        for c in comps:
            w = sum(1 for x in c if pred(x))
            cyclic = len(c) > 1 or any(s is c[0] for s in succ_r(c[0]))
            if cyclic and w:
                unbounded = True
            weight.append(w)
        # DAG DP over components in reverse topological order (Tarjan emits
        # components in reverse topological order already)
        INF = float('inf')
        mn = [INF] * len(comps)
        mx = [-INF] * len(comps)
        goalc = set(comp[g] for g in goals if g in region)
        for ci, c in enumerate(comps):
            best_mn, best_mx = (0, 0) if ci in goalc else (INF, -INF)
            for x in c:
                for s in succ_r(x):
                    cj = comp[s]
                    if cj == ci:
                        continue
                    if mn[cj] < best_mn:
                        best_mn = mn[cj]
                    if mx[cj] > best_mx:
                        best_mx = mx[cj]
            if ci in goalc:
                # a goal component may also continue (goal inside a loop); min stays 0+w
                pass
            if best_mn is not INF:
                mn[ci] = best_mn + weight[ci]
                mx[ci] = best_mx + weight[ci]
        sc = comp[start]
        if mn[sc] == INF:
            return None, None
        return int(mn[sc]), (None if unbounded else int(mx[sc]))

    def nodes_where(self, pred):
        live = self.live_nodes()
        return [n for n in self.nodes if n in live and pred(n)]

    def node_of_stmt(self, stmt):
        for n in self.nodes:
            if n.ast is stmt or n.stmt is stmt:
                return n
        return None

    def nodes_containing(self, astnode):
        """CFG nodes whose own expression/statement contains *astnode*."""
        out = []
        for n in self.nodes:
            if n.ast is None:
                continue
            root = n.ast
            if n.kind == 'for':
                roots = [root.iter, root.target]
            elif n.kind == 'with':
                roots = [i.context_expr for i in root.items] + \
                        [i.optional_vars for i in root.items if i.optional_vars is not None]
            elif n.kind == 'except':
                roots = [root.type] if root.type is not None else []
            else:
                roots = [root]
            for r in roots:
                for x in ast.walk(r):
                    if x is astnode:
                        out.append(n)
                        break
        return out

    def node_for(self, astnode):
        ns = self.nodes_containing(astnode)
        return ns[0] if ns else None

    def describe_path(self, path, limit=12):
        if not path:
            return ''
        items = []
        for n in path:
            if n.kind in ('entry', 'exit', 'raise', 'join'):
                items.append(n.kind)
            else:
                items.append('L%d' % n.lineno)
        if len(items) > limit:
            items = items[:limit // 2] + ['...'] + items[-limit // 2:]
        return ' -> '.join(items)


class _Ctx(object):
    def __init__(self):
        self.loops = []       # (continue_target, break_target, try_depth)
        self.tries = []       # frames


class _TryFrame(object):
    def __init__(self, handlers, catch_all, fin_entry):
        self.handlers = handlers      # list of handler entry nodes
        self.catch_all = catch_all
        self.fin_entry = fin_entry    # join node or None
        self.fin_targets = []         # (target node, label) requested through finally
        self.in_body = True           # exc edges go to handlers only while in the body


def _is_catch_all(h):
    if h.type is None:
        return True
    names = []
    t = h.type
    elts = t.elts if isinstance(t, ast.Tuple) else [t]
    for e in elts:
        names.append(src(e))
    return any(n in ('Exception', 'BaseException') for n in names)


def _const_true(test):
    return isinstance(test, ast.Constant) and bool(test.value) is True and test.value is not None


class _Builder(object):
    def __init__(self, fi):
        self.fi = fi
        self.g = CFG(fi)
        self.ctx = _Ctx()

    def build(self):
        g = self.g
        tails = self.body(self.fi.node.body, [(g.entry, 'next')])
        for t, l in tails:
            g.edge(t, g.exit, l)
        return g

    # tails: list of (node, label) whose next edge is still dangling
    def connect(self, tails, node):
        for t, l in tails:
            self.g.edge(t, node, l)

    def body(self, stmts, tails):
        for st in stmts:
            if not tails:
                break    # unreachable code after return/raise/continue
            tails = self.stmt(st, tails)
        return tails

    # ---- exceptional continuation
    def exc_targets(self, explicit):
        """Where an exception raised here can go: [(node,label)] walking the
        try stack outwards; stops at a catch-all; passes through finally."""
        label = 'raise' if explicit else 'exc'
        out = []
        frames = list(reversed(self.ctx.tries))
        for i, fr in enumerate(frames):
            if fr.in_body and fr.handlers:
                for h in fr.handlers:
                    out.append((h, label))
                if fr.catch_all:
                    return out
            if fr.fin_entry is not None:
                out.append((fr.fin_entry, label))
                # after the finally the exception continues outwards
                rest = self._outer_exc(frames[i + 1:], label)
                for t in rest:
                    if t not in fr.fin_targets:
                        fr.fin_targets.append(t)
                return out
        out.append((self.g.raise_exit, label))
        return out

    def _outer_exc(self, frames, label):
        out = []
        for i, fr in enumerate(frames):
            if fr.in_body and fr.handlers:
                for h in fr.handlers:
                    out.append((h, label))
                if fr.catch_all:
                    return out
            if fr.fin_entry is not None:
                out.append((fr.fin_entry, label))
                rest = self._outer_exc(frames[i + 1:], label)
                for t in rest:
                    if t not in fr.fin_targets:
                        fr.fin_targets.append(t)
                return out
        out.append((self.g.raise_exit, label))
        return out

    def jump_through_finally(self, node, label, target, depth=0):
        """Edge node -> target for return/break/continue, routed through the
        finally blocks of the try frames above *depth* (innermost first)."""
        frames = [fr for fr in reversed(self.ctx.tries[depth:]) if fr.fin_entry is not None]
        if not frames:
            self.g.edge(node, target, label)
            return
        self.g.edge(node, frames[0].fin_entry, label)
        for i, fr in enumerate(frames):
            nxt = frames[i + 1].fin_entry if i + 1 < len(frames) else target
            t = (nxt, label)
            if t not in fr.fin_targets:
                fr.fin_targets.append(t)

    def may_raise(self, st):
        return not isinstance(st, (ast.Pass, ast.Break, ast.Continue, ast.Global, ast.Nonlocal))

    def add_exc(self, node, st):
        if self.ctx.tries and self.may_raise(st):
            if any((fr.in_body and fr.handlers) or fr.fin_entry is not None for fr in self.ctx.tries):
                for t, l in self.exc_targets(False):
                    self.g.edge(node, t, l)

    # ---- statements
    def stmt(self, st, tails):
        g = self.g
        if isinstance(st, (ast.If,)):
            t = g.new('test', st.test, st)
            self.connect(tails, t)
            self.add_exc(t, st)
            bt = self.body(st.body, [(t, 'true')])
            if st.orelse:
                bf = self.body(st.orelse, [(t, 'false')])
            else:
                bf = [(t, 'false')]
            return bt + bf
        if isinstance(st, ast.While):
            t = g.new('test', st.test, st)
            self.connect(tails, t)
            self.add_exc(t, st)
            after = g.new('join', None, st)
            self.ctx.loops.append((t, after, len(self.ctx.tries)))
            bt = self.body(st.body, [(t, 'true')])
            self.ctx.loops.pop()
            for x, l in bt:
                g.edge(x, t, 'loop' if l == 'next' else l)
            out = []
            if not _const_true(st.test):
                if st.orelse:
                    out = self.body(st.orelse, [(t, 'false')])
                else:
                    out = [(t, 'false')]
            if after.pred:
                out.append((after, 'next'))
            return out
        if isinstance(st, (ast.For, ast.AsyncFor)):
            t = g.new('for', st, st)
            self.connect(tails, t)
            self.add_exc(t, st)
            after = g.new('join', None, st)
            self.ctx.loops.append((t, after, len(self.ctx.tries)))
            bt = self.body(st.body, [(t, 'true')])
            self.ctx.loops.pop()
            for x, l in bt:
                g.edge(x, t, 'loop' if l == 'next' else l)
            if st.orelse:
                out = self.body(st.orelse, [(t, 'false')])
            else:
                out = [(t, 'false')]
            if after.pred:
                out.append((after, 'next'))
            return out
        if isinstance(st, (ast.With, ast.AsyncWith)):
            w = g.new('with', st, st)
            self.connect(tails, w)
            self.add_exc(w, st)
            return self.body(st.body, [(w, 'next')])
        if isinstance(st, ast.Try) or st.__class__.__name__ == 'TryStar':
            return self.try_(st, tails)
        if isinstance(st, ast.Return):
            n = g.new('stmt', st)
            self.connect(tails, n)
            self.add_exc(n, st)
            self.jump_through_finally(n, 'return', g.exit)
            return []
        if isinstance(st, ast.Raise):
            n = g.new('stmt', st)
            self.connect(tails, n)
            for t, l in self.exc_targets(True):
                g.edge(n, t, l)
            return []
        if isinstance(st, ast.Break):
            n = g.new('stmt', st)
            self.connect(tails, n)
            if not self.ctx.loops:
                return []
            _, brk, depth = self.ctx.loops[-1]
            self.jump_through_finally(n, 'break', brk, depth)
            return []
        if isinstance(st, ast.Continue):
            n = g.new('stmt', st)
            self.connect(tails, n)
            if not self.ctx.loops:
                return []
            cont, _, depth = self.ctx.loops[-1]
            self.jump_through_finally(n, 'continue', cont, depth)
            return []
        # simple statements and nested definitions
        n = g.new('stmt', st)
        self.connect(tails, n)
        if not isinstance(st, (ast.FunctionDef, ast.AsyncFunctionDef, ast.ClassDef)):
            self.add_exc(n, st)
        if self.is_noreturn_call(st):
            for t, l in self.exc_targets(True):
                g.edge(n, t, 'raise')
            return []
        return [(n, 'next')]

    def is_noreturn_call(self, st):
        if not (isinstance(st, ast.Expr) and isinstance(st.value, ast.Call)):
            return False
        f = st.value.func
        if isinstance(f, ast.Attribute) and isinstance(f.value, ast.Name) and f.value.id == 'self':
            repo = getattr(self.fi, 'repo', None)
            return repo is not None and f.attr in repo.noreturn_names()
        return False

    def try_(self, st, tails):
        g = self.g
        handlers = [g.new('except', h, st) for h in st.handlers]
        catch_all = any(_is_catch_all(h) for h in st.handlers)
        fin_entry = g.new('join', None, st) if st.finalbody else None
        fr = _TryFrame(handlers, catch_all, fin_entry)
        self.ctx.tries.append(fr)
        bt = self.body(st.body, tails)
        fr.in_body = False
        if st.orelse:
            bt = self.body(st.orelse, bt)
        outs = list(bt)
        for hn, h in zip(handlers, st.handlers):
            ht = self.body(h.body, [(hn, 'next')])
            outs.extend(ht)
        self.ctx.tries.pop()
        if fin_entry is None:
            return outs
        # normal completion enters the finally block
        for t, l in outs:
            g.edge(t, fin_entry, l)
        ft = self.body(st.finalbody, [(fin_entry, 'next')])
        # continuations requested through the finally (return / exceptions /
        # break / continue): chain outwards
        for target, label in fr.fin_targets:
            for t, l in ft:
                g.edge(t, target, label)
        # normal continuation only if the try could complete normally
        if outs:
            return ft
        return []


def build_cfg(fi):
    b = _Builder(fi)
    g = b.build()
    # mark handler membership
    return g

"""C10 Lifecycle safety."""
import ast

from ..astx import (calls_in, dotted, norm, src, iter_nodes, assigned_targets, assigned_names,
                    const_value, is_const, parent_chain)
from ..lib import (call_arg, relation, truth, other, cmp_views, core, holds_region, conditions, found_test, found_tests, path_tests, entails_empty, paths_entail_empty, eval_conditions, relation_tests, atom_key, expand_condition, mode_mismatch_conditions, cfg_nodes_with_call, node_calls, returns, raises, stmt_assigns_attr, callee_last,
                   is_name, is_self_attr, node_roots, guard_region, compare_parts, find_test_nodes)
from ..lib import *      # noqa: F401,F403  (path-condition helpers)
from ..linear import ctext
from ..loader import AnalysisError

EXPLANATION = (
    "Static analysis of the lifecycle code: (D1) close typestate per transport -- the release of the descriptor "
    "(os.close / socket.close / ptyprocess.close(force=<the parameter>)) is dominated by the already-closed early "
    "return (fd/socket), followed on the normal path by child_fd = -1 and closed = True, and for the pty by the "
    "isalive() refresh; (D2) reads raise ValueError on a closed object before any descriptor use and every descriptor "
    "use in the package reads self.child_fd at the time of use (never a cached copy); (D3) os.kill is reached only "
    "on the true edge of self.isalive(); (D4) terminate(): every return True is guarded by not self.isalive(), the "
    "signals go out as HUP, CONT, INT, SIGKILL is sent exactly when force is true, each signal is followed by a "
    "liveness re-check, the OSError handler decides by a liveness check too; (D5) __exit__ calls close(), every "
    "ptyprocess isalive/wait/close call sits inside `with _wrap_ptyprocess_err()`, which converts PtyProcessError to "
    "ExceptionPexpect. NOT decided: zombies / descriptor counts, stopped children, pid reuse (runtime).")
TRUSTED = ["os.close releases the descriptor; ptyprocess.close(force=True) terminates the child", "sa/ engine"]
ASSUMPTIONS = []
LEVEL_TEXT = ("Static analysis of named structural clauses of the lifecycle: close typestate (dominators / post-state) for "
              "the three transports, closed-check-first and uncached descriptor use, kill guarded by liveness, terminate's "
              "return/signal discipline on all CFG paths, context-manager and error-wrapping rules.")
LEVEL_NOTE = "Trusted: OS / ptyprocess release semantics; analyser. Not decided: leak counts, zombies, stopped children."
TECHNIQUE = "typestate / dominator queries on the CFG (static analysis)"


def run(R):
    repo = R.repo
    with R.clause('D1', 'TYPESTATE', floor=10, desc='close(): guarded release, then child_fd = -1 and closed = True') as c:
        check_fd_close(c, repo.func('fdpexpect:fdspawn.close'), lambda k: dotted(k.func) == 'os.close')
        check_fd_close(c, repo.func('socket_pexpect:SocketSpawn.close'), lambda k: callee_last(k) == 'close' and (dotted(k.func.value) or '').endswith('socket'))
        check_pty_close(c, repo.func('pty_spawn:spawn.close'))
    with R.clause('D2', 'ORDER', floor=8, desc='closed objects refuse I/O; descriptor uses read self.child_fd at the time of use') as c:
        check_fd_uses(c, repo)
    with R.clause('D6', 'ALIVE', floor=4, desc='fd / socket isalive(): closed -> False, valid descriptor -> True') as c:
        f = repo.func('fdpexpect:fdspawn.isalive')
        g = f.cfg
        t0 = [t for t in g.nodes if t.kind == 'test' and norm(t.ast) == 'self.child_fd == -1']
        r0 = [r for t in t0 for r in guard_region(g, t, 'true') if r.kind == 'stmt' and isinstance(r.ast, ast.Return) and is_const(r.ast.value, False)]
        c.check(len(t0) == 1 and len(r0) == 1, f, t0[0].ast if t0 else None, 'a closed fdspawn is never reported alive', kind='path', tag='fd-closed-false')
        trs = [t for t in iter_nodes(f.node) if isinstance(t, ast.Try)]
        fs = cfg_nodes_with_call(f, lambda k: dotted(k.func) == 'os.fstat' and k.args and norm(k.args[0]) == 'self.child_fd')
        rt = set(r for r in returns(f) if is_const(r.ast.value, True))
        rf = set(r for r in returns(f) if is_const(r.ast.value, False))
        ok = len(fs) == 1 and bool(rt) and bool(rf) and len(returns(f)) == len(rt) + len(rf)
        if ok:
            fn_ = fs[0][0]
            # True only after fstat returned normally; an exception from fstat can only end in False
            ok = all(g.dominated_by(r, {fn_}, skip_labels=('exc',))[0] for r in rt)
            exc_t = [s_ for s_, l_ in fn_.succ if l_ == 'exc']
            ok = ok and bool(exc_t) and all(g.path(s_, rt | {g.raise_exit}, skip_labels=()) is None for s_ in exc_t)
        c.check(ok, f, trs[0] if trs else None, 'alive iff os.fstat(self.child_fd) succeeds', kind='path', tag='fd-fstat')
        if fs:
            c.check(bool(t0) and g.dominated_by(fs[0][0], {t0[0]})[0], f, fs[0][1], 'the closed test comes first', tag='fd-order')
        f = repo.func('socket_pexpect:SocketSpawn.isalive')
        rr = returns(f)
        gs = f.cfg
        neg = ('self.socket.fileno() < 0', True)
        okt = [r for r in rr if is_const(r.ast.value, True) and conditions(gs, r) == {(neg[0], False)}]
        okf = [r for r in rr if is_const(r.ast.value, False) and conditions(gs, r) == {neg}]
        c.check(len(rr) == 2 and len(okt) == 1 and len(okf) == 1, f, rr[0].ast if rr else None,
                'a socket is alive iff its descriptor is valid (closed sockets report -1)',
                witness=str([(norm(r.ast.value), sorted(conditions(gs, r))) for r in rr]), kind='path', tag='socket-alive')
    with R.clause('D3', 'ORDER', floor=1, desc='kill() signals only a child it believes alive') as c:
        f = repo.func('pty_spawn:spawn.kill')
        g = f.cfg
        ks = cfg_nodes_with_call(f, lambda k: dotted(k.func) == 'os.kill')
        c.need(len(ks) == 1, 'spawn.kill: os.kill not found')
        n, k = ks[0]
        tests = [t for t in g.nodes if t.kind == 'test' and norm(t.ast) in ('self.isalive()', 'not self.isalive()')]
        ok = False
        for t in tests:
            edge = 'true' if norm(t.ast) == 'self.isalive()' else 'false'
            if n in guard_region(g, t, edge):
                ok = True
        c.check(ok, f, k, 'os.kill is reached only when isalive() just answered True', tag='kill-guard')
        c.check(len(k.args) == 2 and norm(k.args[0]) == 'self.pid' and is_name(k.args[1], f.params[1]), f, k,
                'the signal goes to the child\'s pid, and it is the requested signal', witness=norm(k), kind='ast', tag='kill-args')
    with R.clause('D4', 'TERMINATE', floor=12, desc='terminate(): True only after a liveness check said dead; HUP, CONT, INT, (KILL iff force)') as c:
        check_terminate(c, repo.func('pty_spawn:spawn.terminate'))
    with R.clause('D5', 'WRAP', floor=6, desc='__exit__ closes; ptyprocess calls are wrapped; errors converted to ExceptionPexpect') as c:
        f = repo.func('spawnbase:SpawnBase.__exit__')
        g = f.cfg
        ks = cfg_nodes_with_call(f, lambda k: callee_last(k) == 'close' and ctext(k.func.value, f) == 'self')
        mn, mx = g.occurrences(lambda n: n in set(x for x, _ in ks))
        c.check(mn == 1 and mx == 1, f, ks[0][1] if ks else None, 'leaving the with-block calls close() exactly once on every path', witness='min=%s max=%s' % (mn, mx), tag='exit-closes')
        rets = [r for r in returns(f) if r.ast.value is not None and not is_const(r.ast.value, None) and not is_const(r.ast.value, False)]
        c.check(not rets, f, rets[0].ast if rets else None, '__exit__ does not swallow the exception that ended the block', kind='ast', tag='exit-no-swallow')
        nw = 0
        for fn in repo.package_funcs():
            for k in calls_in(fn.node):
                if isinstance(k.func, ast.Attribute) and k.func.attr in ('isalive', 'wait', 'close') and (ctext(k.func.value, fn, stale_ok=True) or '').endswith('ptyproc'):
                    nw += 1
                    ws = [p for p in parent_chain(k) if isinstance(p, ast.With) and any(
                        isinstance(i.context_expr, ast.Call) and callee_last(i.context_expr) == '_wrap_ptyprocess_err' for i in p.items)]
                    c.check(bool(ws), fn, k, 'ptyprocess.%s() runs inside `with _wrap_ptyprocess_err()`' % k.func.attr, kind='ast', tag='wrapped:' + fn.qual)
        c.need(nw >= 3, 'expected >= 3 wrapped ptyprocess calls')
        w = repo.func('pty_spawn:_wrap_ptyprocess_err')
        hs = [h for h in iter_nodes(w.node) if isinstance(h, ast.ExceptHandler)]
        ok = len(hs) == 1 and 'PtyProcessError' in norm(hs[0].type) and any(isinstance(s, ast.Raise) and s.exc is not None and
                                                                           'ExceptionPexpect' in norm(s.exc) for s in hs[0].body)
        c.check(ok, w, hs[0] if hs else None, 'PtyProcessError is re-raised as ExceptionPexpect', kind='ast', tag='convert')


def check_fd_close(c, f, is_release):
    g = f.cfg
    rel = cfg_nodes_with_call(f, is_release)
    c.need(len(rel) == 1, '%s: release call not found' % f.qual)
    rn, rk = rel[0]
    tests = [t for t in g.nodes if t.kind == 'test' and norm(t.ast) in ('self.child_fd == -1', 'self.closed', 'self.child_fd < 0')]
    if not tests:
        c.bad(f, rk, 'close() has no already-closed test: a second close() releases the descriptor number again '
              '(which may by then belong to something else)', tag='idempotent')
    else:
        t = tests[0]
        early = [n for n in guard_region(g, t, 'true') if n.kind == 'stmt' and isinstance(n.ast, ast.Return)]
        ok = bool(early) and rn not in guard_region(g, t, 'true') and g.dominated_by(rn, {t})[0]
        c.check(ok, f, t.ast, 'a second close() returns early: the descriptor is released at most once', tag='idempotent')
    # after the release: child_fd = -1 and closed = True on every normal path
    for attr, val in (('child_fd', -1), ('closed', True)):
        asg = [n for n in g.nodes if n.kind == 'stmt' and stmt_assigns_attr(n.ast, attr) is not None and is_const(n.ast.value, val)]
        ok, p = g.must_pass(rn, {g.exit}, set(asg), skip_labels=('exc',))
        c.check(bool(asg) and ok, f, asg[0].ast if asg else rk, 'after the release self.%s = %r on every path to the return' % (attr, val),
                witness=g.describe_path(p) if p else 'assignment missing', tag='post:' + attr)
        # not before the release (a failed release must leave the object open -- and the fd known)
        pre = [n for n in asg if g.path(n, rn, skip_labels=('exc',)) is not None]
        c.check(not pre, f, pre[0].ast if pre else rk, 'self.%s is reset only after the release' % attr, tag='order:' + attr)
        # and never WITHOUT the release: the object must not claim to be closed while the descriptor is still open
        for a_ in asg:
            okr, p2 = g.dominated_by(a_, {rn})
            c.check(okr, f, a_.ast, 'self.%s is reset only on paths that really released the descriptor (otherwise the descriptor leaks and '
                    'later I/O still reaches the peer)' % attr, witness=g.describe_path(p2) if p2 else None, tag='released-before:' + attr)
    # what is released is self.child_fd / self.socket
    if dotted(rk.func) == 'os.close':
        c.check(rk.args and norm(rk.args[0]) == 'self.child_fd', f, rk, 'the descriptor released is self.child_fd', witness=norm(rk), kind='ast', tag='release-arg')


def check_pty_close(c, f):
    g = f.cfg
    cl = cfg_nodes_with_call(f, lambda k: callee_last(k) == 'close' and (ctext(k.func.value, f, stale_ok=True) or '').endswith('ptyproc'))
    c.need(len(cl) == 1, 'spawn.close: ptyproc.close() not found')
    n, k = cl[0]
    fa = [kw for kw in k.keywords if kw.arg == 'force']
    okf = (fa and is_name(fa[0].value, 'force')) or (k.args and is_name(k.args[0], 'force'))
    c.check(bool(okf), f, k, 'the force argument is forwarded to ptyprocess.close (force=True must really kill)', witness=norm(k), kind='ast', tag='force-forwarded')
    d = f.param_default('force')
    c.check(is_const(d, True), f, f.node, 'close() forces by default', kind='ast', tag='force-default')
    for attr, val in (('child_fd', -1), ('closed', True)):
        asg = [m for m in g.nodes if m.kind == 'stmt' and stmt_assigns_attr(m.ast, attr) is not None and is_const(m.ast.value, val)]
        ok, p = g.must_pass(n, {g.exit}, set(asg), skip_labels=('exc',))
        pre = [m for m in asg if g.path(m, n, skip_labels=('exc',)) is not None]
        c.check(bool(asg) and ok and not pre, f, asg[0].ast if asg else k, 'after ptyprocess.close(): self.%s = %r, on every path, not before' % (attr, val),
                witness=g.describe_path(p) if p else None, tag='post:' + attr)
    mn, mx = g.occurrences(lambda x: x is n)
    # the one way round the call that changes nothing: `if self.closed: return` (closed is True only after a close that returned
    # normally -- the obligations above and below -- or before anything was spawned); any other test leaves the path counted
    done_edges = set()
    for t in g.nodes:
        if t.kind == 'test':
            e_, neg = t.ast, False
            while isinstance(e_, ast.UnaryOp) and isinstance(e_.op, ast.Not):
                neg = not neg
                e_ = e_.operand
            if norm(e_) == 'self.closed':
                done_edges.add((t, 'false' if neg else 'true'))
    skip = g.path(g.entry, {g.exit}, avoid={n}, skip_labels=('exc',), avoid_edges=done_edges)
    c.check(skip is None and mx == 1, f, k, 'ptyprocess.close() is called on every path, once (idempotence is ptyprocess\' own; an object that is already '
            'closed may return at once)', witness=('min=%s max=%s' % (mn, mx)) + ('; path: ' + g.describe_path(skip) if skip else ''), tag='always-closes')
    # a close that FAILED (PtyProcessError: child survived the polite signals) must not mark the object closed:
    # no assignment of closed/child_fd may be reachable from the exceptional continuation of the close call
    marks = [m for m in g.nodes if m.kind == 'stmt' and (stmt_assigns_attr(m.ast, 'closed') is not None or stmt_assigns_attr(m.ast, 'child_fd') is not None)]
    exc_succ = [s2 for s2, l2 in n.succ if l2 in ('exc', 'raise')]
    wn = [x for x in g.nodes if x.kind == 'with' and any(n is y for y in g.reachable(x, skip_labels=('exc',)))]
    # (a feasible path: a flag set only after the close returned -- `collected = True` -- keeps the marks out of reach of the failure path)
    normal_out = set((n, l2) for s2, l2 in n.succ if l2 not in ('exc', 'raise'))
    bad = [m for m in marks if exc_succ and g.path(g.entry, {m}, avoid_edges=normal_out, via={n}) is not None]
    c.check(not bad, f, bad[0].ast if bad else k, 'when ptyprocess.close() raises (the child could not be terminated) the object is NOT marked closed, '
            'so a later close(force=True) or the with-block exit still acts on the child', tag='failed-close-stays-open')


FD_PRIMS = ('os.read', 'os.write', 'os.close', 'os.isatty', 'os.fstat')


def from_params_only(f, name, _seen=None):
    """the local is a parameter, or is computed only from parameters (never from an attribute of self: that would be a remembered copy)"""
    seen = _seen or set()
    if name in seen:
        return True
    seen.add(name)
    defs = [n for n in iter_nodes(f.node) if isinstance(n, (ast.Assign, ast.AugAssign)) and name in assigned_names(n)]
    if name in f.params and not defs:
        return True
    if not defs and name not in f.params:
        return False
    for d in defs:
        for x in ast.walk(d.value):
            if isinstance(x, ast.Attribute) and isinstance(x.value, ast.Name) and x.value.id == 'self':
                return False
            if isinstance(x, ast.Name) and isinstance(x.ctx, ast.Load) and x.id not in ('self', name) and x.id not in f.params \
                    and x.id not in ('int', 'type', 'hasattr', 'isinstance', 'getattr') and not from_params_only(f, x.id, seen):
                return False
    return True


def check_fd_uses(c, repo):
    n = 0
    for f in repo.package_funcs():
        if f.cls is None or not repo.is_subclass(f.cls, 'SpawnBase') or f.cls.name == 'PopenSpawn':
            continue      # PopenSpawn talks through pipes of its Popen object, it has no child_fd
        for k in calls_in(f.node):
            d = dotted(k.func) or ''
            if d in FD_PRIMS and k.args:
                a = k.args[0]
                t = norm(a)
                if t in ('self.STDOUT_FILENO', 'self.STDIN_FILENO', 'self.STDERR_FILENO') or \
                        ctext(a, f) in ('self.STDOUT_FILENO', 'self.STDIN_FILENO', 'self.STDERR_FILENO'):
                    continue          # (also through a local that holds the constant)
                n += 1
                ok = t == 'self.child_fd' or (isinstance(a, ast.Name) and from_params_only(f, a.id))
                c.check(ok, f, k, '%s uses self.child_fd as it is now (after close() it is -1 and the call fails with EBADF instead of '
                        'touching whoever owns the old number)' % d, witness=t, kind='ast', tag='fd-current:%s:%s' % (f.qual, d))
            if callee_last(k) in ('select_ignore_interrupts', 'poll_ignore_interrupts') and k.args:
                lst = k.args[0]
                if isinstance(lst, ast.Name):
                    # a local list: look at the list literals it is bound to in this function
                    lits = [st.value for st in iter_nodes(f.node) if isinstance(st, ast.Assign) and lst.id in assigned_names(st) and isinstance(st.value, ast.List)]
                    names = [norm(x) for l in lits for x in l.elts] or ['<unknown list %s>' % lst.id]
                else:
                    names = [norm(x) for x in (lst.elts if isinstance(lst, ast.List) else [lst])]
                n += 1
                ok = all(x in ('self.child_fd', 'self.STDIN_FILENO') for x in names)
                c.check(ok, f, k, 'readiness waits watch self.child_fd as it is now', witness=str(names), kind='ast', tag='fd-current:%s:wait' % f.qual)
    # child_fd written only by constructors, _spawn, close
    for f in repo.package_funcs():
        if f.cls is None or not repo.is_subclass(f.cls, 'SpawnBase'):
            continue
        for st in iter_nodes(f.node):
            if isinstance(st, ast.Assign) and stmt_assigns_attr(st, 'child_fd') is not None:
                ok = f.name in ('__init__', '_spawn', 'close')
                c.check(ok, f, st, 'self.child_fd is assigned only by constructors / _spawn / close()', kind='ast', tag='fd-write:' + f.qual)
    c.need(n >= 7, 'expected >= 7 descriptor uses, found %d' % n)


def check_terminate(c, f):
    g = f.cfg
    dead_tests = [t for t in g.nodes if t.kind == 'test' and norm(t.ast) in ('not self.isalive()', 'self.isalive()')]
    c.need(len(dead_tests) >= 5, 'terminate: expected >= 5 liveness checks, found %d' % len(dead_tests))
    # a blocking wait for the child (returns only once it was reaped) is as good a verdict as `not self.isalive()`
    waits = [n for n, k in cfg_nodes_with_call(f, lambda k: callee_last(k) == 'wait' and ctext(k.func.value, f) in ('self', 'self.ptyproc'))]

    def after_wait(r):
        return any(g.dominated_by(r, {w})[0] and not any(
            g.path(w, kn, skip_labels=('exc',), include_start=False) is not None and g.path(kn, r, skip_labels=('exc',)) is not None
            for kn, _ in cfg_nodes_with_call(f, lambda k: callee_last(k) == 'kill')) for w in waits)
    for r in returns(f):
        v = r.ast.value
        if waits and is_const(v, True) and after_wait(r):
            c.ok(f, r.ast, 'return True after a blocking wait for the child', tag='true-after-wait@%s' % len(c.obs))
            continue
        # value must agree with the nearest liveness verdict
        near = [(t, e) for t in dead_tests for e in ('true', 'false') if r in guard_region(g, t, e, skip_labels=())]
        if near:
            t, e = max(near, key=lambda te: te[0].id)
            dead = (e == 'true') == norm(t.ast).startswith('not')
            c.check(is_const(v, dead), f, r.ast, 'the value returned agrees with the liveness check just made (%s -> %s)' % ('dead' if dead else 'still alive', dead),
                    witness='returns %s' % norm(v), tag='verdict@%s' % len(c.obs))
        if is_const(v, True):
            ok = False
            for t in dead_tests:
                edge = 'true' if norm(t.ast).startswith('not') else 'false'
                if r in guard_region(g, t, edge, skip_labels=()):
                    # and directly: no signal sent between the check and the return
                    ok = True
            c.check(ok, f, r.ast, 'return True only on the branch where isalive() just reported the child dead', tag='true-after-dead@%s' % len(c.obs))
        elif is_const(v, False):
            ok = False
            for t in dead_tests:
                edge = 'false' if norm(t.ast).startswith('not') else 'true'
                if r in guard_region(g, t, edge, skip_labels=()) or g.dominated_by(r, {t})[0]:
                    ok = True
            c.check(ok, f, r.ast, 'return False only after a liveness check', tag='false-after-check@%s' % len(c.obs))
        else:
            c.bad(f, r.ast, 'terminate() must return True or False', kind='ast', tag='ret-other')
    # signal order
    kills = cfg_nodes_with_call(f, lambda k: callee_last(k) == 'kill' and ctext(k.func.value, f) == 'self')
    sigs = [(n, norm(k.args[0]).split('.')[-1]) for n, k in kills if k.args]
    names = [s for n, s in sorted(sigs, key=lambda x: x[0].ast.lineno)]
    c.check(names == ['SIGHUP', 'SIGCONT', 'SIGINT', 'SIGKILL'], f, kills[0][1] if kills else None,
            'signals are sent as HUP, CONT, INT, then KILL', witness=str(names), kind='ast', tag='signal-sequence')
    by = dict((s, n) for n, s in sigs)
    for a, b in (('SIGHUP', 'SIGCONT'), ('SIGCONT', 'SIGINT'), ('SIGINT', 'SIGKILL')):
        if a in by and b in by:
            ok = g.dominated_by(by[b], {by[a]})[0]
            c.check(ok, f, by[b].ast, '%s is sent only after %s was tried' % (b, a), tag='order:%s' % b)
            # and a liveness re-check lies between them
            ok2, p = g.must_pass(by[a], {by[b]}, set(dead_tests), skip_labels=('exc',))
            c.check(ok2, f, by[b].ast, 'a liveness re-check separates %s from %s' % (a, b), witness=g.describe_path(p) if p else None, tag='recheck:%s' % b)
    if 'SIGKILL' in by:
        ft = [t for t in g.nodes if t.kind == 'test' and norm(core(t)) == 'force']
        ok = len(ft) == 1 and by['SIGKILL'] in holds_region(g, ft[0], True)
        c.check(ok, f, by['SIGKILL'].ast, 'SIGKILL is sent exactly when force is true', tag='kill-iff-force')
        if ok:
            # with force the KILL is on every path that got past INT alive
            fr = holds_region(g, ft[0], True)
            okm, p = g.must_pass(ft[0], set(n for n in fr if n.kind == 'stmt' and isinstance(n.ast, ast.Return)), {by['SIGKILL']},
                                 skip_labels=('exc', other(truth(ft[0].ast)[1])))
            c.check(okm, f, by['SIGKILL'].ast, 'with force every path sends SIGKILL before returning', witness=g.describe_path(p) if p else None, tag='force-kills')
            # after KILL a liveness check decides the result
            okr, p = g.must_pass(by['SIGKILL'], {g.exit}, set(dead_tests) | set(waits), skip_labels=('exc',))
            c.check(okr, f, by['SIGKILL'].ast, 'after SIGKILL the result is decided by a liveness check (or a blocking wait)', witness=g.describe_path(p) if p else None, tag='recheck-after-kill')
    # first statement: already dead -> True
    first = [t for t in dead_tests if g.dominated_by(by.get('SIGHUP', g.exit), {t})[0]] if 'SIGHUP' in by else []
    c.check(bool(first), f, first[0].ast if first else None, 'no signal is sent to a child that is already dead', tag='dead-first')
    # handler
    hs = [h for h in iter_nodes(f.node) if isinstance(h, ast.ExceptHandler)]
    for h in hs:
        body_calls = [callee_last(k) for s in h.body for k in calls_in(s)]
        c.check('isalive' in body_calls, f, h, 'the OSError handler decides by a fresh liveness check', kind='ast', tag='handler-check')


MUTANTS = [
    ('fd-close-no-reset', 'fdpexpect', "        os.close(self.child_fd)\n        self.child_fd = -1\n        self.closed = True", "        os.close(self.child_fd)\n        self.closed = True", 'D1'),
    ('fd-close-no-early', 'fdpexpect', "        if self.child_fd == -1:\n            return\n\n        self.flush()\n        os.close(self.child_fd)", "        self.flush()\n        os.close(self.child_fd)", 'D1'),
    ('socket-reset-before', 'socket_pexpect', "        self.socket.shutdown(socket.SHUT_RDWR)\n        self.socket.close()\n        self.child_fd = -1\n        self.closed = True", "        self.child_fd = -1\n        self.closed = True\n        self.socket.shutdown(socket.SHUT_RDWR)\n        self.socket.close()", 'D1'),
    ('socket-close-skipped-after-eof', 'socket_pexpect', "        self.socket.shutdown(socket.SHUT_RDWR)\n        self.socket.close()\n        self.child_fd = -1", "        if not self.flag_eof:\n            self.socket.shutdown(socket.SHUT_RDWR)\n            self.socket.close()\n        self.child_fd = -1", 'D1'),
    ('pty-close-marks-in-finally', 'pty_spawn', "        with _wrap_ptyprocess_err():\n            # PtyProcessError may be raised if it is not possible to terminate\n            # the child.\n            self.ptyproc.close(force=force)\n        self.isalive()  # Update exit status from ptyproc\n        self.child_fd = -1\n        self.closed = True",
     "        try:\n            with _wrap_ptyprocess_err():\n                self.ptyproc.close(force=force)\n            self.isalive()  # Update exit status from ptyproc\n        finally:\n            self.child_fd = -1\n            self.closed = True", 'D1'),
    ('fd-isalive-inverted', 'fdpexpect', "        if self.child_fd == -1:\n            return False\n        try:", "        if self.child_fd != -1:\n            return False\n        try:", 'D6'),
    ('pty-close-force-dropped', 'pty_spawn', "            self.ptyproc.close(force=force)", "            self.ptyproc.close(force=False)", 'D1'),
    ('pty-close-closed-only-if-dead', 'pty_spawn', "        self.isalive()  # Update exit status from ptyproc\n        self.child_fd = -1\n        self.closed = True", "        if not self.isalive():  # Update exit status from ptyproc\n            self.child_fd = -1\n        self.closed = True", 'D1'),
    ('read-cached-fd', 'spawnbase', "            s = os.read(self.child_fd, size)", "            s = os.read(self._fd_cache, size)", 'D2'),
    ('kill-unguarded', 'pty_spawn', "        if self.isalive():\n            os.kill(self.pid, sig)", "        os.kill(self.pid, sig)", 'D3'),
    ('terminate-true-unchecked', 'pty_spawn', "            self.kill(signal.SIGINT)\n            time.sleep(self.delayafterterminate)\n            if not self.isalive():\n                return True", "            self.kill(signal.SIGINT)\n            time.sleep(self.delayafterterminate)\n            if not force:\n                return True", 'D4'),
    ('terminate-dead-false', 'pty_spawn', "        if not self.isalive():\n            return True\n        try:", "        if not self.isalive():\n            return False\n        try:", 'D4'),
    ('terminate-kill-always', 'pty_spawn', "            if force:\n                self.kill(signal.SIGKILL)", "            if True:\n                self.kill(signal.SIGKILL)", 'D4'),
    ('terminate-skip-int', 'pty_spawn', "            self.kill(signal.SIGINT)\n            time.sleep(self.delayafterterminate)", "            time.sleep(self.delayafterterminate)", 'D4'),
    ('terminate-kill-waits', 'pty_spawn', "                self.kill(signal.SIGKILL)\n                time.sleep(self.delayafterterminate)\n                if not self.isalive():\n                    return True\n                else:\n                    return False", "                self.kill(signal.SIGKILL)\n                self.ptyproc.wait()\n                return True", 'D4'),
    ('exit-no-close', 'spawnbase', "        # clear what a context manager should do.\n        self.close()", "        # clear what a context manager should do.\n        if etype is None:\n            self.close()", 'D5'),
    ('isalive-unwrapped', 'pty_spawn', "        ptyproc = self.ptyproc\n        with _wrap_ptyprocess_err():\n            alive = ptyproc.isalive()", "        ptyproc = self.ptyproc\n        alive = ptyproc.isalive()", 'D5'),
    ('setecho-stale-fd', 'pty_spawn', "        return os.isatty(self.child_fd)", "        return os.isatty(self.ptyproc.fd)", 'D2'),
]
PRESERVING = [
    ('terminate-kill-then-wait', 'pty_spawn', "                self.kill(signal.SIGKILL)\n                time.sleep(self.delayafterterminate)\n                if not self.isalive():\n                    return True\n                else:\n                    return False",
     "                self.kill(signal.SIGKILL)\n                self.wait()\n                return True"),
    ('kill-guard-not', 'pty_spawn', "        if self.isalive():\n            os.kill(self.pid, sig)", "        if not self.isalive():\n            return\n        os.kill(self.pid, sig)"),
]

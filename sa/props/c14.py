"""C14 asyncio parity -- protocol conformance of the selected asyncio module."""
import ast

from ..astx import (calls_in, dotted, norm, src, iter_nodes, assigned_targets, assigned_names,
                    const_value, is_const, parent_chain)
from ..lib import (call_arg, relation, truth, other, cmp_views, core, holds_region, conditions, found_test, found_tests, path_tests, entails_empty, paths_entail_empty, eval_conditions, relation_tests, atom_key, expand_condition, mode_mismatch_conditions, cfg_nodes_with_call, node_calls, returns, raises, raised_class, stmt_assigns_attr, callee_last,
                   is_name, node_roots, guard_region, compare_parts, find_test_nodes)
from ..lib import *      # noqa: F401,F403  (path-condition helpers)
from ..linear import ctext
from ..loader import AnalysisError
from .. import stores

EXPLANATION = (
    "Static analysis of the asyncio path (the module _async.py selects for this interpreter, _async_w_await): (D1) "
    "pending data is searched before the transport is created / resumed / awaited; (D2) the protocol never assigns "
    "before/after/match/match_index itself -- every answer is produced by the same Expecter methods the blocking call "
    "uses; (D3) data_received decodes and logs once, then EITHER appends the text to both stores (no call outstanding) "
    "OR feeds new_data() exactly once, a match resolves the future, any exception is recorded with errored() and "
    "delivered through error(); (D4) eof_received flags EOF, asks Expecter.eof(), delivers EOF as an error and an index "
    "as a result; connection_lost maps EIO to EOF and other errors to error(); (D5) found()/error() resolve the future "
    "only if it is not done and then pause the transport; (D6) the awaited value is wait_for(<the protocol's future>, "
    "timeout) and TimeoutError pauses the transport and returns Expecter.timeout(); (D7) reuse: the stored pair is "
    "unpacked in the order it was stored, a new expecter and a fresh future are installed and reading is resumed; (D9) every Expecter the entry points build, the one handed to expect_async included, gets this call's searchwindowsize. NOT "
    "decided: equality of results with the blocking path under all schedules.")
TRUSTED = ["asyncio.Protocol callback contract, wait_for semantics", "sa/ engine"]
ASSUMPTIONS = ["the pre-await twin module is dead code on this interpreter (version switch folded)"]
LEVEL_TEXT = ("Static analysis of protocol-conformance clauses of the asyncio module: ordering (dominators), ownership of "
              "the result attributes, once/either-or path counting in data_received, EOF routing, guarded resolution of "
              "the future, timeout routing, writer/reader agreement on the stored (protocol, transport) pair.")
LEVEL_NOTE = "Trusted: asyncio semantics; analyser. Not decided: schedule-dependent equality with the blocking path."
TECHNIQUE = "CFG path counting / dominators / who-may-write on the asyncio protocol (static analysis)"
MOD = '_async_w_await'


def run(R):
    repo = R.repo
    ea = repo.func(MOD + ':expect_async')
    with R.clause('D1', 'ORDER', floor=3, desc='pending data searched before the transport is hooked up / resumed / awaited') as c:
        from .c04 import check_existing_first
        check_existing_first_async(c, repo, ea)
    with R.clause('D2', 'OWN', floor=2, desc='result attributes are written only by Expecter methods') as c:
        n = 0
        for f in repo.package_funcs():
            if f.module.name != MOD:
                continue
            for st in iter_nodes(f.node):
                if isinstance(st, (ast.Assign, ast.AugAssign)):
                    for t in assigned_targets(st):
                        if isinstance(t, ast.Attribute) and t.attr in ('before', 'after', 'match', 'match_index'):
                            n += 1
                            c.bad(f, st, 'the asyncio protocol writes .%s itself instead of going through Expecter' % t.attr, kind='ast', tag='writes-' + t.attr)
        # positive fixture: the rule's matcher must recognise the legitimate writers
        fx = 0
        for q in ('expect:Expecter.eof', 'expect:Expecter.timeout', 'expect:Expecter.do_search', 'expect:Expecter.errored'):
            f = repo.func(q)
            if any(isinstance(st, ast.Assign) and any(isinstance(t, ast.Attribute) and t.attr == 'before' for t in assigned_targets(st))
                   for st in iter_nodes(f.node)):
                fx += 1
                c.ok(f, None, 'fixture: %s is recognised as a writer of the result attributes' % q, kind='ast', tag='fixture:' + q)
        c.need(fx >= 3, 'fixture: the matcher no longer recognises the Expecter methods as writers')
    with R.clause('D3', 'EITHER', floor=7, desc='data_received: decode+log once; both stores or new_data once; errors recorded and delivered') as c:
        check_data_received(c, repo.func(MOD + ':PatternWaiter.data_received'))
    with R.clause('D4', 'EOF', floor=5, desc='eof_received / connection_lost routing') as c:
        check_eof(c, repo)
    with R.clause('D5', 'PAIR', floor=4, desc='found()/error(): only if not done; then pause the transport') as c:
        for name, setter in (('found', 'set_result'), ('error', 'set_exception')):
            f = repo.func(MOD + ':PatternWaiter.' + name)
            g = f.cfg
            ks = cfg_nodes_with_call(f, lambda k: callee_last(k) == setter)
            c.need(len(ks) == 1, '%s: %s not found' % (name, setter))
            n, k = ks[0]
            # (a local that merely holds the future -- `fut = self.fut` -- is written out)
            ts = [t for t in g.nodes if t.kind == 'test' and ctext(t.ast, f, stale_ok=True) in ('not self.fut.done()', 'self.fut.done()')]
            ok = False
            for t in ts:
                edge = 'true' if ctext(t.ast, f, stale_ok=True).startswith('not') else 'false'
                if n in guard_region(g, t, edge):
                    ok = True
            c.check(ok, f, k, 'the future is resolved only if it is not already done (a late callback cannot raise InvalidStateError)', tag='guard-' + name)
            c.check(k.args and is_name(k.args[0], f.params[1]), f, k, 'it is resolved with the value passed in', witness=norm(k), kind='ast', tag='value-' + name)
            ps = cfg_nodes_with_call(f, lambda kk: callee_last(kk) == 'pause_reading')
            okp = len(ps) == 1 and g.must_pass(n, {g.exit}, {ps[0][0]}, skip_labels=('exc',))[0]
            c.check(okp, f, ps[0][1] if ps else k, 'after resolving, the transport is paused (later output waits for the next call)', tag='pause-' + name)
        cm = repo.func(MOD + ':PatternWaiter.connection_made')
        asg = [n for n in iter_nodes(cm.node) if isinstance(n, ast.Assign) and stmt_assigns_attr(n, 'transport') is not None and is_name(n.value, cm.params[1])]
        c.check(len(asg) == 1, cm, asg[0] if asg else cm.node, 'connection_made stores the transport that found()/error() later pause', kind='ast', tag='transport-stored')
    with R.clause('D6', 'TIMEOUT', floor=4, desc='awaits wait_for(fut, timeout); TimeoutError -> pause + Expecter.timeout()') as c:
        check_wait(c, ea)
    with R.clause('D9', 'CONFIG', floor=3, desc='the awaited form searches with the same Expecter configuration as the blocking form (per-call search window)') as c:
        check_expecter_config(c, repo)
    with R.clause('D7', 'REUSE', floor=5, desc='reuse of the stored protocol/transport pair') as c:
        check_reuse(c, repo, ea)
    if R.thorough:
        with R.clause('D8', 'SIB', floor=1, desc='note: twin module for older interpreters has the same call skeleton') as c:
            a = skeleton(repo, MOD)
            b = skeleton(repo, '_async_pre_await')
            diff = sorted(set(a.items()) ^ set(b.items()))
            c.ok(ea, None, 'call skeletons of the two asyncio modules %s (dead code on this interpreter; reported as a note only)'
                 % ('agree' if not diff else 'differ in %s' % sorted(set(k for k, v in diff))), kind='ast', tag='twin')
            if diff:
                c.note('twin differs: %s' % diff[:6])


def skeleton(repo, mod):
    out = {}
    for f in repo.package_funcs():
        if f.module.name == mod:
            out[f.qual.split(':', 1)[1]] = tuple(callee_last(k) for k in calls_in(f.node)
                                                 if callee_last(k) not in ('get_running_loop', 'get_event_loop', '_loop_getter', 'coroutine'))
    return out


def check_existing_first_async(c, repo, f):
    g = f.cfg
    ex = cfg_nodes_with_call(f, lambda k: callee_last(k) == 'existing_data')
    if not ex:
        c.bad(f, None, 'expect_async never searches the text that is already pending (existing_data() is not called): a match '
              'that arrived earlier is only found after new output arrives, or never', tag='pending-wins')
        return
    c.need(len(ex) == 1 and isinstance(ex[0][0].ast, ast.Assign), 'expect_async: idx = expecter.existing_data() not found')
    en = ex[0][0]
    v = en.ast.targets[0].id
    ts = [t for t in g.nodes if t.kind == 'test' and norm(t.ast) in ('%s is not None' % v, '%s is None' % v)]
    c.need(ts, 'test of the existing_data() result not found')
    t0 = min(ts, key=lambda t: t.id)
    edge = 'true' if 'is not None' in norm(t0.ast) else 'false'
    nxt = [s2 for s2, l2 in t0.succ if l2 == edge]
    okr = len(nxt) == 1 and nxt[0].kind == 'stmt' and isinstance(nxt[0].ast, ast.Return) and is_name(nxt[0].ast.value, v)
    c.check(okr, f, t0.ast, 'a match already in the pending text (index 0 included) is returned without touching the transport', kind='path', tag='pending-wins')
    for n, k in cfg_nodes_with_call(f, lambda k: callee_last(k) in ('connect_read_pipe', 'resume_reading', 'wait_for', 'set_expecter')):
        ok1 = g.dominated_by(n, {en}, skip_labels=())[0] and g.dominated_by(n, {t0}, skip_labels=())[0]
        c.check(ok1, f, k, '%s() only after existing_data() found nothing' % callee_last(k), tag='existing-first:' + callee_last(k))


def check_data_received(c, f):
    g = f.cfg
    dp = f.params[1]
    decs = [n for n in g.nodes if n.kind == 'stmt' and isinstance(n.ast, ast.Assign) and isinstance(n.ast.value, ast.Call)
            and callee_last(n.ast.value) == 'decode']
    c.need(len(decs) == 1, 'data_received: decode assignment not found')
    dn = decs[0]
    s = dn.ast.targets[0].id
    dk = dn.ast.value
    c.check(dk.args and is_name(dk.args[0], dp) and ctext(dk.func.value, f, stale_ok=True).endswith('spawn._decoder'), f, dk,
            'the received bytes go through the spawn\'s persistent decoder', witness=norm(dk), kind='ast', tag='decode')
    mn, mx = g.occurrences(lambda n: n is dn)
    c.check(mn == 1 and mx == 1, f, dk, 'decoded exactly once on every path', witness='min=%s max=%s' % (mn, mx), tag='decode-once')
    done = [t for t in g.nodes if t.kind == 'test' and norm(t.ast) in ('self.fut.done()', 'not self.fut.done()')]
    c.need(len(done) == 1, 'data_received: fut.done() test not found')
    t = done[0]
    idle_edge = 'true' if norm(t.ast) == 'self.fut.done()' else 'false'
    idle = guard_region(g, t, idle_edge)
    busy = guard_region(g, t, 'false' if idle_edge == 'true' else 'true')
    for store in ('_before', '_buffer'):
        ws = [n for n in g.nodes if any(stores.store_call(k, f) == (store, 'write') and k.args and is_name(k.args[0], s) for k in node_calls(n))]
        ok = len(ws) == 1 and ws[0] in idle
        c.check(ok, f, ws[0].ast if ws else t.ast, 'no call outstanding: the text is appended to %s (exactly once, only then)' % store,
                witness='%d writes' % len(ws), tag='idle-' + store)
    feeds = [n for n, k in cfg_nodes_with_call(f, lambda k: callee_last(k) == 'new_data' and k.args and is_name(k.args[0], s))]
    ok = len(feeds) == 1 and feeds[0] in busy
    c.check(ok, f, feeds[0].ast if feeds else t.ast, 'a call is outstanding: the text is fed to Expecter.new_data exactly once', witness='%d calls' % len(feeds), tag='busy-feed')
    # idle path returns without feeding
    if feeds:
        p = [n for n in idle if n is feeds[0]]
        c.check(not p, f, feeds[0].ast, 'the idle path does not also feed the search (no double append)', tag='either-or')
    # result -> found
    if feeds and isinstance(feeds[0].ast, ast.Assign):
        iv = feeds[0].ast.targets[0].id
        fs = cfg_nodes_with_call(f, lambda k: callee_last(k) == 'found' and k.args and is_name(k.args[0], iv))
        tt = [x for x in g.nodes if x.kind == 'test' and norm(x.ast) == '%s is not None' % iv]
        ok = len(fs) == 1 and len(tt) == 1 and fs[0][0] in guard_region(g, tt[0], 'true')
        c.check(ok, f, fs[0][1] if fs else feeds[0].ast, 'a match (index is not None, 0 included) resolves the future with that index', tag='found')
    # exceptions
    hs = [h for h in iter_nodes(f.node) if isinstance(h, ast.ExceptHandler)]
    c.need(len(hs) >= 1, 'data_received: expected an except handler')
    # (one handler around matching and delivery, or one around each: every one of them records and delivers)
    ok, names = True, []
    for h in hs:
        names = [callee_last(k) for st in h.body for k in calls_in(st)]
        ok = ok and names == ['errored', 'error'] and h.name is not None and any(
            callee_last(k) == 'error' and k.args and is_name(k.args[0], h.name) for st in h.body for k in calls_in(st))
    h = hs[0]
    c.check(ok, f, h, 'an exception while matching is recorded with errored() and delivered to the awaiting caller with error(exc)',
            witness=str(names), kind='ast', tag='errors')

    def covered(node):
        return any(isinstance(p, ast.Try) and p.handlers and any(node is x for st_ in p.body for x in ast.walk(st_)) for p in parent_chain(node))
    c.check(bool(feeds) and covered(feeds[0].ast), f, h, 'new_data() runs inside that try', kind='ast', tag='in-try')
    fs_ = [k for k in calls_in(f.node) if callee_last(k) == 'found']
    c.check(all(covered(k) for k in fs_), f, fs_[0] if fs_ else h, 'the delivery of a match runs under such a handler too (a failing pause_reading() is recorded, not lost)', kind='ast', tag='found-in-try')


def check_eof(c, repo):
    f = repo.func(MOD + ':PatternWaiter.eof_received')
    g = f.cfg
    fl = [n for n in g.nodes if n.kind == 'stmt' and stmt_assigns_attr(n.ast, 'flag_eof') is not None and is_const(n.ast.value, True)]
    ek = cfg_nodes_with_call(f, lambda k: callee_last(k) == 'eof' and ctext(k.func.value, f, stale_ok=True) == 'self.expecter')
    c.need(len(ek) == 1, 'eof_received: self.expecter.eof() not found')
    c.check(len(fl) == 1 and g.dominated_by(ek[0][0], {fl[0]})[0], f, fl[0].ast if fl else ek[0][1], 'flag_eof is set before the outcome is computed', tag='flag-first')
    tr = [t for t in iter_nodes(f.node) if isinstance(t, ast.Try)]
    c.need(len(tr) == 1, 'eof_received: try not found')
    t = tr[0]
    hs = t.handlers
    ok = len(hs) == 1 and norm(hs[0].type) == 'EOF' and hs[0].name and any(
        callee_last(k) == 'error' and k.args and is_name(k.args[0], hs[0].name) for st in hs[0].body for k in calls_in(st))
    c.check(ok, f, hs[0] if hs else t, 'EOF not listed: the EOF exception is delivered to the awaiting caller', kind='ast', tag='eof-error')
    iv = ek[0][0].ast.targets[0].id if isinstance(ek[0][0].ast, ast.Assign) else None
    fk = cfg_nodes_with_call(f, lambda k: callee_last(k) == 'found' and k.args and iv is not None and is_name(k.args[0], iv))
    # found(index) runs exactly when eof() returned normally: after it on the normal edges, never from the handler
    hn = [n for n in g.nodes if n.kind == 'except']
    ok = len(fk) == 1 and g.dominated_by(fk[0][0], {ek[0][0]}, skip_labels=('exc',))[0] and \
        g.must_pass(ek[0][0], {g.exit}, {fk[0][0]}, skip_labels=('exc',))[0] and all(g.path(h_, {fk[0][0]}, skip_labels=()) is None for h_ in hn)
    c.check(ok, f, t, 'EOF listed: its index resolves the future', kind='path', tag='eof-found')
    f2 = repo.func(MOD + ':PatternWaiter.connection_lost')
    g2 = f2.cfg
    p = f2.params[1]
    # what connection_lost does for each kind of argument, whatever the shape of its tests
    A_NONE, A_OS = '%s is None' % p, 'isinstance(%s, OSError)' % p
    A_EIO = atom_key(ast.parse('%s.errno == errno.EIO' % p, mode='eval').body)[0]
    cases = (('no error (None)', {A_NONE: True, A_OS: False, A_EIO: False}, []),
             ('OSError with errno EIO (a pty closing)', {A_NONE: False, A_OS: True, A_EIO: True}, ['eof_received']),
             ('another OSError', {A_NONE: False, A_OS: True, A_EIO: False}, ['error']),
             ('any other exception', {A_NONE: False, A_OS: False, A_EIO: False}, ['error']))
    for what, sc, want in cases:
        seqs = []
        for path in scenario_paths(g2, sc):
            seq = [callee_last(k) for n in path if n.ast is not None and n.kind != 'test' for k in node_calls(n) if callee_last(k) in ('eof_received', 'error', 'found', 'eof')]
            if seq not in seqs:
                seqs.append(seq)
        okc = seqs == [want]
        if okc and want == ['error']:
            ek_ = [k for k in calls_in(f2.node) if callee_last(k) == 'error']
            okc = all(k.args and is_name(k.args[0], p) for k in ek_)
        c.check(okc, f2, None, 'connection_lost with %s: %s' % (what, {'[]': 'nothing happens', "['eof_received']": 'it is treated as EOF', "['error']": 'the error is delivered to the caller'}[str(want)]),
                witness='calls made: %s' % seqs, kind='path', tag='lost:' + what.split(' ')[0] + str(len(want)) + want[0][:3] if want else 'lost:none')


def check_wait(c, f):
    g = f.cfg
    ws = cfg_nodes_with_call(f, lambda k: callee_last(k) == 'wait_for')
    c.need(len(ws) == 1, 'expect_async: wait_for not found')
    n, k = ws[0]
    ok = len(k.args) == 2 and norm(k.args[0]).endswith('.fut') and is_name(k.args[1], f.params[1])
    c.check(ok, f, k, 'awaits wait_for(<protocol>.fut, timeout): bounded by the call\'s timeout', witness=norm(k), kind='ast', tag='wait_for')
    # the await itself: `return await wait_for(...)`, or the coroutine object is put into a local first and awaited later
    # (creating it raises nothing; the timeout surfaces where it is awaited)
    aw = k
    an = n
    if isinstance(n.ast, ast.Assign) and len(n.ast.targets) == 1 and isinstance(n.ast.targets[0], ast.Name) and n.ast.value is k:
        pv = n.ast.targets[0].id
        al_ = aliases_of(f)
        aws = [(m, x) for m in g.nodes if m.ast is not None for r_ in node_roots(m) for x in ast.walk(r_) if isinstance(x, ast.Await) and is_name(x.value, pv)]
        c.need(pv in al_.single_assign and len(aws) == 1, 'expect_async: the wait_for() coroutine is not awaited exactly once')
        an, aw = aws[0]
    c.check(isinstance(an.ast, ast.Return) and isinstance(an.ast.value, ast.Await), f, k, 'the awaited outcome is returned unchanged', kind='ast', tag='returned')
    tr = [p for p in parent_chain(aw) if isinstance(p, ast.Try)]
    c.need(tr, 'wait_for is not inside a try')
    hs = [h for h in tr[0].handlers if 'TimeoutError' in norm(h.type)]
    ok = len(hs) == 1
    c.check(ok, f, tr[0], 'TimeoutError is handled', kind='ast', tag='handler')
    if ok:
        h = hs[0]
        names = [callee_last(kk) for st in h.body for kk in calls_in(st)]
        last = h.body[-1]
        okr = isinstance(last, ast.Return) and isinstance(last.value, ast.Call) and callee_last(last.value) == 'timeout' \
            and ctext(last.value.func.value, f) == 'expecter'
        c.check('pause_reading' in names and okr, f, h, 'on timeout the transport is paused and Expecter.timeout() decides index-or-raise', witness=str(names), kind='ast', tag='timeout-route')


def check_reuse(c, repo, f):
    g = f.cfg
    st = [n for n in g.nodes if n.kind == 'stmt' and stmt_assigns_attr(n.ast, 'async_pw_transport') is not None]
    # the unpacking of the stored pair: from the field, or from a local that holds it (read once at the top of the call)
    ld = [n for n in g.nodes if n.kind == 'stmt' and isinstance(n.ast, ast.Assign) and isinstance(n.ast.targets[0], ast.Tuple)
          and ctext(n.ast.value, f, stale_ok=True).endswith('.async_pw_transport')]
    c.need(len(st) == 1 and len(ld) == 1, 'expect_async: store / load of async_pw_transport not found')
    sv = st[0].ast.value
    lt = ld[0].ast.targets[0]
    ok = isinstance(sv, ast.Tuple) and isinstance(lt, ast.Tuple) and [norm(e) for e in sv.elts] == [norm(e) for e in lt.elts]
    c.check(ok, f, ld[0].ast, 'the (protocol, transport) pair is unpacked in the order it was stored', witness='%s vs %s' % (norm(sv), norm(lt)), kind='ast', tag='pair-order')
    t = [x for x in g.nodes if x.kind == 'test' and x.ast is not None and 'async_pw_transport' in ctext(x.ast, f, stale_ok=True)]
    c.need(len(t) == 1, 'first-use test not found')
    first_edge = 'true' if norm(t[0].ast).startswith('not') else 'false'
    fr = guard_region(g, t[0], first_edge)
    rr = guard_region(g, t[0], 'false' if first_edge == 'true' else 'true')
    c.check(st[0] in fr and ld[0] in rr, f, t[0].ast, 'the pair is created on first use and reused afterwards', tag='first-vs-reuse')
    for reg, name in ((fr, 'first use'), (rr, 'reuse')):
        se = [n for n in reg if any(callee_last(k) == 'set_expecter' and k.args and is_name(k.args[0], 'expecter') for k in node_calls(n))]
        c.check(len(se) == 1, f, se[0].ast if se else t[0].ast, '%s: the new expecter (and a fresh future) is installed' % name, tag='set-expecter:' + name)
    rs = [n for n in rr if any(callee_last(k) == 'resume_reading' for k in node_calls(n))]
    c.check(len(rs) == 1, f, rs[0].ast if rs else t[0].ast, 'reuse: reading is resumed', tag='resume')
    if rs:
        se = [n for n in rr if any(callee_last(k) == 'set_expecter' for k in node_calls(n))]
        c.check(bool(se) and g.dominated_by(rs[0], {se[0]})[0], f, rs[0].ast, 'the expecter is installed before reading resumes', tag='install-before-resume')
    sx = repo.func(MOD + ':PatternWaiter.set_expecter')
    a1 = [n for n in iter_nodes(sx.node) if isinstance(n, ast.Assign) and stmt_assigns_attr(n, 'expecter') is not None and is_name(n.value, sx.params[1])]
    a2 = [n for n in iter_nodes(sx.node) if isinstance(n, ast.Assign) and stmt_assigns_attr(n, 'fut') is not None and norm(n.value) == 'asyncio.Future()']
    gx = sx.cfg
    n2 = [n for n in gx.nodes if n.kind == 'stmt' and stmt_assigns_attr(n.ast, 'fut') is not None and norm(n.ast.value) == 'asyncio.Future()']
    mn, mx = gx.occurrences(lambda n: n in set(n2)) if n2 else (0, 0)
    c.check(len(a1) == 1 and len(a2) == 1 and mn == 1 and mx == 1, sx, sx.node,
            'set_expecter stores the expecter and creates a fresh Future on every path (a resolved future from the previous call must not be awaited again)',
            witness='fresh Future on min=%s max=%s paths' % (mn, mx), tag='set_expecter')


def check_expecter_config(c, repo):
    """every Expecter the entry points build -- the one handed to expect_async in particular -- gets this call's searcher and this
    call's searchwindowsize; a blocking path that delegates to expect_loop() forwards them"""
    n = 0
    for q in ('spawnbase:SpawnBase.expect_list', 'spawnbase:SpawnBase.expect_exact', 'spawnbase:SpawnBase.expect_loop'):
        f = repo.func(q)
        if 'searchwindowsize' not in f.params:
            raise AnalysisError('%s has no searchwindowsize parameter' % q)
        for k in calls_in(f.node):
            if callee_last(k) == 'Expecter':
                n += 1
                w = call_arg(k, 'searchwindowsize', 2)
                c.check(w is not None and is_name(w, 'searchwindowsize'), f, k,
                        'the Expecter is given the searchwindowsize of this call (a per-call window applies to the awaited form exactly as to the blocking one)',
                        witness=norm(k), kind='ast', tag='expecter-window:' + f.name)
            elif callee_last(k) == 'expect_loop' and isinstance(k.func, ast.Attribute) and is_name(k.func.value, 'self'):
                n += 1
                w = call_arg(k, 'searchwindowsize', 2)
                c.check(w is not None and is_name(w, 'searchwindowsize'), f, k, 'delegation to expect_loop() forwards the per-call search window',
                        witness=norm(k), kind='ast', tag='loop-window:' + f.name)
    c.need(n >= 3, 'expected an Expecter construction in each of expect_list / expect_exact / expect_loop, found %d' % n)


MUTANTS = [
    ('async-expecter-default-window', 'spawnbase', "        exp = Expecter(self, searcher_re(pattern_list), searchwindowsize)\n        if async_:\n            from ._async import expect_async\n            return expect_async(exp, timeout)\n        else:\n            return exp.expect_loop(timeout)",
     "        searcher = searcher_re(pattern_list)\n        if async_:\n            from ._async import expect_async\n            return expect_async(Expecter(self, searcher), timeout)\n        return self.expect_loop(searcher, timeout, searchwindowsize)", 'D9'),
    ('idle-drops-buffer', MOD, "            spawn._before.write(s)\n            spawn._buffer.write(s)\n            return", "            spawn._before.write(s)\n            return", 'D3'),
    ('idle-falls-through', MOD, "            spawn._before.write(s)\n            spawn._buffer.write(s)\n            return", "            spawn._before.write(s)\n            spawn._buffer.write(s)", 'D3'),
    ('found-truthy', MOD, "            if index is not None:\n                # Found a match\n                self.found(index)", "            if index:\n                # Found a match\n                self.found(index)", 'D3'),
    ('error-not-delivered', MOD, "            self.expecter.errored()\n            self.error(exc)", "            self.expecter.errored()", 'D3'),
    ('no-pause-found', MOD, "            self.fut.set_result(result)\n            self.transport.pause_reading()", "            self.fut.set_result(result)", 'D5'),
    ('found-unguarded', MOD, "        if not self.fut.done():\n            self.fut.set_result(result)\n            self.transport.pause_reading()", "        self.fut.set_result(result)\n        self.transport.pause_reading()", 'D5'),
    ('wait-no-timeout', MOD, "        return await asyncio.wait_for(pattern_waiter.fut, timeout)", "        return await asyncio.wait_for(pattern_waiter.fut, None)", 'D6'),
    ('timeout-raises', MOD, "        transport.pause_reading()\n        return expecter.timeout(exc)", "        transport.pause_reading()\n        raise", 'D6'),
    ('pair-swapped', MOD, "        pattern_waiter, transport = expecter.spawn.async_pw_transport", "        transport, pattern_waiter = expecter.spawn.async_pw_transport", 'D7'),
    ('reuse-no-resume', MOD, "        pattern_waiter.set_expecter(expecter)\n        transport.resume_reading()", "        pattern_waiter.set_expecter(expecter)", 'D7'),
    ('reuse-keeps-old-future', MOD, "        self.expecter = expecter\n        self.fut = asyncio.Future()", "        self.expecter = expecter\n        if getattr(self, 'fut', None) is None:\n            self.fut = asyncio.Future()", 'D7'),
    ('existing-after-connect', MOD, "    idx = expecter.existing_data()\n    if idx is not None:\n        return idx\n    if not expecter.spawn.async_pw_transport:", "    if not expecter.spawn.async_pw_transport:", 'D1'),
    ('eof-no-flag', MOD, "            self.expecter.spawn.flag_eof = True\n            index = self.expecter.eof()", "            index = self.expecter.eof()", 'D4'),
    ('eio-as-error', MOD, "        if isinstance(exc, OSError) and exc.errno == errno.EIO:", "        if isinstance(exc, OSError) and exc.errno == errno.EBADF:", 'D4'),
    ('transport-not-stored', MOD, "    def connection_made(self, transport):\n        self.transport = transport", "    def connection_made(self, transport):\n        pass", 'D5'),
    ('eio-or', MOD, "        if isinstance(exc, OSError) and exc.errno == errno.EIO:", "        if isinstance(exc, OSError) or exc.errno == errno.EIO:", 'D4'),
    ('protocol-sets-before', MOD, "        if self.fut.done():\n            spawn._before.write(s)", "        if self.fut.done():\n            spawn.before = s\n            spawn._before.write(s)", 'D2'),
]
PRESERVING = []

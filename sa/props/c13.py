"""C13 Launch fidelity."""
import ast

from ..astx import (calls_in, dotted, norm, src, iter_nodes, assigned_targets, assigned_names,
                    const_value, is_const, parent_chain)
from ..lib import (call_arg, relation, truth, other, cmp_views, core, holds_region, conditions, found_test, found_tests, path_tests, entails_empty, paths_entail_empty, eval_conditions, relation_tests, atom_key, expand_condition, mode_mismatch_conditions, cfg_nodes_with_call, node_calls, returns, raises, stmt_assigns_attr, callee_last,
                   is_name, node_roots, guard_region, compare_parts, find_test_nodes)
from ..lib import *      # noqa: F401,F403  (path-condition helpers)
from ..linear import ctext
from ..loader import AnalysisError
from .. import splitfsm

EXPLANATION = (
    "(D1) split_command_line is reduced to a finite transducer by conditional constant propagation over its loop "
    "body for every (scanner state, character class, argument-empty) entry fact -- the classes are the partition "
    "induced by the literals and isspace() tests in the function, so the abstraction is exact -- and composed with a "
    "specification automaton of the documented rules (whitespace separates; backslash, single and double quotes "
    "protect; non-empty arguments quoted per segment; optional leading / trailing whitespace). The product is explored "
    "exhaustively, which decides the round-trip law for inputs of ANY length; a disagreement is reported with the "
    "shortest class string reaching it. (D2) which(): explicit path first, PATH from the env argument when given and "
    "from os.environ only when it is None, os.defpath when empty -- decided by evaluating which() symbolically up to the split over every combination of {no env, env with PATH, empty PATH, no PATH, empty env} x {parent has PATH, has none} --, first executable in split order, None otherwise; "
    "_spawn resolves with env=self.env. (D3) constructor settings cwd/env/echo/preexec_fn/dimensions reach the "
    "PtyProcess.spawn (resp. subprocess.Popen) keyword of the same name; argv is the split list with the resolved "
    "command first; the ignore_sighup wrapper sets SIG_IGN for SIGHUP and then calls the user's preexec_fn. NOT "
    "decided: what the child really receives (ptyprocess, kernel); backslash inside double quotes (undocumented).")
TRUSTED = ["str.isspace / == on single characters", "os.path / os.access semantics in is_executable_file", "sa/ engine (conditional constant propagation, product exploration)"]
ASSUMPTIONS = ["arguments are non-empty and each maximal segment is quoted with one of the three documented styles"]
LEVEL_TEXT = ("The splitter is decided for ALL inputs of its documented language by extracting its transducer from the "
              "source (conditional constant propagation) and exhaustively exploring the product with a specification "
              "automaton; PATH resolution and the forwarding of launch settings are decided by def-use / keyword flow.")
LEVEL_NOTE = "Trusted: character predicates, os.path; analyser. Not decided: the child's actual argv/env/tty as set up by ptyprocess and the kernel."
TECHNIQUE = "automaton extraction by conditional constant propagation + product exploration; keyword-argument flow (static analysis)"


def run(R):
    repo = R.repo
    with R.clause('D1', 'FSM', floor=9, desc='split_command_line conforms to the documented quoting rules for inputs of any length') as c:
        f = repo.func('utils:split_command_line')
        sc = splitfsm.Scanner(f)
        table, seen, ntrans, mism = splitfsm.explore(sc)
        R.extra['splitter_states'] = len(sc.state_values)
        R.extra['splitter_classes'] = sc.classes
        R.extra['splitter_table_cells'] = len(table)
        R.extra['product_states'] = len(seen)
        R.extra['product_transitions'] = ntrans
        R.extra['splitter_table'] = ['%s,%s,%s -> %s %s' % (sc.names.get(k[0], k[0]), k[1], 'empty' if k[2] else 'nonempty',
                                                           sc.names.get(v[0], v[0]), list(v[1])) for k, v in sorted(table.items())][:60]
        c.need(len(sc.state_values) >= 4, 'expected >= 4 scanner states')
        if mism:
            seen_msgs = set()
            for path, msg in sorted(mism, key=lambda m: len(m[0]))[:4]:
                if msg in seen_msgs:
                    continue
                seen_msgs.add(msg)
                c.bad(f, None, 'splitter disagrees with the documented rules: ' + msg,
                      witness='shortest input (classes: \\ backslash, \' single, " double, _ whitespace, x other): %s' % splitfsm.pretty(path),
                      kind='fsm', tag='fsm:' + splitfsm.pretty(path))
        for (cs, cae, mode), path in sorted(seen.items(), key=lambda kv: (len(kv[1]), kv[1])):
            c.ok(f, None, 'product state (scanner %s, arg %s, spec %s) reached by %s: events agree on every allowed class'
                 % (sc.names.get(cs, cs), 'empty' if cae else 'non-empty', mode, splitfsm.pretty(path)), kind='fsm',
                 tag='state:%s:%s:%s' % (cs, cae, mode))
        # every scanner state constant is reachable in the product (no dead table rows hiding a bug)
        reached = set(k[0] for k in seen)
        c.check(set(sc.state_values) <= reached | {sc.init[sc.statevar]}, f, None, 'every scanner state is exercised by the specification language',
                witness='unreached: %s' % sorted(set(sc.state_values) - reached), kind='fsm', tag='all-states-reached')
    with R.clause('D2', 'FLOW', floor=7, desc='which(): explicit path, PATH from env / os.environ / os.defpath, first executable') as c:
        check_which(c, repo)
    with R.clause('D3', 'FORWARD', floor=12, desc='cwd / env / echo / preexec_fn / dimensions / argv reach the process-creation call') as c:
        check_forwarding(c, repo)


class _Unknown(Exception):
    pass


def path_choice_table(f):
    """{(env scenario, os scenario): set of symbolic PATH values that reach <x>.split(os.pathsep)}"""
    g = f.cfg
    fn, envp = f.params[0], f.params[1]
    ENVS = {'none': None, 'env-path': ('ENV', 'ENV.PATH', True), 'env-emptypath': ('ENV', '', True), 'env-nopath': ('ENV', None, True), 'env-empty': ('ENV', None, False)}
    OSS = {'os-path': ('OS', 'OS.PATH', True), 'os-nopath': ('OS', None, True)}

    def truthy(v):
        if v is None or v == '' or v is False:
            return False
        if isinstance(v, tuple):
            return v[2]
        if v == '?':
            raise _Unknown('truth value of an unknown expression')
        return True

    def ev(e, env, osobj):
        if isinstance(e, ast.Constant):
            return e.value
        if isinstance(e, ast.Name):
            if e.id in env:
                return env[e.id]
            raise _Unknown('name %s' % e.id)
        d = dotted(e)
        if d == 'os.environ':
            return osobj
        if d == 'os.defpath':
            return 'DEFPATH'
        if isinstance(e, ast.BoolOp):
            v = None
            for x in e.values:
                v = ev(x, env, osobj)
                if isinstance(e.op, ast.Or) and truthy(v):
                    return v
                if isinstance(e.op, ast.And) and not truthy(v):
                    return v
            return v
        if isinstance(e, ast.UnaryOp) and isinstance(e.op, ast.Not):
            return not truthy(ev(e.operand, env, osobj))
        if isinstance(e, ast.IfExp):
            return ev(e.body if truthy(ev(e.test, env, osobj)) else e.orelse, env, osobj)
        if isinstance(e, ast.Compare) and len(e.ops) == 1:
            a_, b_ = ev(e.left, env, osobj), ev(e.comparators[0], env, osobj)
            op = e.ops[0]
            if isinstance(op, (ast.Is, ast.Eq)):
                return a_ == b_
            if isinstance(op, (ast.IsNot, ast.NotEq)):
                return a_ != b_
            if isinstance(op, (ast.In, ast.NotIn)) and a_ == 'PATH' and isinstance(b_, tuple):
                return (b_[1] is not None) == isinstance(op, ast.In)
            raise _Unknown(norm(e))
        if isinstance(e, ast.Call) and isinstance(e.func, ast.Attribute) and e.func.attr == 'get' and e.args and is_const(e.args[0], 'PATH'):
            o = ev(e.func.value, env, osobj)
            if not isinstance(o, tuple):
                raise _Unknown('.get on %r' % (o,))
            if o[1] is None and len(e.args) > 1:
                return ev(e.args[1], env, osobj)
            return o[1]
        if isinstance(e, ast.Subscript) and is_const(e.slice, 'PATH'):
            o = ev(e.value, env, osobj)
            if isinstance(o, tuple) and o[1] is not None:
                return o[1]
            raise _Unknown('subscript may raise KeyError')
        if isinstance(e, ast.Call) and dotted(e.func) in ('os.getenv', 'os.environ.get') and e.args and is_const(e.args[0], 'PATH'):
            return osobj[1] if osobj[1] is not None or len(e.args) < 2 else ev(e.args[1], env, osobj)
        return '?'

    table = {}
    for ek, eobj in ENVS.items():
        for ok_, oobj in OSS.items():
            got = set()
            seen = set()
            stack = [(g.entry, (('%s' % envp, eobj),))]
            steps = 0
            while stack:
                n, envt = stack.pop()
                steps += 1
                if steps > 5000:
                    raise AnalysisError('C13-D2: which(): PATH choice evaluation does not terminate')
                key = (n.id, envt)
                if key in seen:
                    continue
                seen.add(key)
                env = dict(envt)
                env.setdefault(fn, '?')
                a = n.ast
                try:
                    # the split: record what is split
                    sp = [k for k in node_calls(n) if callee_last(k) == 'split' and k.args and norm(k.args[0]) == 'os.pathsep'] if a is not None else []
                    if sp:
                        v = ev(sp[0].func.value, env, oobj)
                        got.add(v if isinstance(v, str) else repr(v))
                        continue
                    if n.kind == 'test':
                        try:
                            tv = truthy(ev(a, env, oobj))
                            labs = ('true',) if tv else ('false',)
                        except _Unknown:
                            labs = ('true', 'false')
                        for s_, l_ in n.succ:
                            if l_ in labs:
                                stack.append((s_, envt))
                        continue
                    if n.kind == 'stmt' and isinstance(a, ast.Assign) and len(a.targets) == 1 and isinstance(a.targets[0], ast.Name):
                        env[a.targets[0].id] = ev(a.value, env, oobj)
                    elif n.kind == 'stmt' and isinstance(a, (ast.Return, ast.Raise)):
                        continue
                except _Unknown as e_:
                    raise AnalysisError('C13-D2: which(): cannot evaluate the PATH choice (%s)' % e_)
                envt2 = tuple(sorted(env.items(), key=lambda kv: kv[0]))
                for s_, l_ in n.succ:
                    if l_ not in ('exc', 'raise'):
                        stack.append((s_, envt2))
            table[(ek, ok_)] = got
    return table


def check_which(c, repo):
    f = repo.func('utils:which')
    g = f.cfg
    fn, env = f.params[0], f.params[1]
    rets = returns(f)
    # explicit path first
    first = [t for t in g.nodes if t.kind == 'test' and 'os.path.dirname(%s)' % fn in norm(t.ast)]
    c.need(len(first) == 1, 'which: explicit-path test not found')
    t0 = first[0]
    r0 = [r for r in rets if is_name(r.ast.value, fn)]
    got = conditions(g, r0[0]) if len(r0) == 1 else None
    want = {atom_key(ast.parse("os.path.dirname(%s) == ''" % fn, mode='eval').body, False), ('is_executable_file(%s)' % fn, True)}
    c.check(got == want, f, t0.ast, 'a name with a directory part that is executable is returned as given',
            witness='returned as given under %s' % sorted(got or []), kind='path', tag='explicit-path')
    # which PATH is searched: decided by evaluating the function, up to the point where the PATH string is split, over every
    # combination of {no env argument, env with PATH, env with empty PATH, env without PATH (empty or not)} x {parent has PATH, has none}
    table = path_choice_table(f)
    for (envk, osk), got in sorted(table.items()):
        if envk == 'none':
            want = 'OS.PATH' if osk == 'os-path' else 'DEFPATH'
        elif envk == 'env-path':
            want = 'ENV.PATH'
        else:
            want = 'DEFPATH'
        what = {'none': 'no env argument', 'env-path': 'env argument with a PATH', 'env-emptypath': 'env argument whose PATH is empty',
                'env-nopath': 'env argument without PATH', 'env-empty': 'empty env argument {}'}[envk]
        c.check(got == {want}, f, None, '%s, parent process %s a PATH: the directories searched are those of %s '
                '(the PATH the child will see; never the parent\'s when an env was given)' % (what, 'has' if osk == 'os-path' else 'has no', want),
                witness='searches %s' % sorted(got), kind='alg', tag='path-choice:%s:%s' % (envk, osk))
    pv = None
    for n in iter_nodes(f.node):
        if isinstance(n, ast.Call) and callee_last(n) == 'split' and n.args and norm(n.args[0]) == 'os.pathsep' and isinstance(n.func.value, ast.Name):
            pv = n.func.value.id
    c.need(pv, 'which: <PATH>.split(os.pathsep) not found')
    loops = [n for n in iter_nodes(f.node) if isinstance(n, ast.For)]
    c.need(len(loops) == 1, 'which: loop not found')
    loop = loops[0]
    itv = loop.iter
    if isinstance(itv, ast.Name):
        ds = [n for n in iter_nodes(f.node) if isinstance(n, ast.Assign) and itv.id in assigned_names(n)]
        ok = len(ds) == 1 and norm(ds[0].value) == '%s.split(os.pathsep)' % pv
    else:
        ok = norm(itv) == '%s.split(os.pathsep)' % pv         # iterated directly
    c.check(ok, f, loop, 'directories are tried in PATH order (split on os.pathsep, unsorted, unfiltered)', witness=norm(loop.iter), kind='ast', tag='path-order')
    dv = loop.target.id if isinstance(loop.target, ast.Name) else None
    joins = [n for n in ast.walk(loop) if isinstance(n, ast.Assign) and isinstance(n.value, ast.Call) and dotted(n.value.func) == 'os.path.join']
    ok = len(joins) == 1 and len(joins[0].value.args) == 2 and is_name(joins[0].value.args[0], dv) and is_name(joins[0].value.args[1], fn)
    c.check(ok, f, joins[0] if joins else loop, 'candidate = os.path.join(<directory>, <name>)', kind='ast', tag='candidate')
    if ok:
        cv = joins[0].targets[0].id
        lt = [t for t in g.nodes if t.kind == 'test' and norm(t.ast) == 'is_executable_file(%s)' % cv]
        lr = [r for r in rets if lt and r in guard_region(g, lt[0], 'true') and is_name(r.ast.value, cv)]
        c.check(len(lt) == 1 and len(lr) == 1, f, lt[0].ast if lt else loop, 'the first executable candidate is returned immediately', kind='path', tag='first-match')
    hdr = g.node_of_stmt(loop)
    last = [r for r in rets if is_const(r.ast.value, None)]
    c.check(len(last) == 1, f, last[0].ast if last else None, 'None when nothing is found', kind='ast', tag='not-found')
    # is_executable_file: regular file (symlinks followed) with the execute permission
    ie = repo.func('utils:is_executable_file')
    gie = ie.cfg
    rp_ = [n for n in gie.nodes if n.kind == 'stmt' and isinstance(n.ast, ast.Assign) and norm(n.ast.value) == 'os.path.realpath(%s)' % ie.params[0]]
    c.check(len(rp_) == 1, ie, rp_[0].ast if rp_ else None, 'symlinks are followed (os.path.realpath) before the checks', kind='ast', tag='realpath')
    if rp_:
        fpv = rp_[0].ast.targets[0].id
        tf = [t for t in gie.nodes if t.kind == 'test' and norm(t.ast) == 'not os.path.isfile(%s)' % fpv]
        rf = [r for t in tf for r in guard_region(gie, t, 'true') if r.kind == 'stmt' and isinstance(r.ast, ast.Return) and is_const(r.ast.value, False)]
        c.check(len(tf) == 1 and len(rf) == 1, ie, tf[0].ast if tf else None, 'directories and other non-files are never executable candidates', kind='path', tag='isfile')
        last = [r for r in returns(ie) if norm(r.ast.value) == 'os.access(%s, os.X_OK)' % fpv]
        c.check(len(last) == 1, ie, last[0].ast if last else None, 'a regular file qualifies iff os.access(<file>, os.X_OK)', kind='ast', tag='x-ok')
    # _spawn
    sp = repo.func('pty_spawn:spawn._spawn')
    ws = [k for k in calls_in(sp.node) if callee_last(k) == 'which']
    # a remembered answer (`_located_commands.get(key)` of a module-level table) in front of which(): whether the remembered location is still
    # what which() would find for THIS environment is a question about the table's contents -- the key may or may not capture everything
    mods_ = set(n_.targets[0].id for n_ in sp.module.tree.body if isinstance(n_, ast.Assign) and len(n_.targets) == 1 and isinstance(n_.targets[0], ast.Name)
                and isinstance(n_.value, (ast.Dict, ast.Call)))
    cached = [k for k in calls_in(sp.node) if isinstance(k.func, ast.Attribute) and k.func.attr in ('get', 'setdefault', '__getitem__') and isinstance(k.func.value, ast.Name)
              and k.func.value.id in mods_] + [x for x in iter_nodes(sp.node) if isinstance(x, ast.Subscript) and isinstance(x.value, ast.Name) and x.value.id in mods_]
    def argt(e):
        return ctext(e, sp, stale_ok=True) if e is not None else None
    if cached and len(ws) == 1 and ws[0].args and argt(ws[0].args[0]) == 'self.command' and argt(call_arg(ws[0], 'env', 1)) == 'self.env':
        # decided all the same: a key built from the PROCESS environment only cannot tell two requested environments apart
        keyt = ' '.join(argt(a_) or '' for k_ in cached if isinstance(k_, ast.Call) for a_ in k_.args) + ' ' + \
            ' '.join(argt(x_.slice) or '' for x_ in cached if isinstance(x_, ast.Subscript))
        c.check(not ('os.environ' in keyt and 'self.env' not in keyt), sp, cached[0],
                'a remembered command location is keyed by the PATH of the requested environment (not by the process environment only)', witness=keyt[:160], kind='flow', tag='spawn-which-env')
        if 'os.environ' in keyt and 'self.env' not in keyt:
            return
        raise AnalysisError('spawn._spawn: the resolved command may come from the module-level table %s instead of which(): cannot be decided' % norm(cached[0])[:50])
    ok = len(ws) == 1 and ws[0].args and norm(ws[0].args[0]) == 'self.command' and call_arg(ws[0], 'env', 1) is not None and norm(call_arg(ws[0], 'env', 1)) == 'self.env'
    c.check(ok, sp, ws[0] if ws else None, 'the command is resolved against the PATH of the requested environment (env=self.env)', witness=norm(ws[0]) if ws else '', kind='ast', tag='spawn-which-env')


def check_forwarding(c, repo):
    init = repo.func('pty_spawn:spawn.__init__')
    sp = repo.func('pty_spawn:spawn._spawn')
    for attr in ('cwd', 'env', 'echo', 'ignore_sighup'):
        asg = [n for n in iter_nodes(init.node) if isinstance(n, ast.Assign) and stmt_assigns_attr(n, attr) is not None]
        ok = len(asg) == 1 and is_name(asg[0].value, attr)
        c.check(ok, init, asg[0] if asg else None, 'constructor stores %s as given' % attr, witness=norm(asg[0]) if asg else 'missing', kind='ast', tag='store-' + attr)
    ks = [k for k in calls_in(init.node) if callee_last(k) == '_spawn']
    ok = len(ks) == 1 and [norm(a) for a in ks[0].args] == ['command', 'args', 'preexec_fn', 'dimensions']
    c.check(ok, init, ks[0] if ks else None, '_spawn receives command, args, preexec_fn, dimensions', witness=norm(ks[0]) if ks else '', kind='ast', tag='init-spawn')
    g = sp.cfg
    # the store happens before _spawn is called
    if ks:
        gi = init.cfg
        kn = gi.node_for(ks[0])
        for attr in ('cwd', 'env', 'echo', 'ignore_sighup'):
            an = [n for n in gi.nodes if n.kind == 'stmt' and stmt_assigns_attr(n.ast, attr) is not None]
            c.check(bool(an) and gi.dominated_by(kn, set(an))[0], init, ks[0], 'self.%s is set before the child is started' % attr, tag='before-spawn-' + attr)
    pty = [k for k in calls_in(sp.node) if callee_last(k) == '_spawnpty']
    c.need(len(pty) == 1, '_spawn: self._spawnpty(...) not found')
    k = pty[0]
    argv = call_arg(k, 'args', 0)
    c.check(argv is not None and norm(argv) == 'self.args', sp, k, 'argv handed to ptyprocess is self.args', witness=norm(k), kind='ast', tag='argv')
    kws = dict((kw.arg, norm(kw.value)) for kw in k.keywords if kw.arg)
    c.check(kws.get('env') == 'self.env', sp, k, 'env=self.env', witness=str(kws), kind='ast', tag='kw-env')
    c.check(kws.get('cwd') == 'self.cwd', sp, k, 'cwd=self.cwd', witness=str(kws), kind='ast', tag='kw-cwd')
    star = [kw for kw in k.keywords if kw.arg is None]
    c.need(len(star) == 1 and isinstance(star[0].value, ast.Name), '_spawn: **kwargs not found')
    kv = star[0].value.id
    # what the keyword dictionary holds when the child is started, for every combination of the two settings that shape it
    # (built as a literal, key by key, with update(): all the same to this rule)
    kn0 = g.node_for(k)
    for ign in (True, False):
        for dims_given in (True, False):
            outs = dict_contents_at(g, kn0, kv, {'self.ignore_sighup': ign, 'dimensions is None': not dims_given}, fi=sp)
            c.need(outs is not None and len(outs) >= 1, '_spawn: the contents of **%s could not be determined' % kv)
            want = {'echo': 'self.echo', 'preexec_fn': 'preexec_wrapper' if ign else 'preexec_fn'}
            if dims_given:
                want['dimensions'] = 'dimensions'
            okd = all(o == want for o in outs)
            c.check(okd, sp, k, 'ignore_sighup=%s, dimensions %s: the child is started with echo=self.echo, preexec_fn=%s%s' % (
                ign, 'given' if dims_given else 'not given', 'the SIGHUP-ignoring wrapper' if ign else "the user's function",
                ', dimensions=dimensions' if dims_given else ' and no dimensions entry'),
                witness=str(outs), kind='alg', tag='kwargs:%s:%s' % (ign, dims_given))
    # ignore_sighup wrapper
    wr = sp.nested.get('preexec_wrapper', [None])[0]
    c.need(wr is not None, '_spawn: preexec_wrapper not found')
    sigs = [kk for kk in calls_in(wr.node) if dotted(kk.func) == 'signal.signal']
    ok = len(sigs) == 1 and [norm(a) for a in sigs[0].args] == ['signal.SIGHUP', 'signal.SIG_IGN']
    c.check(ok, wr, sigs[0] if sigs else None, 'the wrapper sets SIGHUP to SIG_IGN', witness=norm(sigs[0]) if sigs else '', kind='ast', tag='sighup-ign')
    wg = wr.cfg
    uc = cfg_nodes_with_call(wr, lambda kk: isinstance(kk.func, ast.Name) and kk.func.id == 'preexec_fn')
    tn = [t for t in wg.nodes if t.kind == 'test' and norm(t.ast) == 'preexec_fn is not None']
    ok = len(uc) == 1 and len(tn) == 1 and uc[0][0] in guard_region(wg, tn[0], 'true')
    c.check(ok, wr, uc[0][1] if uc else None, 'the user\'s preexec_fn still runs (when given)', kind='path', tag='user-preexec')
    kn = g.node_for(k)
    for attr, srcattr in (('pid', 'pid'), ('child_fd', 'fd')):
        asg = [n for n in g.nodes if n.kind == 'stmt' and stmt_assigns_attr(n.ast, attr) is not None]
        ok = len(asg) == 1 and norm(asg[0].ast.value) == 'self.ptyproc.' + srcattr and g.path(kn, asg[0], skip_labels=('exc',)) is not None
        c.check(ok, sp, asg[0].ast if asg else None, 'self.%s is the new child\'s %s' % (attr, srcattr), witness=norm(asg[0].ast) if asg else 'missing', kind='ast', tag='child-' + attr)
    for attr in ('terminated', 'closed'):
        asg = [n for n in g.nodes if n.kind == 'stmt' and stmt_assigns_attr(n.ast, attr) is not None]
        ok = len(asg) == 1 and is_const(asg[0].ast.value, False) and g.path(kn, asg[0], skip_labels=('exc',)) is not None
        c.check(ok, sp, asg[0].ast if asg else None, 'after a successful start the object is marked not %s' % attr, kind='ast', tag='started-' + attr)
    # _spawnpty
    pp = repo.func('pty_spawn:spawn._spawnpty')
    ks2 = [kk for kk in calls_in(pp.node) if (dotted(kk.func) or '').endswith('PtyProcess.spawn')]
    ok = len(ks2) == 1 and ks2[0].args and is_name(ks2[0].args[0], 'args') and any(kw.arg is None and is_name(kw.value, 'kwargs') for kw in ks2[0].keywords)
    c.check(ok, pp, ks2[0] if ks2 else None, '_spawnpty passes argv and every keyword on to PtyProcess.spawn', witness=norm(ks2[0]) if ks2 else '', kind='ast', tag='spawnpty')
    # argv construction: what self.args holds when the executable is looked up, for `args == []` and for an explicit list, found by
    # running the statements that touch `args` / `self.args` on every path of each scenario (list objects: the caller's list, the
    # result of split_command_line, fresh copies) -- the caller's list must come out untouched
    wn = [n for n, kk in cfg_nodes_with_call(sp, lambda kk: callee_last(kk) == 'which')]
    c.need(len(wn) == 1, '_spawn: which() call not found')
    A_EMPTY = atom_key(ast.parse('args == []', mode='eval').body)[0]
    for empty in (True, False):
        outcomes = argv_outcomes(sp, g, wn[0], {A_EMPTY: empty})
        if empty:
            ok = bool(outcomes) and all(o == (('split',), False) for o in outcomes)
            c.check(ok, sp, wn[0].ast, 'without an explicit list argv is the split command line', witness=str(outcomes), kind='alg', tag='argv-split')
        else:
            ok = bool(outcomes) and all(o == (('command', '*args'), False) for o in outcomes)
            c.check(ok, sp, wn[0].ast, 'with an explicit list argv is [command] + a copy of the list, and the caller\'s list is left unchanged',
                    witness=str(outcomes), kind='alg', tag='argv-list')
    a0 = [n for n in g.nodes if n.kind == 'stmt' and isinstance(n.ast, ast.Assign) and norm(n.ast.targets[0]) == 'self.args[0]']
    c.check(len(a0) == 1 and norm(a0[0].ast.value) == 'self.command', sp, a0[0].ast if a0 else None, 'argv[0] is the resolved executable', kind='ast', tag='argv0')
    # PopenSpawn
    pi = repo.func('popen_spawn:PopenSpawn.__init__')
    pk = [kk for kk in calls_in(pi.node) if dotted(kk.func) == 'subprocess.Popen']
    c.need(len(pk) == 1, 'PopenSpawn: subprocess.Popen call not found')
    star2 = [kw.value.id for kw in pk[0].keywords if kw.arg is None and isinstance(kw.value, ast.Name)]
    c.need(len(star2) == 1, 'PopenSpawn: **kwargs not found')
    kwn = star2[0]
    gp_ = pi.cfg
    outs = dict_contents_at(gp_, gp_.node_for(pk[0]), kwn, {}, fi=pi)
    c.need(outs, 'PopenSpawn: the contents of **%s could not be determined' % kwn)
    for a in ('cwd', 'env', 'preexec_fn'):
        c.check(all(o.get(a) == a for o in outs), pi, pk[0], 'PopenSpawn forwards %s to subprocess.Popen' % a, witness=str(outs)[:200], kind='alg', tag='popen-' + a)
    ok = len(pk) == 1 and pk[0].args and is_name(pk[0].args[0], 'cmd')
    c.check(ok, pi, pk[0] if pk else None, 'subprocess.Popen(cmd, **kwargs)', kind='ast', tag='popen-call')


def argv_outcomes(sp, g, stop, scenario):
    """{(content of self.args, caller's list was modified)} over the paths entry -> *stop* that the scenario allows"""
    outs = set()
    for path in scenario_paths(g, scenario):
        if stop not in path:
            continue
        objs = {'CALLER': ('*args',)}
        env = {'args': 'CALLER'}
        fresh = [0]
        mutated = False

        def new(content):
            fresh[0] += 1
            k = 'O%d' % fresh[0]
            objs[k] = tuple(content)
            return k

        def ref(e):
            t = norm(e)
            if t in env:
                return env[t]
            if isinstance(e, ast.Call) and callee_last(e) == 'split_command_line' and [norm(a) for a in e.args] == ['command']:
                return new(('split',))
            if isinstance(e, ast.Call) and callee_last(e) == 'split_command_line':
                return new(('split of %s' % ', '.join(norm(a) for a in e.args),))          # not the command line as given
            if isinstance(e, ast.Subscript) and isinstance(e.slice, ast.Slice) and e.slice.lower is None and e.slice.upper is None and e.slice.step is None \
                    and norm(e.value) in env:
                return new(objs[env[norm(e.value)]])
            if isinstance(e, ast.Call) and isinstance(e.func, ast.Name) and e.func.id == 'list' and len(e.args) == 1 and norm(e.args[0]) in env:
                return new(objs[env[norm(e.args[0])]])
            if isinstance(e, ast.BinOp) and isinstance(e.op, ast.Add) and isinstance(e.left, ast.List) and [norm(x) for x in e.left.elts] == ['command'] \
                    and norm(e.right) in env:
                return new(('command',) + objs[env[norm(e.right)]])
            return None
        for n in path[:path.index(stop)]:
            a = n.ast
            if n.kind != 'stmt' or a is None:
                continue
            touches = any(norm(x) in ('args', 'self.args') for x in ast.walk(a) if isinstance(x, (ast.Name, ast.Attribute)))
            if not touches:
                continue
            if isinstance(a, ast.Assign) and len(a.targets) == 1 and norm(a.targets[0]) in ('args', 'self.args'):
                r = ref(a.value)
                if r is None:
                    raise AnalysisError('_spawn: argv construction not understood: %s' % norm(a))
                env[norm(a.targets[0])] = r
                continue
            if isinstance(a, ast.Expr) and isinstance(a.value, ast.Call) and callee_last(a.value) == 'insert' and norm(a.value.func.value) in env \
                    and [norm(x) for x in a.value.args] == ['0', 'command']:
                o = env[norm(a.value.func.value)]
                objs[o] = ('command',) + objs[o]
                if o == 'CALLER':
                    mutated = True
                continue
            if isinstance(a, ast.Assign) and len(a.targets) == 1 and norm(a.targets[0]) in ('self.command', 'self.name') \
                    and not any(isinstance(x, ast.Call) for x in ast.walk(a.value)):
                continue          # reads only
            if isinstance(a, (ast.Raise, ast.Assert)):
                continue
            raise AnalysisError('_spawn: argv construction not understood: %s' % norm(a))
        if 'self.args' not in env:
            raise AnalysisError('_spawn: self.args is not set before the executable is looked up')
        outs.add((objs[env['self.args']], mutated or objs['CALLER'] != ('*args',)))
    return sorted(outs)


MUTANTS = [
    ('which-layered-defaults', 'utils', "    if env is None:\n        env = os.environ\n    p = env.get('PATH')\n    if not p:\n        p = os.defpath\n", "    p = os.environ.get('PATH') or os.defpath\n    if env is not None:\n        p = env.get('PATH') or p\n", 'D2'),
    ('split-init-basic', 'utils', "    state_whitespace = 4\n    state = state_whitespace\n", "    state_whitespace = 4\n    state = state_basic\n", 'D1'),
    ('split-esc-to-ws', 'utils', "        elif state == state_esc:\n            arg = arg + c\n            state = state_basic", "        elif state == state_esc:\n            arg = arg + c\n            state = state_whitespace", 'D1'),
    ('split-sq-backslash', 'utils', "        elif state == state_singlequote:\n            if c == r\"'\":\n                state = state_basic\n            else:\n                arg = arg + c", "        elif state == state_singlequote:\n            if c == r\"'\":\n                state = state_basic\n            elif c == '\\\\':\n                state = state_esc\n            else:\n                arg = arg + c", 'D1'),
    ('split-dq-drops-space', 'utils', "        elif state == state_doublequote:\n            if c == r'\"':\n                state = state_basic\n            else:\n                arg = arg + c", "        elif state == state_doublequote:\n            if c == r'\"':\n                state = state_basic\n            elif not c.isspace():\n                arg = arg + c", 'D1'),
    ('split-quote-after-ws-stays-ws', 'utils', "            elif c == r\"'\":\n                # Handle single quote\n                state = state_singlequote", "            elif c == r\"'\" and state == state_basic:\n                # Handle single quote\n                state = state_singlequote", 'D1'),
    ('split-no-final-push', 'utils', "    if arg != '':\n        arg_list.append(arg)\n    return arg_list", "    return arg_list", 'D1'),
    ('split-push-no-reset', 'utils', "                    arg_list.append(arg)\n                    arg = ''\n                    state = state_whitespace", "                    arg_list.append(arg)\n                    state = state_whitespace", 'D1'),
    ('split-strips-first', 'utils', "    for c in command_line:\n", "    for c in command_line.strip():\n", 'D1'),
    ('which-explicit-inverted', 'utils', "    if os.path.dirname(filename) != '' and is_executable_file(filename):", "    if os.path.dirname(filename) == '' and is_executable_file(filename):", 'D2'),
    ('isexec-accepts-dirs', 'utils', "    if not os.path.isfile(fpath):\n        # non-files (directories, fifo, etc.)\n        return False\n", "", 'D2'),
    ('which-environ-always', 'utils', "    if env is None:\n        env = os.environ\n    p = env.get('PATH')", "    p = os.environ.get('PATH')", 'D2'),
    ('which-last-match', 'utils', "        if is_executable_file(ff):\n            return ff\n    return None", "        if is_executable_file(ff):\n            found = ff\n    return found if pathlist else None", 'D2'),
    ('which-sorted-path', 'utils', "    pathlist = p.split(os.pathsep)", "    pathlist = sorted(p.split(os.pathsep))", 'D2'),
    ('spawn-which-no-env', 'pty_spawn', "        command_with_path = which(self.command, env=self.env)", "        command_with_path = which(self.command)", 'D2'),
    ('spawn-drop-cwd', 'pty_spawn', "        self.ptyproc = self._spawnpty(self.args, env=self.env,\n                                     cwd=self.cwd, **kwargs)", "        self.ptyproc = self._spawnpty(self.args, env=self.env,\n                                     **kwargs)", 'D3'),
    ('spawn-echo-const', 'pty_spawn', "        kwargs = {'echo': self.echo, 'preexec_fn': preexec_fn}", "        kwargs = {'echo': True, 'preexec_fn': preexec_fn}", 'D3'),
    ('wrapper-skips-user-fn', 'pty_spawn', "                signal.signal(signal.SIGHUP, signal.SIG_IGN)\n                if preexec_fn is not None:\n                    preexec_fn()", "                signal.signal(signal.SIGHUP, signal.SIG_IGN)", 'D3'),
    ('dimensions-after-spawn', 'pty_spawn', "        if dimensions is not None:\n            kwargs['dimensions'] = dimensions\n\n        if self.encoding is not None:", "        if self.encoding is not None:", 'D3'),
    ('popen-env-dropped', 'popen_spawn', "                      cwd=cwd, preexec_fn=preexec_fn, env=env)", "                      cwd=cwd, preexec_fn=preexec_fn)", 'D3'),
    ('init-env-late', 'pty_spawn', "        self.cwd = cwd\n        self.env = env\n", "        self.cwd = cwd\n        self.env = None\n", 'D3'),
]
PRESERVING = [
    ('which-or-form', 'utils', "    if env is None:\n        env = os.environ\n    p = env.get('PATH')\n    if not p:\n        p = os.defpath\n", "    source = os.environ if env is None else env\n    p = source.get('PATH') or os.defpath\n"),
    ('split-lstrip-first', 'utils', "    for c in command_line:\n", "    for c in command_line.lstrip():\n"),
    ('split-final-push-state', 'utils', "    if arg != '':\n        arg_list.append(arg)\n    return arg_list", "    if arg != '' and state == state_basic:\n        arg_list.append(arg)\n    return arg_list"),
    ('split-augassign', 'utils', "        elif state == state_esc:\n            arg = arg + c\n            state = state_basic", "        elif state == state_esc:\n            arg += c\n            state = state_basic"),
    ('split-none-to-pass', 'utils', "                    # Do nothing.\n                    None", "                    # Do nothing.\n                    pass"),
]

"""C02 A reported match is genuine, leftmost, lowest-index on ties."""
import ast

from ..astx import (calls_in, dotted, norm, src, iter_nodes, aliases_of, assigned_targets,
                    assigned_names, const_value, is_const, parent_chain)
from ..lib import (call_arg, relation, truth, other, cmp_views, core, holds_region, conditions, found_test, found_tests, path_tests, entails_empty, paths_entail_empty, eval_conditions, relation_tests, atom_key, expand_condition, mode_mismatch_conditions, cfg_nodes_with_call, node_calls, returns, stmt_assigns_attr, callee_last,
                   guard_region, find_test_nodes, compare_parts, is_name, is_self_attr)
from ..lib import *      # noqa: F401,F403  (path-condition helpers)
from ..linear import lin, ctext, Lin, slice_bounds
from ..loader import AnalysisError

EXPLANATION = (
    "Static analysis of the selection logic of both searchers and of the code that carries the result to the "
    "spawn object. Decided for every path of the current source: list positions are taken from enumerate() of "
    "the caller's list before EOF/TIMEOUT are filtered out (no crossing of eof_index/timeout_index); both search "
    "loops iterate the stored list in order, take the match START as candidate and update under a guard that a "
    "truth-table evaluation over {no best yet, candidate <, ==, > best} x {candidate valid, invalid} shows to be "
    "exactly 'valid and (no best or strictly smaller)'; index, position and match object are updated atomically "
    "in that block; start/match/end/return are coherent after the loop; do_search copies after/match/match_index "
    "from the same search, and before/after tile the pending text so that before ends exactly where the reported "
    "occurrence starts (D7, the linear slice algebra of C01-D6); compile_pattern_list and expect_exact keep the list aligned 1:1 with the user's list. "
    "NOT decided: that str.find / re.search report genuine occurrences (library), zero-width semantics.")
TRUSTED = ["str/bytes.find and re.Pattern.search return the leftmost occurrence at or after the given position",
           "enumerate / for-loop order over lists", "sa/ engine"]
ASSUMPTIONS = ["guards are evaluated by truth table over the order relation between candidate and best; "
               "comparison atoms the evaluator does not know make the check exit 2, not pass"]
LEVEL_TEXT = ("Static analysis of named structural clauses: enumerate-before-filter, strict arg-min in list order "
              "(guard decided by truth table over the 4 orderings x validity), atomic update of index/position/match, "
              "coherent start/match/end/return, copy to the spawn attributes, 1:1 list alignment of the pattern "
              "compilers. Exhaustive over the paths of the two searchers, do_search, compile_pattern_list, expect_exact.")
LEVEL_NOTE = ("Trusted: find/search library semantics, list iteration order, the analyser (mutation corpus in the "
              "thorough tier). Not decided: genuineness of occurrences reported by the library, zero-width patterns.")
TECHNIQUE = "AST/CFG queries + truth-table evaluation of the update guard (static analysis)"

SEARCHERS = [('expect:searcher_string', 'string'), ('expect:searcher_re', 're')]


class Unknown(Exception):
    pass


def eval_guard(e, env):
    """Evaluate a boolean test under a scenario.  env: dict with
    best (name), cand (name), rel in {'none','lt','eq','gt'}, valid (bool),
    validvar (name of the variable whose None-ness / sign encodes validity)."""
    if isinstance(e, ast.BoolOp):
        vals = [eval_guard(v, env) for v in e.values]
        return all(vals) if isinstance(e.op, ast.And) else any(vals)
    if isinstance(e, ast.UnaryOp) and isinstance(e.op, ast.Not):
        return not eval_guard(e.operand, env)
    if isinstance(e, ast.Compare) and len(e.ops) == 1:
        l, op, r = e.left, e.ops[0], e.comparators[0]
        # X is None / X is not None
        if isinstance(op, (ast.Is, ast.IsNot)) and isinstance(r, ast.Constant) and r.value is None \
                and isinstance(l, ast.Name):
            if l.id == env['best']:
                v = env['rel'] == 'none'
            elif l.id == env.get('validvar') and env.get('validkind') == 'none':
                v = not env['valid']
            else:
                raise Unknown(norm(e))
            return v if isinstance(op, ast.Is) else not v
        # validity of a find() result: n >= 0, n > -1, n != -1, n < 0, n == -1
        if isinstance(l, ast.Name) and l.id == env.get('validvar') and env.get('validkind') == 'sign':
            k = const_value(r, None)
            if isinstance(k, int) and not isinstance(k, bool):
                # find() returns -1 or a position >= 0: evaluate the comparison on the concrete value of this scenario
                import operator as _op
                fn = {ast.GtE: _op.ge, ast.Gt: _op.gt, ast.NotEq: _op.ne, ast.Lt: _op.lt, ast.LtE: _op.le, ast.Eq: _op.eq}.get(type(op))
                if fn is not None:
                    return fn(env['nval'], k)
        # cand OP best / best OP cand
        names = (l.id if isinstance(l, ast.Name) else None, r.id if isinstance(r, ast.Name) else None)
        if names == (env['cand'], env['best']) or names == (env['best'], env['cand']):
            rel = env['rel']
            if rel == 'none':
                raise Unknown('ordering comparison against None: %s' % norm(e))
            if names == (env['best'], env['cand']):
                rel = {'lt': 'gt', 'gt': 'lt', 'eq': 'eq'}[rel]
            table = {ast.Lt: rel == 'lt', ast.LtE: rel in ('lt', 'eq'), ast.Gt: rel == 'gt',
                     ast.GtE: rel in ('gt', 'eq'), ast.Eq: rel == 'eq', ast.NotEq: rel != 'eq'}
            for k, v in table.items():
                if isinstance(op, k):
                    return v
        raise Unknown(norm(e))
    raise Unknown(norm(e))


def short_circuit_eval(e, env):
    """Like eval_guard but respects short-circuit so that `best is None or c < best`
    does not evaluate the comparison against None."""
    if isinstance(e, ast.BoolOp):
        if isinstance(e.op, ast.And):
            for v in e.values:
                if not short_circuit_eval(v, env):
                    return False
            return True
        for v in e.values:
            if short_circuit_eval(v, env):
                return True
        return False
    if isinstance(e, ast.UnaryOp) and isinstance(e.op, ast.Not):
        return not short_circuit_eval(e.operand, env)
    return eval_guard(e, env)


def run(R):
    repo = R.repo
    with R.clause('D1', 'IDX', floor=10, desc='list positions come from enumerate() before EOF/TIMEOUT are filtered; no crossing') as c:
        for cq, kind in SEARCHERS:
            check_ctor(c, repo.func(cq + '.__init__'))
    with R.clause('D2', 'ARGMIN', floor=12, desc='search loops: list order, candidate = match start, strict < update, atomic update') as c2, \
         R.clause('D3', 'COHERENCE', floor=8, desc='start / match / end / returned index describe the chosen occurrence') as c3:
        for cq, kind in SEARCHERS:
            check_search(c2, c3, repo, repo.func(cq + '.__init__'), repo.func(cq + '.search'), kind)
    with R.clause('D4', 'FLOW', floor=3, desc='do_search copies after/match/match_index from the same search') as c:
        check_copy(c, repo)
    with R.clause('D5', 'ONCE', floor=5, desc='compiled pattern lists stay aligned 1:1 with the caller\'s list') as c:
        check_alignment(c, repo)
    with R.clause('D7', 'ALG', floor=6, desc='before ends exactly where the reported occurrence starts; after is that occurrence (shared with C01-D6)') as c:
        from .c01 import check_match_tiling
        check_match_tiling(c, repo)
    with R.clause('D6', 'COVER', floor=8, desc='no earlier occurrence is skipped: look-back and freshlen cover the searched text (shared with C03-D1/D3)') as c:
        from .c03 import check_find_offset, check_freshlen
        check_find_offset(c, repo)
        check_freshlen(c, repo)


# ---------------------------------------------------------------------------

def ctor_loop(c, f):
    loops = [n for n in iter_nodes(f.node) if isinstance(n, ast.For)]
    c.need(len(loops) == 1, '%s: expected one for loop, found %d' % (f.qual, len(loops)))
    return loops[0]


def check_ctor(c, f):
    loop = ctor_loop(c, f)
    param = f.params[1] if len(f.params) > 1 else None
    c.need(param, '%s has no list parameter' % f.qual)
    it = loop.iter
    ok = isinstance(it, ast.Call) and dotted(it.func) == 'enumerate' and len(it.args) == 1 \
        and is_name(it.args[0], param) and not it.keywords
    c.check(ok, f, loop, 'iterates enumerate(<the caller\'s list>) directly (no filter / sort / start offset)',
            witness=norm(it), kind='ast', tag='enumerate')
    c.need(isinstance(loop.target, ast.Tuple) and len(loop.target.elts) == 2
           and all(isinstance(e, ast.Name) for e in loop.target.elts), '%s: loop target is not (counter, item)' % f.qual)
    cnt, item = loop.target.elts[0].id, loop.target.elts[1].id
    # not rebound in the loop
    for n in iter_nodes(loop):
        if isinstance(n, (ast.Assign, ast.AugAssign)) and cnt in assigned_names(n):
            c.bad(f, n, 'the enumerate counter is modified inside the loop', kind='ast', tag='counter-rebound')
    g = f.cfg
    for marker, attr, other in (('EOF', 'eof_index', 'timeout_index'), ('TIMEOUT', 'timeout_index', 'eof_index')):
        tests = [t for t in g.nodes if t.kind == 'test' and compare_parts(t.ast) is not None
                 and is_name(compare_parts(t.ast)[0], item) and isinstance(compare_parts(t.ast)[1], (ast.Is, ast.Eq))
                 and is_name(compare_parts(t.ast)[2], marker)]
        c.need(len(tests) == 1, '%s: test `%s is %s` not found' % (f.qual, item, marker))
        region = guard_region(g, tests[0], 'true')
        asg = [n for n in region if n.kind == 'stmt' and stmt_assigns_attr(n.ast, attr) is not None]
        cross = [n for n in region if n.kind == 'stmt' and stmt_assigns_attr(n.ast, other) is not None]
        ok = len(asg) == 1 and is_name(asg[0].ast.value, cnt) and not cross
        c.check(ok, f, tests[0].ast, 'the %s entry records the enumerate counter in %s (and only there)' % (marker, attr),
                witness='assignments in that branch: %s' % [norm(n.ast) for n in asg + cross], tag='marker-' + marker)
        # that branch does not append to the pattern list and leaves the iteration (continue)
        hdr_ = g.node_of_stmt(loop)
        allapps = set(n for n in g.nodes if any(callee_last(k) == 'append' for k in node_calls(n)))
        starts_ = [s2 for s2, l2 in tests[0].succ if l2 == 'true']
        leak = [g.path(s2, allapps, avoid={hdr_}, skip_labels=('exc',)) for s2 in starts_]
        leak = [p for p in leak if p]
        c.check(not leak, f, tests[0].ast, 'the %s entry is not stored as a pattern (the iteration ends before the append)' % marker,
                witness='path to the append: ' + g.describe_path(leak[0]) if leak else None, tag='marker-skip-' + marker)
    # initial values -1
    for attr in ('eof_index', 'timeout_index'):
        inits = [n for n in g.nodes if n.kind == 'stmt' and stmt_assigns_attr(n.ast, attr) is not None
                 and not any(p is loop for p in parent_chain(n.ast))]
        ok = len(inits) == 1 and is_const(inits[0].ast.value, -1) and g.dominated_by(g.node_of_stmt(loop), {inits[0]})[0]
        c.check(ok, f, inits[0].ast if inits else None, '%s starts at -1 (absent) before the loop' % attr, kind='ast', tag='init-' + attr)
    # the append stores (counter, item)
    apps = [k for k in calls_in(loop) if callee_last(k) == 'append' and isinstance(k.func, ast.Attribute)
            and isinstance(k.func.value, ast.Attribute) and is_name(k.func.value.value, 'self')]
    c.need(len(apps) == 1, '%s: expected one append of (counter, pattern)' % f.qual)
    a = apps[0].args[0] if apps[0].args else None
    ok = isinstance(a, ast.Tuple) and len(a.elts) == 2 and is_name(a.elts[0], cnt) and is_name(a.elts[1], item)
    c.check(ok, f, apps[0], 'stores (enumerate counter, pattern) for every real pattern', witness=norm(apps[0]), kind='ast', tag='store-pair')
    mn, mx = g.occurrences(lambda n: any(k is apps[0] for k in node_calls(n)),
                           start=g.node_of_stmt(loop), goals={g.node_of_stmt(loop)}) if False else (None, None)
    return apps[0].func.value.attr, cnt, item


def check_search(c2, c3, repo, ctor, f, kind):
    g = f.cfg
    listattr, _, _ = None, None, None
    # which attribute did the constructor fill?
    cl = ctor_loop(c2, ctor)
    apps = [k for k in calls_in(cl) if callee_last(k) == 'append' and isinstance(k.func.value, ast.Attribute)]
    c2.need(len(apps) == 1, 'constructor append not found')
    listattr = apps[0].func.value.attr
    loops = [n for n in iter_nodes(f.node) if isinstance(n, ast.For)]
    c2.need(len(loops) == 1, '%s: expected one loop' % f.qual)
    loop = loops[0]
    c2.check(is_self_attr(loop.iter, listattr) or ctext(loop.iter, f) == 'self.' + listattr, f, loop,
             'iterates self.%s directly, in stored (= list) order' % listattr, witness=norm(loop.iter), kind='ast', tag='list-order')
    c2.need(isinstance(loop.target, ast.Tuple) and len(loop.target.elts) == 2 and
            all(isinstance(e, ast.Name) for e in loop.target.elts), 'loop target is not (index, pattern)')
    idx, pat = loop.target.elts[0].id, loop.target.elts[1].id
    buf = f.params[1]
    loopnode = g.node_of_stmt(loop)
    # best-position variable: tested `is None` after the loop leading to return -1
    after = g.reachable([s for s, l in loopnode.succ if l == 'false'])
    tests = [t for t in after if t.kind == 'test' and compare_parts(t.ast) is not None
             and isinstance(compare_parts(t.ast)[1], ast.Is) and isinstance(compare_parts(t.ast)[2], ast.Constant)
             and compare_parts(t.ast)[2].value is None and isinstance(compare_parts(t.ast)[0], ast.Name)]
    c3.need(len(tests) == 1, '%s: `if <best> is None: return -1` not found after the loop' % f.qual)
    best = compare_parts(tests[0].ast)[0].id
    nf = guard_region(g, tests[0], 'true')
    rets = [n for n in nf if n.kind == 'stmt' and isinstance(n.ast, ast.Return)]
    c3.check(len(rets) == 1 and is_const(rets[0].ast.value, -1), f, tests[0].ast,
             'no candidate found -> returns -1 before any attribute is touched', kind='path', tag='not-found')
    ok, p = g.dominated_by(tests[0], set(), ())
    # the update: assignment best = cand inside the loop
    ups = [n for n in iter_nodes(loop) if isinstance(n, ast.Assign) and best in assigned_names(n)]
    c2.need(len(ups) == 1 and isinstance(ups[0].value, ast.Name), '%s: expected one update `%s = <candidate>` in the loop' % (f.qual, best))
    up = ups[0]
    cand = up.value.id
    # candidate definition
    cdefs = [n for n in iter_nodes(loop) if isinstance(n, ast.Assign) and cand in assigned_names(n)]
    c2.need(len(cdefs) == 1, 'candidate %s assigned %d times in the loop' % (cand, len(cdefs)))
    cv = cdefs[0].value
    validvar, validkind, matchvar = None, None, None
    mdefs = []
    if kind == 'string':
        ok = isinstance(cv, ast.Call) and callee_last(cv) == 'find' and is_name(cv.func.value, buf) \
            and cv.args and is_name(cv.args[0], pat)
        c2.check(ok, f, cdefs[0], 'candidate position = %s.find(<pattern>, ...): the START of the leftmost occurrence' % buf,
                 witness=norm(cv), kind='ast', tag='cand-start')
        validvar, validkind = cand, 'sign'
    else:
        ok = isinstance(cv, ast.Call) and callee_last(cv) == 'start' and isinstance(cv.func.value, ast.Name) and not cv.args
        c2.check(ok, f, cdefs[0], 'candidate position = <match>.start()', witness=norm(cv), kind='ast', tag='cand-start')
        if isinstance(cv, ast.Call) and isinstance(cv.func, ast.Attribute) and isinstance(cv.func.value, ast.Name):
            matchvar = cv.func.value.id
            mdefs = [n for n in iter_nodes(loop) if isinstance(n, ast.Assign) and matchvar in assigned_names(n)]
            okm = len(mdefs) == 1 and isinstance(mdefs[0].value, ast.Call) and callee_last(mdefs[0].value) == 'search' \
                and is_name(mdefs[0].value.func.value, pat) and mdefs[0].value.args and is_name(mdefs[0].value.args[0], buf)
            c2.check(okm, f, mdefs[0] if mdefs else cdefs[0], 'the match object comes from <pattern>.search(%s, ...)' % buf,
                     kind='ast', tag='match-src')
            validvar, validkind = matchvar, 'none'
    # the range searched for each pattern must not depend on what earlier patterns matched
    scall = cv if kind == 'string' else (mdefs[0].value if mdefs else None)
    if isinstance(scall, ast.Call):
        ek = end_bound_kind(f, scall, buf)
        if ek == 'unknown':
            raise AnalysisError('%s: the search is given an end position that is neither the end of the buffer nor the end of an earlier match (%s): '
                                'whether every occurrence can still be found cannot be decided' % (f.qual, norm(scall)))
        c2.check(ek in ('none', 'whole'), f, scall,
                 'each pattern is searched up to the END of the buffer (no end position: an occurrence of a later-listed pattern that starts earlier '
                 'but ends later than the current best must still be found)', witness=norm(scall), kind='ast', tag='no-end-bound')
        used = set(x.id for a in scall.args for x in ast.walk(a) if isinstance(x, ast.Name))
        blk = None
        for p_ in parent_chain(up):
            if isinstance(p_, (ast.If, ast.For)):
                blk = p_.body if any(s_ is up for s_ in p_.body) else None
                break
        carried_now = set()
        for s_ in (blk or []):
            carried_now.update(assigned_names(s_))
        dep = sorted(used & carried_now)
        c2.check(not dep, f, scall, 'the search range of a pattern does not depend on the matches found for earlier patterns',
                 witness='arguments use %s, which the update block assigns' % dep if dep else None, kind='flow', tag='range-independent')
    # guards governing the update: enclosing ifs + earlier `if T: continue`
    guards = []      # (test expr, required truth)
    node = up
    for p in parent_chain(up):
        if p is loop:
            break
        if isinstance(p, ast.If):
            inbody = any(node is s or any(node is d for d in ast.walk(s)) for s in p.body)
            guards.append((p.test, inbody))
        node = p
    top = node   # statement of the loop body containing the update
    for st in loop.body:
        if st is top:
            break
        if isinstance(st, ast.If) and not st.orelse and len(st.body) == 1 and isinstance(st.body[0], ast.Continue):
            # `if len(s) > len(buffer): continue` -- a string longer than the buffer cannot occur in it: skipping it changes nothing
            tt = ctext(st.test, f, stale_ok=True)
            if kind == 'string' and tt in ('len(%s) > len(%s)' % (pat, buf), 'len(%s) < len(%s)' % (buf, pat)):
                continue
            guards.append((st.test, False))
        elif isinstance(st, ast.If) and any(isinstance(x, (ast.Continue, ast.Break, ast.Return, ast.Raise))
                                            for x in ast.walk(st)):
            raise AnalysisError('%s: unrecognised conditional before the update: %s' % (f.qual, norm(st.test)))
    c2.need(guards, '%s: update is unguarded' % f.qual)
    want = {('none', True): True, ('lt', True): True, ('eq', True): False, ('gt', True): False,
            ('none', False): False, ('lt', False): False, ('eq', False): False, ('gt', False): False}
    rows = []
    bad = []
    for (rel, valid), expect in sorted(want.items()):
      # a position found by find() is 0 or larger (both are tried: a match at the very start of the buffer is a match); -1 = not found
      for nval in ((0, 3) if valid else (-1,)):
        env = {'best': best, 'cand': cand, 'rel': rel, 'valid': valid, 'validvar': validvar, 'validkind': validkind, 'nval': nval}
        if nval == 0 and rel == 'gt':
            continue        # a candidate at position 0 cannot lie after the best so far
        try:
            got = True
            # source order: outer guards / earlier continues first
            for test, req in reversed(guards) if False else sorted(guards, key=lambda tr: tr[0].lineno):
                if short_circuit_eval(test, env) != req:
                    got = False
                    break
        except Unknown as u:
            raise AnalysisError('%s: update guard uses a comparison the evaluator does not know: %s' % (f.qual, u))
        rows.append('%s/%s%s->%s' % (rel, 'valid' if valid else 'invalid', '@%d' % nval if validkind == 'sign' else '', got))
        if got != expect:
            bad.append((rel, valid, got, expect))
    msg = {'eq': 'a later-listed pattern matching at the SAME position replaces the earlier one (ties must keep the first-listed)',
           'gt': 'a later occurrence replaces an earlier one', 'lt': 'an earlier occurrence does not replace a later one',
           'none': 'the first candidate is not accepted'}
    if bad:
        rel, valid, got, expect = bad[0]
        what = msg[rel] if valid else 'an invalid candidate (no occurrence) updates the best match'
        c2.bad(f, up, 'update guard is not "valid and (no best yet or candidate < best)": ' + what,
               witness='truth table ' + ' '.join(rows), kind='alg', tag='strict-argmin')
    else:
        c2.ok(f, up, 'update guard == valid and (best is None or candidate < best) on all 8 scenarios [%s]' % ' '.join(rows),
              kind='alg', tag='strict-argmin')
    # atomic update: every loop-assigned name read after the loop is assigned in the update block, only there
    block = None
    for p in parent_chain(up):
        if isinstance(p, (ast.If, ast.For)):
            block = p.body if any(s is up for s in p.body) else (p.orelse if any(s is up for s in getattr(p, 'orelse', [])) else None)
            break
    c2.need(block is not None, 'update block not found')
    in_block = set()
    for s in block:
        in_block.update(assigned_names(s))
    loop_assigned = {}
    for n in iter_nodes(loop):
        if isinstance(n, (ast.Assign, ast.AugAssign)):
            for nm in assigned_names(n):
                loop_assigned.setdefault(nm, []).append(n)
    read_after = set()
    for n in after:
        if n.ast is not None and n.kind in ('stmt', 'test'):
            read_after.update(x.id for x in iter_nodes(n.ast) if isinstance(x, ast.Name) and isinstance(x.ctx, ast.Load))
    carried = sorted(nm for nm in read_after if nm in loop_assigned)
    for nm in carried:
        sites = loop_assigned[nm]
        ok = nm in in_block and all(any(s is x for x in block) for s in sites)
        c2.check(ok, f, sites[0], 'loop-carried result `%s` is updated together with the best position (same block, nowhere else)' % nm,
                 witness='assigned at lines %s' % [s.lineno for s in sites], tag='atomic-' + nm)
    c2.check(len(carried) >= 3, f, up, 'position, list index and match are all carried out of the loop by the update block',
             witness='carried: %s' % carried, tag='carries-all')
    # what each carried variable holds
    vals = {}
    for s in block:
        if isinstance(s, ast.Assign):
            tg = s.targets[0]
            if isinstance(tg, ast.Name):
                vals[tg.id] = s.value
            elif isinstance(tg, ast.Tuple) and isinstance(s.value, ast.Tuple) and len(tg.elts) == len(s.value.elts):
                for a, b in zip(tg.elts, s.value.elts):
                    if isinstance(a, ast.Name):
                        vals[a.id] = b
    idxvars = [k for k, v in vals.items() if is_name(v, idx)]
    want_match = pat if kind == 'string' else matchvar
    matchvars = [k for k, v in vals.items() if is_name(v, want_match)]
    c2.check(len(idxvars) == 1, f, up, 'the block records the list index of the winning pattern', witness=str(sorted(vals)), kind='ast', tag='records-index')
    c2.check(len(matchvars) == 1, f, up, 'the block records the winning %s' % ('string' if kind == 'string' else 'match object'),
             witness=str(sorted(vals)), kind='ast', tag='records-match')
    # ---- D3: after the loop
    found = guard_region(g, tests[0], 'false')
    asg = {}
    for n in sorted(found, key=lambda n: n.id):
        if n.kind == 'stmt':
            for attr in ('start', 'end', 'match'):
                if stmt_assigns_attr(n.ast, attr) is not None:
                    asg.setdefault(attr, []).append(n)
    for attr in ('start', 'end', 'match'):
        c3.need(len(asg.get(attr, [])) == 1, '%s: expected one assignment to self.%s after the loop' % (f.qual, attr))
    c3.check(is_name(asg['start'][0].ast.value, best), f, asg['start'][0].ast, 'self.start = best position',
             witness=norm(asg['start'][0].ast), kind='ast', tag='start')
    c3.check(bool(matchvars) and is_name(asg['match'][0].ast.value, matchvars[0]), f, asg['match'][0].ast,
             'self.match = the winning %s' % ('string' if kind == 'string' else 'match object'),
             witness=norm(asg['match'][0].ast), kind='ast', tag='match')
    ev = asg['end'][0].ast.value
    if kind == 'string':
        got = lin(ev, f, keep=tuple(matchvars) + (best,))
        # accept self.start + len(self.match) / best + len(best_match)
        def canon_terms(L):
            t = {}
            for a, k in (L.terms if L else {}).items():
                a2 = a.replace('self.start', best).replace('self.match', matchvars[0] if matchvars else '?')
                t[a2] = t.get(a2, 0) + k
            return (L.const if L else None, t)
        want_l = (0, {best: 1, 'len(%s)' % (matchvars[0] if matchvars else '?'): 1})
        ok = got is not None and canon_terms(got) == want_l
        # ordering: self.start / self.match must be assigned before being read
        if ok and 'self.start' in norm(ev):
            ok = g.dominated_by(asg['end'][0], {asg['start'][0]})[0]
        if ok and 'self.match' in norm(ev):
            ok = ok and g.dominated_by(asg['end'][0], {asg['match'][0]})[0]
        c3.check(ok, f, asg['end'][0].ast, 'self.end = start + len(winning string)', witness='%s = %r' % (norm(ev), got), kind='alg', tag='end')
    else:
        ok = isinstance(ev, ast.Call) and callee_last(ev) == 'end' and not ev.args and \
            (norm(ev.func.value) == 'self.match' or (matchvars and is_name(ev.func.value, matchvars[0])))
        if ok and norm(ev.func.value) == 'self.match':
            ok = g.dominated_by(asg['end'][0], {asg['match'][0]})[0]
        c3.check(ok, f, asg['end'][0].ast, 'self.end = <winning match>.end()', witness=norm(ev), kind='ast', tag='end')
    rets = [n for n in found if n.kind == 'stmt' and isinstance(n.ast, ast.Return)]
    c3.check(len(rets) == 1 and bool(idxvars) and is_name(rets[0].ast.value, idxvars[0]), f, rets[0].ast if rets else None,
             'returns the list index recorded with the winner', kind='ast', tag='return-index')


def check_copy(c, repo):
    f = repo.func('expect:Expecter.do_search')
    g = f.cfg
    sn = cfg_nodes_with_call(f, lambda k: callee_last(k) == 'search')
    c.need(len(sn) == 1 and isinstance(sn[0][0].ast, ast.Assign), 'do_search: index = searcher.search(...) not found')
    idx = sn[0][0].ast.targets[0].id
    recv = ctext(sn[0][1].func.value, f)
    tests = found_tests(g, idx)
    c.need(len(tests) == 1, 'do_search: test of %s against the not-found value not found' % idx)
    c.check(tests[0][1] != 'wrong', f, tests[0][0].ast, 'a match is any index >= 0 (index 0, the first pattern of the list, included)',
            witness=norm(tests[0][0].ast), kind='alg', tag='match-test')
    if tests[0][1] == 'wrong':
        return
    region = guard_region(g, tests[0][0], tests[0][1])
    m = [n for n in region if n.kind == 'stmt' and stmt_assigns_attr(n.ast, 'match') is not None]
    mi = [n for n in region if n.kind == 'stmt' and stmt_assigns_attr(n.ast, 'match_index') is not None]
    c.check(len(m) == 1 and ctext(m[0].ast.value, f) == recv + '.match', f, m[0].ast if m else None,
            'spawn.match = <the searcher that searched>.match', witness=norm(m[0].ast) if m else 'missing', tag='copy-match')
    c.check(len(mi) == 1 and is_name(mi[0].ast.value, idx), f, mi[0].ast if mi else None,
            'spawn.match_index = the index search() returned', witness=norm(mi[0].ast) if mi else 'missing', tag='copy-index')
    rets = [n for n in region if n.kind == 'stmt' and isinstance(n.ast, ast.Return)]
    c.check(len(rets) == 1 and is_name(rets[0].ast.value, idx), f, rets[0].ast if rets else None,
            'do_search returns that same index', tag='return-index')
    # idx not modified between search and use
    mods = [n for n in g.nodes if n.kind == 'stmt' and idx in assigned_names(n.ast) and n is not sn[0][0]]
    c.check(not mods, f, mods[0].ast if mods else None, 'the index is not modified after the search', tag='index-stable')


def check_alignment(c, repo):
    f = repo.func('spawnbase:SpawnBase.compile_pattern_list')
    g = f.cfg
    loops = [n for n in iter_nodes(f.node) if isinstance(n, ast.For)]
    c.need(len(loops) == 1, 'compile_pattern_list: expected one loop')
    loop = loops[0]
    it = loop.iter
    param = f.params[1]
    src_ok = is_name(it, param) or (isinstance(it, ast.Call) and dotted(it.func) == 'enumerate' and len(it.args) == 1
                                    and is_name(it.args[0], param))
    c.check(src_ok, f, loop, 'iterates the caller\'s pattern list in order, unfiltered', witness=norm(it), kind='ast', tag='cpl-iter')
    ln = g.node_of_stmt(loop)
    rets = returns(f)
    outs = [n for n in rets if g.path(ln, n, skip_labels=('exc',)) is not None]
    c.need(len(outs) == 1 and isinstance(outs[0].ast.value, ast.Name), 'compile_pattern_list: final return of the list not found')
    lst = outs[0].ast.value.id

    def is_app(n):
        return any(callee_last(k) == 'append' and is_name(k.func.value, lst) for k in node_calls(n))
    # one iteration = path from the loop header (true edge) back to the header
    body_entry = [s for s, l in ln.succ if l == 'true']
    c.need(body_entry, 'loop body not found')
    mn, mx = g.occurrences(is_app, start=body_entry[0], goals={ln}, skip_labels=('exc', 'raise'))
    c.check(mn == 1 and mx == 1, f, loop, 'every non-raising iteration appends exactly one element (EOF/TIMEOUT included)',
            witness='min=%s max=%s appends per iteration' % (mn, mx), tag='cpl-one-append')
    # the list is created empty before the loop and not otherwise modified
    inits = [n for n in g.nodes if n.kind == 'stmt' and lst in assigned_names(n.ast)]
    c.check(len(inits) == 1 and isinstance(inits[0].ast.value, ast.List) and not inits[0].ast.value.elts, f,
            inits[0].ast if inits else None, 'the compiled list starts empty and is assigned once', kind='ast', tag='cpl-init')
    # expect() passes the compiled list on; expect_list wraps its parameter
    f2 = repo.func('spawnbase:SpawnBase.expect')
    cp = [k for k in calls_in(f2.node) if callee_last(k) == 'compile_pattern_list']
    el = [k for k in calls_in(f2.node) if callee_last(k) == 'expect_list']
    ok = len(cp) == 1 and len(el) == 1 and cp[0].args and is_name(cp[0].args[0], f2.params[1])
    if ok:
        st = cp[0]._parent
        ok = isinstance(st, ast.Assign) and isinstance(st.targets[0], ast.Name) and el[0].args and is_name(el[0].args[0], st.targets[0].id)
    c.check(ok, f2, el[0] if el else None, 'expect() compiles the caller\'s pattern and searches exactly that list', kind='ast', tag='expect-pass')
    f3 = repo.func('spawnbase:SpawnBase.expect_list')
    sr = [k for k in calls_in(f3.node) if callee_last(k) == 'searcher_re']
    c.check(len(sr) == 1 and sr[0].args and is_name(sr[0].args[0], f3.params[1]), f3, sr[0] if sr else None,
            'expect_list searches its pattern_list parameter as given', kind='ast', tag='expect_list-pass')
    # expect_exact
    f4 = repo.func('spawnbase:SpawnBase.expect_exact')
    ss = [k for k in calls_in(f4.node) if callee_last(k) == 'searcher_string']
    c.need(len(ss) == 1 and ss[0].args and isinstance(ss[0].args[0], ast.Name), 'expect_exact: searcher_string(<list>) not found')
    lv = ss[0].args[0].id
    comps = [n for n in iter_nodes(f4.node) if isinstance(n, ast.Assign) and lv in assigned_names(n)
             and isinstance(n.value, ast.ListComp)]
    c.need(len(comps) == 1, 'expect_exact: list comprehension preparing the patterns not found')
    lc = comps[0].value
    gen = lc.generators[0]
    ok = len(lc.generators) == 1 and not gen.ifs and isinstance(lc.elt, ast.Call) and len(lc.elt.args) == 1 \
        and isinstance(gen.target, ast.Name) and is_name(lc.elt.args[0], gen.target.id)
    c.check(ok, f4, comps[0], 'expect_exact prepares the list with an unfiltered 1:1 comprehension', witness=norm(lc), kind='ast', tag='exact-1to1')
    # prepare_pattern returns a value or raises on every path
    helper = dotted(lc.elt.func) if isinstance(lc.elt, ast.Call) else None
    mh = mapped_helper(repo, f4)
    hf = mh[0] if mh is not None and mh[2] is lc else None
    c.need(hf is not None, 'expect_exact: helper %s not found' % helper)
    hg = hf.cfg
    # paths reaching the normal exit without a return statement (fall off the end) must end in a no-return call
    falls = [p for p, l in hg.exit.pred if not (p.kind == 'stmt' and isinstance(p.ast, ast.Return))]
    bad = []
    for p in falls:
        if not (p.kind == 'stmt' and isinstance(p.ast, ast.Expr) and isinstance(p.ast.value, ast.Call)
                and callee_last(p.ast.value) == '_pattern_type_err'):
            bad.append(p)
    noret = repo.func('spawnbase:SpawnBase._pattern_type_err')
    nr_ok = not [p for p, l in noret.cfg.exit.pred]
    retnone = [n for n in returns(hf) if n.ast.value is None]
    c.check(not bad and nr_ok and not retnone, hf, (bad[0].ast if bad else None),
            'the helper returns the prepared pattern or raises on every path (never yields None into the list)',
            witness='falls off the end after %s' % norm(bad[0].ast) if bad else None, tag='helper-total')


MUTANTS = [
    ('str-le', 'expect', "n < first_match):\n                first_match = n\n                best_index, best_match", "n <= first_match):\n                first_match = n\n                best_index, best_match", 'D2'),
    ('re-le', 'expect', "            if first_match is None or n < first_match:\n                first_match = n\n                the_match", "            if first_match is None or n <= first_match:\n                first_match = n\n                the_match", 'D2'),
    ('re-gt', 'expect', "            if first_match is None or n < first_match:\n                first_match = n\n                the_match", "            if first_match is None or n > first_match:\n                first_match = n\n                the_match", 'D2'),
    ('re-cand-end', 'expect', "            n = match.start()", "            n = match.end()", 'D2'),
    ('str-renumber', 'expect', "            self._strings.append((n, s))", "            self._strings.append((len(self._strings), s))", 'D1'),
    ('re-forget-index', 'expect', "                the_match = match\n                best_index = index\n", "                the_match = match\n", 'D2'),
    ('re-index-outside', 'expect', "                the_match = match\n                best_index = index\n", "                the_match = match\n            best_index = index\n", 'D2'),
    ('swap-eof-timeout-str', 'expect', "            if s is EOF:\n                self.eof_index = n\n                continue\n            if s is TIMEOUT:\n                self.timeout_index = n\n                continue\n            self._strings", "            if s is EOF:\n                self.timeout_index = n\n                continue\n            if s is TIMEOUT:\n                self.eof_index = n\n                continue\n            self._strings", 'D1'),
    ('str-no-valid-check', 'expect', "            if n >= 0 and (first_match is None or n < first_match):", "            if first_match is None or n < first_match:", 'D2'),
    ('str-reversed', 'expect', "        for index, s in self._strings:\n            if searchwindowsize is None:", "        for index, s in reversed(self._strings):\n            if searchwindowsize is None:", 'D2'),
    ('str-end-wrong', 'expect', "        self.end = self.start + len(self.match)", "        self.end = self.start + len(self.match) - 1", 'D3'),
    ('re-end-from-start', 'expect', "        self.end = self.match.end()", "        self.end = self.match.start()", 'D3'),
    ('re-return-const', 'expect', "        self.end = self.match.end()\n        return best_index", "        self.end = self.match.end()\n        return 0", 'D3'),
    ('copy-index-wrong', 'expect', "            spawn.match_index = index\n            # Found a match", "            spawn.match_index = 0\n            # Found a match", 'D4'),
    ('copy-match-other', 'expect', "            spawn.match = searcher.match\n", "            spawn.match = spawn.searcher\n", 'D4'),
    ('cpl-skip-eof', 'spawnbase', "            elif p is EOF:\n                compiled_pattern_list.append(EOF)\n", "            elif p is EOF:\n                self.delimiter = EOF\n", 'D5'),
    ('exact-filter', 'spawnbase', "        pattern_list = [prepare_pattern(p) for p in pattern_list]", "        pattern_list = [prepare_pattern(p) for p in pattern_list if p]", 'D5'),
    ('enumerate-start1', 'expect', "        for n, s in enumerate(patterns):", "        for n, s in enumerate(patterns, 1):", 'D1'),
    ('re-enumerate-own', 'expect', "        for n, s in enumerate(patterns):\n            if s is EOF:\n                self.eof_index = n\n                continue\n            if s is TIMEOUT:\n                self.timeout_index = n\n                continue\n            self._searches.append((n, s))",
     "        for n, s in enumerate(patterns):\n            if s is EOF:\n                self.eof_index = n\n                continue\n            if s is TIMEOUT:\n                self.timeout_index = n\n                continue\n            self._searches.append((s, n))", 'D1'),
]
MUTANTS += [
    ('before-minus-unmatched', 'expect', "            spawn.before = before[\n                0:len(before) - (len(window) - searcher.start)]", "            unmatched = len(window) - searcher.start\n            spawn.before = before[:-unmatched]", 'D7'),
    ('str-marker-falls-through', 'expect', "            if s is EOF:\n                self.eof_index = n\n                continue\n            if s is TIMEOUT:\n                self.timeout_index = n\n                continue\n            self._strings.append((n, s))", "            if s is EOF:\n                self.eof_index = n\n            if s is TIMEOUT:\n                self.timeout_index = n\n                continue\n            self._strings.append((n, s))", 'D1'),
    ('re-shrinking-end', 'expect', "            match = s.search(buffer, searchstart)\n", "            match = s.search(buffer, searchstart, len(buffer) if first_match is None else the_match.end())\n", 'D2'),
    ('existing-freshlen-buf', 'expect', "        freshlen = before_len\n", "        freshlen = buf_len\n", 'D6'),
]
PRESERVING = [
    ('rest-via-setter', 'expect', '            spawn._buffer = spawn.buffer_type()\n            spawn._buffer.write(window[searcher.end:])\n            before = spawn._before.getvalue()\n            spawn.before = before[\n                0:len(before) - (len(window) - searcher.start)]\n            spawn._before = spawn.buffer_type()\n            spawn._before.write(window[searcher.end:])\n            spawn.after = window[searcher.start:searcher.end]\n', '            before = spawn._before.getvalue()\n            spawn.before = before[\n                0:len(before) - (len(window) - searcher.start)]\n            spawn.after = window[searcher.start:searcher.end]\n            spawn.buffer = window[searcher.end:]\n'),
    ('clamp-min', 'expect', '        if freshlen > len(window):\n            freshlen = len(window)\n', '        freshlen = min(len(window), freshlen)\n'),
    ('str-gt-flip', 'expect', "n < first_match):\n                first_match = n\n                best_index, best_match", "first_match > n):\n                first_match = n\n                best_index, best_match"),
    ('re-early-continue-not', 'expect', "            if match is None:\n                continue\n            n = match.start()", "            if not (match is not None):\n                continue\n            n = match.start()"),
    ('str-valid-ne', 'expect', "            if n >= 0 and (first_match is None", "            if n != -1 and (first_match is None"),
]

"""C07 Unicode mode decodes the stream as a whole."""
import ast

from ..astx import (calls_in, dotted, norm, src, iter_nodes, assigned_targets, assigned_names,
                    const_value, is_const, parent_chain)
from ..lib import (guard_region, call_arg, relation, truth, other, cmp_views, core, holds_region, conditions, found_test, found_tests, path_tests, entails_empty, paths_entail_empty, eval_conditions, relation_tests, atom_key, expand_condition, mode_mismatch_conditions, cfg_nodes_with_call, node_calls, returns, stmt_assigns_attr, callee_last,
                   is_name, is_self_attr, node_roots)
from ..lib import *      # noqa: F401,F403  (path-condition helpers)
from ..loader import AnalysisError
from ..taint import Labels
from .. import stores

EXPLANATION = (
    "Static taint analysis of the read side: raw-byte sources (os.read, socket.recv, the pipe queue, the asyncio "
    "data_received argument) must reach the delivery sinks (return value of every read_nonblocking, _log(.,'read'), "
    "the pending-text stores, new_data) only through the instance's persistent incremental decoder, exactly once "
    "(D1, flow-sensitive label propagation over the CFG of every read implementation and the asyncio protocol); the "
    "decoder/encoder objects are created once in the constructor from codecs.getincremental*(encoding)(codec_errors), "
    "never re-created anywhere in the package, never called with final=True, and no read path uses bytes.decode (D2); "
    "the bytes-mode coder returns its argument (D3); bytes mode selects BytesIO + pass-through coder, text mode "
    "StringIO + incremental coders (D4); end of stream is decided on the raw bytes, not on decoder output, which is legitimately empty for a chunk that ends inside a character (D5); a memoised codec factory counts as a shared decoder (D2). NOT decided: the codecs' own behaviour; interact() is bytes-level by design.")
TRUSTED = ["codecs incremental decoders keep an undecoded tail between calls made with final=False", "sa/ engine (label dataflow)"]
ASSUMPTIONS = ["values returned by super().read_nonblocking are already decoded (that function is analysed itself)"]
LEVEL_TEXT = ("Static taint analysis: every def-use path from a raw-byte source to a delivery sink crosses the "
              "persistent incremental decoder exactly once, on all CFG paths of the 5 read implementations and the "
              "asyncio protocol; creation/ownership/final-flag discipline of the coder objects over the whole package.")
LEVEL_NOTE = "Trusted: codecs library semantics; analyser. Not decided: correctness of the codec itself."
TECHNIQUE = "flow-sensitive taint (label) dataflow on the CFG + who-may-write check (static analysis)"

RAW_CALLS = ('os.read',)


def classify(call, args, env, L):
    d = dotted(call.func) or ''
    last = callee_last(call)
    if d in RAW_CALLS or last in ('recv', 'recv_into', 'get_nowait') or (last == 'get' and '_read_queue' in d):
        return {'raw'}
    if last == 'decode' and isinstance(call.func, ast.Attribute):
        recv = dotted(call.func.value) or ''
        if recv.endswith('._decoder'):
            a = args[0] if args else frozenset()
            out = set()
            if 'raw' in a:
                out.add('text')
            if 'text' in a:
                out.add('double-decoded')
            if not out:
                out.add('text' if a <= {'other', 'const'} else 'other')
            fin = call_arg(call, 'final', 1)
            if fin is not None and not is_const(fin, False):
                out.add('final-true')
            return out
        # bytes.decode on raw data: per-chunk decoding, splits multi-byte characters
        a = L.expr_labels(call.func.value, env)
        if 'raw' in a:
            return {'chunk-decoded'}
        return None
    if last == 'read_nonblocking' and isinstance(call.func, ast.Attribute) and isinstance(call.func.value, ast.Call) \
            and dotted(call.func.value.func) == 'super':
        return {'text'}
    if last in ('string_type',):
        return {'text'}
    if last == '__interact_read' or last == '_spawn__interact_read':
        return {'raw'}
    return None


def run(R):
    repo = R.repo
    impls = repo.implementations('SpawnBase', 'read_nonblocking')
    units = list(impls) + [repo.func('_async_w_await:PatternWaiter.data_received'),
                           repo.func('pty_spawn:spawn.__interact_copy')]          # interact() logs what the child wrote: the same decoder discipline
    with R.clause('D1', 'FLOW', floor=12, desc='raw bytes reach delivery sinks only through the incremental decoder, exactly once') as c:
        for f in units:
            check_taint(c, f)
    with R.clause('D5', 'FLOW', floor=2, desc='end of stream is recognised on the raw read result, never on decoder output') as c:
        check_eof_test_raw(c, repo)
    with R.clause('D2', 'OWN', floor=6, desc='coders created once, never re-created, never final=True, no bytes.decode on a read path') as c:
        check_coders(c, repo, units)
    with R.clause('D3', 'ID', floor=2, desc='bytes-mode coder passes data through unchanged') as c:
        for m in ('encode', 'decode'):
            f = repo.func('spawnbase:_NullCoder.' + m)
            rets = returns(f)
            ok = len(rets) == 1 and is_name(rets[0].ast.value, f.params[0])
            c.check(ok, f, rets[0].ast if rets else None, '_NullCoder.%s returns its argument' % m, kind='ast', tag='nullcoder-' + m)
    with R.clause('D4', 'CONFIG', floor=4, desc='bytes mode: BytesIO + pass-through coder; text mode: StringIO + incremental coders') as c:
        check_mode_selection(c, repo)


def emptiness_test(e):
    """(tested expression, outcome label on which it is EMPTY) for  x == b'' / x == '' / not x / x / len(x) == 0, else None"""
    r = relation(e)
    if r and r[0] == 'eq':
        for a, b in ((r[1], r[2]), (r[2], r[1])):
            if isinstance(b, ast.Constant) and b.value in (b'', ''):
                return a, r[3]
            if isinstance(b, ast.Constant) and b.value == 0 and isinstance(a, ast.Call) and dotted(a.func) == 'len' and a.args:
                return a.args[0], r[3]
        return None
    co, lab = truth(e)
    if isinstance(co, (ast.Name, ast.Attribute)):
        return co, other(lab)
    return None


def check_eof_test_raw(c, repo):
    """end of stream is recognised on the RAW read result: an empty recv()/os.read() means the peer closed, whereas the decoder
    legitimately returns '' for a chunk that holds only the first bytes of a multi-byte character"""
    n_units = 0
    for q in ('socket_pexpect:SocketSpawn.read_nonblocking', 'spawnbase:SpawnBase.read_nonblocking'):
        f = repo.func(q)
        g = f.cfg
        L = Labels(f, classify, param_labels={}, attr_labels={'self._buf': ['text']}).run()
        eofs = [n for n in g.nodes if n in g.live_nodes() and n.kind == 'stmt' and
                ((stmt_assigns_attr(n.ast, 'flag_eof') is not None and is_const(getattr(n.ast, 'value', None), True)))]
        found = 0
        for n in eofs:
            for t in g.nodes:
                if t.kind != 'test' or t.ast is None:
                    continue
                et = emptiness_test(t.ast)
                if not et or n not in guard_region(g, t, et[1]):
                    continue
                found += 1
                labs = set(L.labels_at(t, et[0])) - {'const'}
                ok = 'raw' in labs and not (labs & {'text', 'double-decoded', 'chunk-decoded'})
                c.check(ok, f, t.ast, 'end of stream is decided by the emptiness of the raw read result (before decoding)',
                        witness='the tested value %s carries %s%s' % (norm(et[0]), sorted(labs),
                                                                      '' if ok else ': decoder output is empty for a chunk that ends inside a multi-byte character, which would be reported as EOF'),
                        kind='flow', tag='eof-raw:' + f.qual.split(':')[1])
        n_units += found
    c.need(n_units >= 2, 'expected an empty-read EOF test in the base and the socket read, found %d' % n_units)


def check_taint(c, f):
    params = {}
    if f.name == 'data_received':
        params[f.params[1]] = ['raw']
    attr = {'self._buf': ['text']}
    L = Labels(f, classify, param_labels=params, attr_labels=attr).run()
    g = f.cfg
    live = g.live_nodes()
    n_sinks = 0
    for n in g.nodes:
        if n not in live or n.ast is None:
            continue
        sinks = []
        if n.kind == 'stmt' and isinstance(n.ast, ast.Return) and n.ast.value is not None and f.name == 'read_nonblocking':
            sinks.append(('the value returned to the caller', n.ast.value))
        for k in node_calls(n):
            last = callee_last(k)
            if last == '_log' and len(k.args) >= 2 and is_const(k.args[1], 'read'):
                sinks.append(("the value logged as 'read'", k.args[0]))
            if last == 'new_data' and k.args:
                sinks.append(('the text handed to the search', k.args[0]))
            sc = stores.store_call(k, f)
            if sc and sc[1] == 'write' and k.args:
                sinks.append(('the text appended to %s' % sc[0], k.args[0]))
        if n.kind == 'stmt' and stmt_assigns_attr(n.ast, '_buf') is not None and isinstance(n.ast, ast.Assign):
            v = n.ast.value
            if isinstance(n.ast.targets[0], ast.Tuple) and isinstance(v, ast.Tuple):
                for t, e in zip(n.ast.targets[0].elts, v.elts):
                    if isinstance(t, ast.Attribute) and t.attr == '_buf':
                        sinks.append(('the carry-over buffer', e))
            else:
                sinks.append(('the carry-over buffer', v))
        for what, e in sinks:
            n_sinks += 1
            labs = set(L.labels_at(n, e))
            # evaluate with the node's own assignments not yet applied (sinks read the pre-state) -- for
            # `r, self._buf = buf[:size], buf[size:]` the RHS is evaluated first anyway
            bad = None
            if 'raw' in labs:
                bad = 'raw undecoded bytes can reach %s (a multi-byte character cut by a read boundary is corrupted, ' \
                      'and text-mode callers get bytes)' % what
            elif 'chunk-decoded' in labs:
                if decoder_state_guarded(f):
                    raise AnalysisError('%s: bytes are decoded per chunk on a path guarded by a test of the decoder\'s own state (getstate()): whether that '
                                        'equals incremental decoding cannot be decided' % f.qual)
                bad = '%s was decoded per chunk with bytes.decode(), not with the persistent incremental decoder' % what
            elif 'double-decoded' in labs:
                bad = '%s went through the decoder twice' % what
            elif 'final-true' in labs:
                bad = '%s was decoded with final=True (the decoder state is flushed at every read boundary)' % what
            if bad:
                c.bad(f, e, bad, witness='labels at L%d: %s' % (n.lineno, sorted(labs)), kind='flow', tag='taint:' + norm(e)[:40] + ':' + what[:12])
            else:
                c.ok(f, e, '%s is decoder output (labels %s)' % (what, sorted(labs - {"const"})), kind='flow', tag='taint:' + norm(e)[:40] + ':' + what[:12])
    c.need(n_sinks >= 1, '%s: no delivery sink found' % f.qual)


def module_level_names(module):
    out = set()
    for st in module.tree.body:
        if isinstance(st, (ast.Assign, ast.AugAssign, ast.AnnAssign)):
            out.update(assigned_names(st))
    return out


def coder_freshness(repo, fi, expr, which, index=None, depth=0):
    """('fresh', factory-call) | ('shared', reason) | ('unknown', reason) for the value
    stored as the decoder/encoder.  *index*: element of a returned tuple."""
    factory = 'codecs.getincremental%s' % which
    if depth > 3:
        return 'unknown', 'helper chain too deep'
    if isinstance(expr, ast.Tuple) and index is not None and index < len(expr.elts):
        return coder_freshness(repo, fi, expr.elts[index], which, None, depth)
    if isinstance(expr, ast.Call) and isinstance(expr.func, ast.Call) and dotted(expr.func.func) == factory:
        return 'fresh', expr
    if isinstance(expr, ast.Call) and dotted(expr.func) == '_NullCoder':
        return 'fresh', expr
    if isinstance(expr, ast.Call) and isinstance(expr.func, ast.Attribute) and expr.func.attr == 'incremental%s' % which:
        # codecs.lookup(<enc>).incrementaldecoder(<errors>), possibly through a local holding the CodecInfo
        b = expr.func.value
        if isinstance(b, ast.Name):
            defs = [n for n in iter_nodes(fi.node) if isinstance(n, ast.Assign) and b.id in assigned_names(n)]
            if len(defs) == 1:
                b = defs[0].value
        if isinstance(b, ast.Call) and dotted(b.func) == 'codecs.lookup':
            return 'fresh', expr
    if isinstance(expr, ast.Name):
        # local assigned in fi?
        defs = [n for n in iter_nodes(fi.node) if isinstance(n, ast.Assign) and expr.id in assigned_names(n)]
        if not defs:
            if expr.id in module_level_names(fi.module):
                return 'shared', 'module-level object %s is shared by every spawn instance' % expr.id
            return 'unknown', 'origin of %s not found' % expr.id
        res = [coder_freshness(repo, fi, d.value, which, index, depth) for d in defs]
        for r in res:
            if r[0] != 'fresh':
                return r
        return res[0]
    if isinstance(expr, ast.Subscript):
        base = expr.value
        if isinstance(base, ast.Name) and base.id not in fi.params and base.id not in \
                [n for d in iter_nodes(fi.node) if isinstance(d, ast.Assign) for n in assigned_names(d)]:
            return 'shared', 'taken from the module-level container %s: one stateful codec object serves every spawn ' \
                             'with the same settings, so the undecoded tail of one stream leaks into another' % base.id
        if isinstance(base, ast.Attribute):
            return 'shared', 'taken from a container attribute %s' % norm(base)
        return coder_freshness(repo, fi, base, which, index, depth)
    if isinstance(expr, ast.Call):
        from ..effects import resolve_call
        tg = resolve_call(repo, fi, expr)
        last = callee_last(expr)
        if last in ('get', 'setdefault') and isinstance(expr.func, ast.Attribute):
            b = expr.func.value
            local = [n2 for d in iter_nodes(fi.node) if isinstance(d, ast.Assign) for n2 in assigned_names(d)]
            if isinstance(b, ast.Name) and b.id not in local and b.id not in fi.params:
                return 'shared', 'looked up in the container %s that outlives the constructor call' % b.id
        if not tg:
            return 'unknown', 'cannot resolve %s' % norm(expr.func)
        for t in tg:
            # decorated with a cache?  then whatever it builds is built once and handed to every caller
            if any('cache' in src(d) for d in t.node.decorator_list):
                return 'shared', '%s is memoised (%s): the same stateful codec object is handed to every spawn with the same settings, ' \
                                 'so the undecoded tail of one stream leaks into another' % (t.qual, ', '.join(src(d) for d in t.node.decorator_list))
            rets = [n for n in iter_nodes(t.node) if isinstance(n, ast.Return) and n.value is not None]
            if not rets:
                return 'unknown', '%s returns nothing' % t.qual
            for r in rets:
                k, why = coder_freshness(repo, t, r.value, which, index, depth + 1)
                if k != 'fresh':
                    return k, '%s (in %s)' % (why, t.qual)
            # decorated with a cache?
            if any('cache' in src(d) for d in t.node.decorator_list):
                return 'shared', '%s is memoised: the same codec object is handed to every caller' % t.qual
        return 'fresh', expr
    return 'unknown', 'expression form %s' % norm(expr)


def check_coders(c, repo, units):
    # creation sites
    for attr, factory in (('_decoder', 'codecs.getincrementaldecoder'), ('_encoder', 'codecs.getincrementalencoder')):
        sites = []
        for f in repo.package_funcs():
            for n in iter_nodes(f.node):
                if isinstance(n, ast.Assign):
                    for t in n.targets:
                        tg = [t] if not isinstance(t, (ast.Tuple, ast.List)) else t.elts
                        for x in tg:
                            if isinstance(x, ast.Attribute) and x.attr == attr:
                                sites.append((f, n))
        okown = all(f.qual == 'spawnbase:SpawnBase.__init__' for f, n in sites) and len(sites) == 2
        c.check(okown, sites[0][0] if sites else repo.func('spawnbase:SpawnBase.__init__'),
                [n for f, n in sites if f.qual != 'spawnbase:SpawnBase.__init__'][0] if not okown and
                [n for f, n in sites if f.qual != 'spawnbase:SpawnBase.__init__'] else (sites[0][1] if sites else None),
                '%s is created only in SpawnBase.__init__ (once per mode) and never replaced afterwards: the decoder state '
                'must survive from one read to the next' % attr,
                witness='assignment sites: %s' % ['%s L%d' % (f.qual, n.lineno) for f, n in sites], kind='ast', tag='own-' + attr)
        # the text-mode creation: a fresh incremental coder per spawn object, built with the configured policy
        init = repo.func('spawnbase:SpawnBase.__init__')
        which = 'decoder' if attr == '_decoder' else 'encoder'
        for f, n in sites:
            if f is not init:
                continue
            tgt = n.targets[0]
            idx = None
            if isinstance(tgt, (ast.Tuple, ast.List)):
                idx = [i for i, x in enumerate(tgt.elts) if isinstance(x, ast.Attribute) and x.attr == attr][0]
            elif len(n.targets) > 1:
                idx = None
            kind, info = coder_freshness(repo, f, n.value, which, idx)
            if kind == 'unknown':
                raise AnalysisError('C07-D2: cannot determine how %s is created: %s' % (attr, info))
            if kind == 'shared':
                c.bad(f, n, '%s is not a fresh object per spawn: %s' % (attr, info), kind='flow', tag='fresh-' + attr + ':' + norm(n.value)[:30])
                continue
            call = info
            if dotted(call.func) == '_NullCoder':
                c.ok(f, n, 'bytes mode: stateless pass-through coder', kind='flow', tag='fresh-' + attr + ':null')
                continue
            if isinstance(call.func, ast.Call):
                enc_args = call.func.args
            else:       # <CodecInfo>.incrementaldecoder(errors): the encoding is the argument of codecs.lookup
                enc_args = [x for k2 in ast.walk(call) if isinstance(k2, ast.Call) and dotted(k2.func) == 'codecs.lookup' for x in k2.args] or [ast.Name(id='_', ctx=ast.Load())]
            enc_ok = len(enc_args) == 1 and isinstance(enc_args[0], (ast.Name, ast.Attribute))
            err_ok = len(call.args) == 1 and not isinstance(call.args[0], ast.Constant)
            c.check(enc_ok and err_ok, f, n, '%s is a fresh codecs.getincremental%s(<encoding>)(<error policy>) object per spawn' % (attr, which),
                    witness=norm(call), kind='flow', tag='fresh-' + attr + ':text')
    # every decode / encode call on the coders: final never True
    n_calls = 0
    for f in repo.package_funcs():
        for k in calls_in(f.node):
            if isinstance(k.func, ast.Attribute) and k.func.attr in ('decode', 'encode'):
                recv = dotted(k.func.value) or ''
                if recv.endswith('._decoder') or recv.endswith('._encoder'):
                    n_calls += 1
                    fin = call_arg(k, 'final', 1)
                    ok = fin is None or is_const(fin, False)
                    c.check(ok, f, k, 'incremental coder called with final=False', witness=norm(k), kind='ast', tag='final:' + norm(k)[:40])
    c.need(n_calls >= 6, 'expected >= 6 incremental coder calls in the package, found %d' % n_calls)
    # no other decoder object is created on a read path
    for f in units:
        for k in calls_in(f.node):
            d = dotted(k.func) or ''
            if d.startswith('codecs.') or (isinstance(k.func, ast.Call) and (dotted(k.func.func) or '').startswith('codecs.')):
                c.bad(f, k, 'a fresh codec object is created inside a read path (its state is lost at the end of the call)',
                      kind='ast', tag='fresh-codec')


def check_mode_selection(c, repo):
    f = repo.func('spawnbase:SpawnBase.__init__')
    ifs = [n for n in iter_nodes(f.node) if isinstance(n, ast.If) and norm(n.test) in ('encoding is None', 'encoding is not None')]
    c.need(len(ifs) == 1, 'SpawnBase.__init__: `if encoding is None` not found')
    node = ifs[0]
    bytes_body, text_body = (node.body, node.orelse) if norm(node.test) == 'encoding is None' else (node.orelse, node.body)

    def assigns(body, attr):
        out = []
        for s in body:
            for n in ast.walk(s):
                if isinstance(n, ast.Assign):
                    for t in n.targets:
                        tg = list(t.elts) if isinstance(t, (ast.Tuple, ast.List)) else [t]
                        for x in tg:
                            if isinstance(x, ast.Attribute) and x.attr == attr:
                                out.append(n)
        return out
    b = assigns(bytes_body, 'buffer_type')
    c.check(len(b) == 1 and norm(b[0].value) == 'BytesIO', f, b[0] if b else node, 'bytes mode buffers in BytesIO', kind='ast', tag='bytes-buffer')
    t = assigns(text_body, 'buffer_type')
    c.check(len(t) == 1 and norm(t[0].value) == 'StringIO', f, t[0] if t else node, 'text mode buffers in StringIO', kind='ast', tag='text-buffer')
    bd = assigns(bytes_body, '_decoder')
    c.check(len(bd) == 1 and norm(bd[0].value) == '_NullCoder()', f, bd[0] if bd else node, 'bytes mode uses the pass-through coder', kind='ast', tag='bytes-coder')
    td = assigns(text_body, '_decoder')
    c.check(len(td) == 1 and '_NullCoder' not in norm(td[0].value), f, td[0] if td else node,
            'text mode does not use the pass-through coder', kind='ast', tag='text-coder')
    st = assigns(text_body, 'string_type') + assigns(bytes_body, 'string_type')
    c.check(len(st) == 2, f, node, 'string_type is set in both modes', kind='ast', tag='string-type')


MUTANTS = [
    ('socket-eof-after-decode', 'socket_pexpect', "                s = self.socket.recv(size)\n                if s == b'':\n                    self.flag_eof = True\n                    raise EOF(\"Socket closed\")\n                s = self._decoder.decode(s, final=False)\n", "                s = self._decoder.decode(self.socket.recv(size), final=False)\n                if not s:\n                    self.flag_eof = True\n                    raise EOF(\"Socket closed\")\n", 'D5'),
    ('base-eof-after-decode', 'spawnbase', "        if s == b'':\n            # BSD-style EOF\n            self.flag_eof = True\n            raise EOF('End Of File (EOF). Empty string style platform.')\n\n        s = self._decoder.decode(s, final=False)\n", "        s = self._decoder.decode(s, final=False)\n        if len(s) == 0:\n            self.flag_eof = True\n            raise EOF('End Of File (EOF). Empty string style platform.')\n", 'D5'),
    ('base-chunk-decode', 'spawnbase', "        s = self._decoder.decode(s, final=False)\n        self._log(s, 'read')", "        if self.encoding is not None:\n            s = s.decode(self.encoding, self.codec_errors)\n        self._log(s, 'read')", 'D1'),
    ('base-final-true', 'spawnbase', "        s = self._decoder.decode(s, final=False)\n        self._log(s, 'read')", "        s = self._decoder.decode(s, final=True)\n        self._log(s, 'read')", 'D2'),
    ('base-fresh-decoder', 'spawnbase', "        s = self._decoder.decode(s, final=False)\n        self._log(s, 'read')", "        if self.encoding is not None:\n            self._decoder = codecs.getincrementaldecoder(self.encoding)(self.codec_errors)\n        s = self._decoder.decode(s, final=False)\n        self._log(s, 'read')", 'D2'),
    ('socket-no-decode', 'socket_pexpect', "                s = self._decoder.decode(s, final=False)\n                self._log(s, 'read')", "                self._log(s, 'read')", 'D1'),
    ('popen-no-decode', 'popen_spawn', "                buf += self._decoder.decode(incoming, final=False)", "                buf += incoming", 'D1'),
    ('async-no-decode', '_async_w_await', "        s = spawn._decoder.decode(data)\n", "        s = data\n", 'D1'),
    ('async-double-decode', '_async_w_await', "        s = spawn._decoder.decode(data)\n", "        s = spawn._decoder.decode(data)\n        s = spawn._decoder.decode(s)\n", 'D1'),
    ('async-final', '_async_w_await', "        s = spawn._decoder.decode(data)\n", "        s = spawn._decoder.decode(data, final=True)\n", 'D2'),
    ('errors-policy-dropped', 'spawnbase', "            self._decoder = codecs.getincrementaldecoder(encoding)(codec_errors)", "            self._decoder = codecs.getincrementaldecoder(encoding)()", 'D2'),
    ('nullcoder-strips', 'spawnbase', "    def decode(b, final=False):\n        return b", "    def decode(b, final=False):\n        return b.rstrip(b'\\x00')", 'D3'),
    ('log-raw-return-text', 'spawnbase', "        s = self._decoder.decode(s, final=False)\n        self._log(s, 'read')\n        return s", "        self._log(s, 'read')\n        s = self._decoder.decode(s, final=False)\n        return s", 'D1'),
    ('decoder-reset-on-eof', 'spawnbase', "            self.flag_eof = True\n            raise EOF('End Of File (EOF). Empty string style platform.')", "            self.flag_eof = True\n            self._decoder = _NullCoder()\n            raise EOF('End Of File (EOF). Empty string style platform.')", 'D2'),
    ('coders-cached', 'spawnbase', "            self._encoder = codecs.getincrementalencoder(encoding)(codec_errors)\n            self._decoder = codecs.getincrementaldecoder(encoding)(codec_errors)\n",
     "            self._encoder, self._decoder = _CODECS.setdefault((encoding, codec_errors), (codecs.getincrementalencoder(encoding)(codec_errors), codecs.getincrementaldecoder(encoding)(codec_errors)))\n", 'D2'),
    ('text-mode-bytesio', 'spawnbase', "            self.buffer_type = StringIO", "            self.buffer_type = BytesIO", 'D4'),
]
PRESERVING = [
    ('coders-lookup-form', 'spawnbase', "            self._encoder = codecs.getincrementalencoder(encoding)(codec_errors)\n            self._decoder = codecs.getincrementaldecoder(encoding)(codec_errors)\n",
     "            info = codecs.lookup(encoding)\n            self._encoder = info.incrementalencoder(codec_errors)\n            self._decoder = info.incrementaldecoder(codec_errors)\n"),
    ('coders-tuple-assign', 'spawnbase', "            self._encoder = codecs.getincrementalencoder(encoding)(codec_errors)\n            self._decoder = codecs.getincrementaldecoder(encoding)(codec_errors)\n",
     "            self._encoder, self._decoder = (codecs.getincrementalencoder(encoding)(codec_errors),\n                                            codecs.getincrementaldecoder(encoding)(codec_errors))\n"),
    ('decode-no-kw', 'spawnbase', "        s = self._decoder.decode(s, final=False)\n        self._log(s, 'read')", "        s = self._decoder.decode(s)\n        self._log(s, 'read')"),
    ('rename-var', 'socket_pexpect', "                s = self._decoder.decode(s, final=False)\n                self._log(s, 'read')\n                return s", "                text = self._decoder.decode(s, final=False)\n                self._log(text, 'read')\n                return text"),
]

"""C11 Logging fidelity."""
import ast

from ..astx import (calls_in, dotted, norm, src, iter_nodes, assigned_targets, assigned_names,
                    const_value, is_const, parent_chain)
from ..lib import (call_arg, relation, truth, other, cmp_views, core, holds_region, conditions, found_test, found_tests, path_tests, entails_empty, paths_entail_empty, eval_conditions, relation_tests, atom_key, expand_condition, mode_mismatch_conditions, cfg_nodes_with_call, node_calls, returns, stmt_assigns_attr, callee_last,
                   is_name, is_self_attr, node_roots, guard_region, compare_parts)
from ..lib import *      # noqa: F401,F403  (path-condition helpers)
from ..linear import ctext
from ..loader import AnalysisError
from ..taint import Labels
from .c07 import classify as classify_read
from .c08 import write_primitive

EXPLANATION = (
    "Static analysis of the logging discipline: (D1) on every return path of every read_nonblocking the returned "
    "value is either the result of super().read_nonblocking (logged there) or was passed to _log(v,'read') exactly "
    "once before the return; the one unlogged return (PopenSpawn's end-of-stream branch) is accepted only because its "
    "two premises are verified structurally (the EOF flag is only set where the carry-over buffer is provably emptied); "
    "(D2) every _log call in the package uses a literal direction that matches the direction of the data it logs, and "
    "every send logs once before writing (C08-D1 is re-evaluated); (D3) in _log each write is followed by a flush of "
    "the same object, the second log is chosen by direction=='send', both are None-guarded, the logged value is the "
    "parameter; (D4) the value logged is of the API string type: decoder output on the read side, the coerced string "
    "on the send side, the decoded control byte -- label dataflow; (D5) interact() logs what it copies, in both "
    "directions, before writing it. NOT decided: what the peer actually saw, interleaving order across threads.")
TRUSTED = ["file.write / flush semantics of the log objects", "sa/ engine (label dataflow, CFG counting)"]
ASSUMPTIONS = []
LEVEL_TEXT = ("Static analysis of named structural clauses: log-once on every return path of the 5 read implementations, "
              "direction literals vs data direction at all _log call sites of the package, write/flush pairing and log "
              "selection inside _log, string type of the logged value by label dataflow, interact() logging. "
              "Two open known findings (bytes logged in unicode mode during interact; reader thread logs an exception object).")
LEVEL_NOTE = "Trusted: file object semantics; analyser. Not decided: the transcript's content for concrete sessions."
TECHNIQUE = "CFG occurrence counting + label dataflow at every _log call site (static analysis)"


def run(R):
    repo = R.repo
    impls = repo.implementations('SpawnBase', 'read_nonblocking')
    with R.clause('D1', 'ONCE', floor=8, desc='every delivered datum is logged exactly once before it is returned') as c:
        for f in impls:
            check_read_logged(c, repo, f)
        check_async_logged(c, repo.func('_async_w_await:PatternWaiter.data_received'))
    with R.clause('D2', 'DIR', floor=10, desc="direction literals are 'send'/'read' and match the data's direction") as c:
        check_directions(c, repo)
    with R.clause('D3', 'PAIR', floor=6, desc='_log: write+flush pairs, direction selects the second log, None-guarded') as c:
        check_log_body(c, repo.func('spawnbase:SpawnBase._log'))
    with R.clause('D4', 'TYPE', floor=10, desc='the logged value has the API string type (decoder output / coerced send string)') as c:
        check_log_types(c, repo)
    with R.clause('D5', 'ORDER', floor=2, desc='interact(): both directions are logged before being copied') as c:
        check_interact(c, repo.func('pty_spawn:spawn.__interact_copy'))


def log_parts(k):
    """(value expr, direction expr) of a _log call, positional or keyword"""
    v = k.args[0] if k.args else None
    d = k.args[1] if len(k.args) >= 2 else None
    for kw in k.keywords:
        if kw.arg == 's':
            v = kw.value
        if kw.arg == 'direction':
            d = kw.value
    return v, d


def read_logs(f):
    return [(n, k) for n, k in cfg_nodes_with_call(f, lambda k: callee_last(k) == '_log' and is_const(log_parts(k)[1], 'read'))]


def check_read_logged(c, repo, f):
    g = f.cfg
    logs = read_logs(f)
    rets = [r for r in returns(f) if r.ast.value is not None]
    c.need(rets, '%s: no return' % f.qual)
    # variables that only ever hold super().read_nonblocking results
    def from_super(e):
        return isinstance(e, ast.Call) and callee_last(e) == 'read_nonblocking' and isinstance(e.func.value, ast.Call) \
            and dotted(e.func.value.func) == 'super'
    supervars = set()
    for n in g.nodes:
        if n.kind == 'stmt' and isinstance(n.ast, (ast.Assign, ast.AugAssign)):
            for nm in assigned_names(n.ast):
                supervars.add(nm)
    # lists that only ever collect base-class reads (`chunks = [incoming]` ... `chunks.append(chunk)`), joined with the EMPTY string at the end
    def list_mutations(name):
        out = []
        for k in calls_in(f.node):
            if isinstance(k.func, ast.Attribute) and isinstance(k.func.value, ast.Name) and k.func.value.id == name:
                out.append(k)
        return out

    def super_list(name):
        binds = [n.ast for n in g.nodes if n.kind == 'stmt' and isinstance(n.ast, (ast.Assign, ast.AugAssign)) and name in assigned_names(n.ast)]
        if not binds or not all(isinstance(b, ast.Assign) and isinstance(b.value, ast.List) and all(super_only(x) for x in b.value.elts) for b in binds):
            return False
        for k in list_mutations(name):
            if k.func.attr == 'append' and len(k.args) == 1 and super_only(k.args[0]):
                continue
            if k.func.attr in ('count', 'index', 'copy'):
                continue
            return False
        # handed to nothing but len() / join
        for x in ast.walk(f.node):
            if isinstance(x, ast.Call) and any(isinstance(a, ast.Name) and a.id == name for a in x.args):
                if not ((isinstance(x.func, ast.Name) and x.func.id == 'len') or (isinstance(x.func, ast.Attribute) and x.func.attr == 'join')):
                    return False
        return True

    def empty_sep(e):
        return (isinstance(e, ast.Constant) and e.value in ('', b'')) or (isinstance(e, ast.Call) and norm(e.func) == 'self.string_type' and not e.args and not e.keywords)

    def super_only(e):
        # a base-class read, or the concatenation of values that are base-class reads
        if from_super(e):
            return True
        if isinstance(e, ast.Name):
            return e.id in supervars
        if isinstance(e, ast.BinOp) and isinstance(e.op, ast.Add):
            return super_only(e.left) and super_only(e.right)
        if isinstance(e, ast.Call) and isinstance(e.func, ast.Attribute) and e.func.attr == 'join' and len(e.args) == 1 and isinstance(e.args[0], ast.Name) \
                and empty_sep(e.func.value):
            nm = e.args[0].id
            if nm in listing:
                return False          # (a list that is joined into one of its own elements)
            listing.add(nm)
            try:
                return super_list(nm)
            finally:
                listing.discard(nm)
        return False
    listing = set()
    changed = True
    while changed:
        changed = False
        for n in g.nodes:
            if n.kind == 'stmt' and isinstance(n.ast, (ast.Assign, ast.AugAssign)):
                if not super_only(n.ast.value):
                    for nm in assigned_names(n.ast):
                        if nm in supervars:
                            supervars.discard(nm)
                            changed = True
    for r in rets:
        v = r.ast.value
        if from_super(v) or (isinstance(v, ast.Name) and v.id in supervars) or (isinstance(v, ast.Call) and super_only(v)):
            # already logged by the base class: there must be no second log on this path
            extra = [n for n, k in logs if g.path(n, r, skip_labels=('exc',)) is not None]
            c.check(not extra, f, r.ast, 'returns data read (and logged) by the base class; not logged a second time here',
                    witness='additional _log at L%d' % extra[0].lineno if extra else None, tag='super-logged:' + norm(v)[:30])
            continue
        in_popen_eof = f.qual == 'popen_spawn:PopenSpawn.read_nonblocking' and ('self._read_reached_eof', True) in conditions(g, r) \
            and not [n for n, k in logs if g.path(n, r, skip_labels=('exc',)) is not None]
        if isinstance(v, ast.Name) and not in_popen_eof:
            mine = [n for n, k in logs if is_name(log_parts(k)[0], v.id)]
            ok, p = g.dominated_by(r, set(mine), skip_labels=())
            lmn, lmx = g.occurrences(lambda x: x in set(mine), goals={r}) if mine else (0, 0)
            c.check(ok and lmn == 1 and lmx == 1, f, r.ast, "the returned text was passed to _log(.., 'read') exactly once on every path to this return",
                    witness=('path without log: ' + g.describe_path(p)) if p else 'min=%s max=%s logs' % (lmn, lmx), tag='logged-once:' + v.id)
            # and not modified between log and return
            for m in mine:
                mods = [x for x in g.nodes if x.kind == 'stmt' and v.id in assigned_names(x.ast)
                        and g.path(m, x, skip_labels=('exc',), include_start=False) is not None and g.path(x, r, skip_labels=('exc',)) is not None]
                c.check(not mods, f, r.ast, 'what is returned is what was logged (not modified in between)',
                        witness='reassigned at L%d' % mods[0].lineno if mods else None, tag='logged-same:' + v.id)
            continue
        # an unlogged expression return: only the verified PopenSpawn end-of-stream idiom is accepted
        if f.qual == 'popen_spawn:PopenSpawn.read_nonblocking':
            ok, why = popen_eof_branch_carries_no_data(f, r)
            c.check(ok, f, r.ast, 'unlogged return in the end-of-stream branch can never carry data (premises verified: the EOF flag is only set '
                    'inside the loop guarded by len(buf) < size, after which the carry-over buffer buf[size:] is empty)', witness=why, tag='popen-eof-branch')
        else:
            c.bad(f, r.ast, "returns %s without passing it to _log(.., 'read')" % norm(v), tag='unlogged:' + norm(v)[:30])


def popen_eof_branch_carries_no_data(f, r):
    g = f.cfg
    # the exception applies only INSIDE the branch taken when the end of the stream was already seen
    if ('self._read_reached_eof', True) not in conditions(g, r):
        return False, 'this return is not in the `if self._read_reached_eof` branch: it can carry data that was never logged'
    flags = [n for n in g.nodes if n.kind == 'stmt' and stmt_assigns_attr(n.ast, '_read_reached_eof') is not None]
    if len(flags) != 1:
        return False, 'the EOF flag is assigned at %d sites' % len(flags)
    loops = [p for p in parent_chain(flags[0].ast) if isinstance(p, ast.While)]
    if not loops:
        return False, 'the EOF flag is set outside the dequeue loop'
    # the accumulated-text variable: the local initialised from self._buf
    bufs = [n.ast.targets[0].id for n in g.nodes if n.kind == 'stmt' and isinstance(n.ast, ast.Assign) and isinstance(n.ast.targets[0], ast.Name)
            and norm(n.ast.value) == 'self._buf']
    if len(bufs) != 1:
        return False, 'the accumulated-text local (initialised from self._buf) was not found'
    buf = bufs[0]
    if ('len(%s) < size' % buf, True) not in loop_entry_conditions(g, flags[0]):
        # the same premise stated on a running count of the accumulated length (`pending = len(buf)` ... `pending += len(text)`, `pending < size`):
        # that the count equals the length of what is joined at the end is a fact about values, not decided here
        counts = [a_.split(' < ')[0] for a_, v_ in loop_entry_conditions(g, flags[0]) if v_ and a_.endswith(' < size') and a_.split(' < ')[0].isidentifier()]
        if counts:
            raise AnalysisError('%s: the dequeue loop is bounded by the running count `%s` instead of len(%s): whether the carry-over buffer is empty when the '
                                'end of the stream is flagged cannot be decided' % (f.qual, counts[0], buf))
        return False, 'the end-of-stream flag can be set while len(%s) >= size (no `len(%s) < size` condition on the way to it)' % (buf, buf)
    # buf not extended between loop test and the flag on that path: flag is in the `incoming is None` branch before any buf +=
    hdr = g.node_of_stmt(loops[0])
    mods = [n for n in g.nodes if n.kind == 'stmt' and buf in assigned_names(n.ast) and any(p is loops[0] for p in parent_chain(n.ast))]
    for m in mods:
        if g.path(hdr, flags[0], avoid=set(), skip_labels=('exc',)) and g.path(m, flags[0], avoid={hdr}, skip_labels=('exc',)):
            return False, '%s is extended at L%d before the flag is set in the same iteration' % (buf, m.lineno)
    # all assignments to self._buf are buf[size:] forms or the constructor's empty value
    for n in g.nodes:
        if n.kind == 'stmt' and stmt_assigns_attr(n.ast, '_buf') is not None:
            vals = []
            if isinstance(n.ast.targets[0], ast.Tuple):
                for t, e in zip(n.ast.targets[0].elts, n.ast.value.elts):
                    if isinstance(t, ast.Attribute) and t.attr == '_buf':
                        vals.append(e)
            else:
                vals.append(n.ast.value)
            for e in vals:
                if norm(e) != '%s[size:]' % buf:
                    return False, 'self._buf is assigned %s' % norm(e)
    return True, None


def check_async_logged(c, f):
    g = f.cfg
    logs = [(n, k) for n, k in cfg_nodes_with_call(f, lambda k: callee_last(k) == '_log')]
    c.need(len(logs) == 1, 'data_received: expected one _log call')
    n, k = logs[0]
    mn, mx = g.occurrences(lambda x: x is n)
    c.check(mn == 1 and mx == 1, f, k, 'every chunk received by the asyncio protocol is logged exactly once', witness='min=%s max=%s' % (mn, mx), tag='async-logged-once')
    # the same variable goes to the stores / new_data
    v = k.args[0]
    uses = [kk for kk in calls_in(f.node) if callee_last(kk) in ('new_data', 'write') and kk.args]
    c.check(all(norm(kk.args[0]) == norm(v) for kk in uses) and uses, f, k, 'the logged text is the text that is matched / stored', kind='ast', tag='async-same')


def expected_direction(repo, f, k, g):
    """'send' / 'read' expected for this _log call from the data it logs"""
    if f.name in ('send', '_log_control', 'sendline'):
        return 'send'
    if f.name in ('read_nonblocking', 'data_received', '_read_incoming'):
        return 'read'
    if f.name.endswith('__interact_copy'):
        n = g.node_for(k)
        for t in g.nodes:
            if t.kind == 'test' and n in guard_region(g, t, 'true'):
                cp = compare_parts(t.ast)
                if cp and isinstance(cp[1], ast.In) and isinstance(cp[2], ast.Name):
                    if norm(cp[0]) == 'self.child_fd':
                        return 'read'
                    if norm(cp[0]) == 'self.STDIN_FILENO':
                        return 'send'
    return None


def check_directions(c, repo):
    n_sites = 0
    for f in repo.package_funcs():
        g = None
        for k in calls_in(f.node):
            if callee_last(k) != '_log' or f.name == '_log':
                continue
            n_sites += 1
            g = g or f.cfg
            d = log_parts(k)[1]
            lit = const_value(d, None)
            c.check(lit in ('send', 'read'), f, k, "direction is the literal 'send' or 'read'", witness=norm(k), kind='ast', tag='literal:' + norm(k)[:40])
            exp = expected_direction(repo, f, k, g)
            if exp is None:
                raise AnalysisError('C11-D2: cannot tell the data direction of %s in %s' % (norm(k), f.qual))
            c.check(lit == exp, f, k, "data flowing %s is logged with direction '%s'" % ('to the child' if exp == 'send' else 'from the child', exp),
                    witness=norm(k), kind='flow', tag='direction:' + norm(k)[:40])
    c.need(n_sites >= 10, 'expected >= 10 _log call sites, found %d' % n_sites)


def check_log_body(c, f):
    g = f.cfg
    sp, dp = f.params[1], f.params[2]
    writes = cfg_nodes_with_call(f, lambda k: callee_last(k) == 'write')
    c.need(len(writes) == 2, '_log: expected two write calls')
    for n, k in writes:
        obj = norm(k.func.value)
        c.check(k.args and is_name(k.args[0], sp), f, k, 'the value written is the parameter', witness=norm(k), kind='ast', tag='write-param:' + obj)
        fl = [m for m, kk in cfg_nodes_with_call(f, lambda kk: callee_last(kk) == 'flush' and norm(kk.func.value) == obj)]
        ok, p = g.must_pass(n, {g.exit}, set(fl), skip_labels=('exc',))
        c.check(bool(fl) and ok, f, k, 'every write to %s is followed by %s.flush()' % (obj, obj), witness=g.describe_path(p) if p else 'no flush', tag='flush:' + obj)
        guards = [t for t in g.nodes if t.kind == 'test' and norm(t.ast) == '%s is not None' % obj and n in guard_region(g, t, 'true')]
        c.check(bool(guards), f, k, '%s is used only when it is not None' % obj, tag='guard:' + obj)
    # main log is self.logfile; the second one depends on the direction
    objs = [norm(k.func.value) for n, k in writes]
    c.check('self.logfile' in objs, f, writes[0][1], 'logfile receives every logged value', kind='ast', tag='main-log')
    second = [o for o in objs if o != 'self.logfile']
    c.need(len(second) == 1, '_log: second log object not found')
    defs = [n for n in iter_nodes(f.node) if isinstance(n, ast.Assign) and second[0] in assigned_names(n)]
    wit = str([norm(d) for d in defs])
    # each definition of the second log object: logfile_send exactly under direction == 'send', logfile_read otherwise
    is_send = atom_key(ast.parse("%s == 'send'" % dp, mode='eval').body)[0]
    is_read = atom_key(ast.parse("%s == 'read'" % dp, mode='eval').body)[0]
    seen = set()
    ok = bool(defs)
    for d in defs:
        cs = conditions(f.cfg, f.cfg.node_of_stmt(d))
        val = norm(d.value)
        seen.add(val)
        if val == 'self.logfile_send':
            ok = ok and ((is_send, True) in cs or (is_read, False) in cs)
        elif val == 'self.logfile_read':
            ok = ok and ((is_read, True) in cs or (is_send, False) in cs)
        else:
            ok = False
    ok = ok and seen == {'self.logfile_send', 'self.logfile_read'}
    c.check(ok, f, defs[0] if defs else None, "direction 'send' selects logfile_send, 'read' selects logfile_read", witness=wit, kind='alg', tag='select')
    # each of the two writes happens at most once
    for n, k in writes:
        mn, mx = g.occurrences(lambda x: x is n)
        c.check(mx == 1, f, k, 'written at most once per call', witness='max=%s' % mx, tag='once:' + norm(k.func.value))


def classify_log(call, args, env, L):
    r = classify_read(call, args, env, L)
    last = callee_last(call)
    if last == '_coerce_send_string':
        return {'sendstr'}
    if r is not None:
        return r
    if last == 'decode' and isinstance(call.func, ast.Attribute):
        # s.decode(self.encoding, 'replace') in _log_control
        return {'text'}
    if last in ('output_filter', 'input_filter'):
        return set(args[0]) if args else {'other'}
    return None


def check_log_types(c, repo):
    n_sites = 0
    for f in repo.package_funcs():
        ks = [k for k in calls_in(f.node) if callee_last(k) == '_log' and f.name != '_log']
        if not ks:
            continue
        params = {}
        if f.name == 'data_received':
            params[f.params[1]] = ['raw']
        if f.name == '_log_control':
            params[f.params[1]] = ['ctrlbyte']
        if f.name == 'send':
            params[f.params[1]] = ['userarg']
        L = Labels(f, classify_log, param_labels=params, attr_labels={'self._buf': ['text'], 'self.linesep': ['sendstr'], 'self.crlf': ['sendstr']}).run()          # linesep / crlf are kept in the object's own string type
        g = f.cfg
        for k in ks:
            n_sites += 1
            n = g.node_for(k)
            labs = set(L.labels_at(n, log_parts(k)[0])) - {'const', 'final-true'}      # how the decoder is flushed is C07's concern
            if f.name == '_log_control':
                # bytes mode logs the byte, text mode the decoded byte: accept text / ctrlbyte under the encoding test
                ok, wit = log_control_ok(f)
                c.check(ok, f, k, 'control bytes are decoded with the instance encoding in text mode, logged as bytes in bytes mode',
                        witness=wit, kind='flow', tag='type:ctrl')
                continue
            good = labs and labs <= {'text', 'sendstr'}
            if good:
                c.ok(f, k, 'logged value is %s' % ('decoder output' if 'text' in labs else 'the coerced send string'), kind='flow', tag='type:' + norm(k)[:40])
            else:
                if 'chunk-decoded' in labs and decoder_state_guarded(f):
                    raise AnalysisError('%s: the logged text is decoded per chunk on a path guarded by a test of the decoder\'s own state (getstate()): cannot be decided' % f.qual)
                what = 'raw bytes (not decoded): in unicode mode the log receives bytes while the API delivers text' if 'raw' in labs else \
                    ('an exception object, not text: logfile.write(e) raises TypeError and kills the reader thread before the end-of-stream '
                     'sentinel is queued' if 'exc' in labs else 'a value of unknown type %s' % sorted(labs))
                if not ({'raw', 'exc'} & labs) and 'other' in labs:
                    raise AnalysisError('C11-D4: cannot tell what kind of value %s logs in %s (labels %s)' % (norm(k), f.qual, sorted(labs)))
                c.bad(f, k, 'the logged value is ' + what, witness='labels %s' % sorted(labs), kind='flow', tag='type:' + norm(k)[:40])
    c.need(n_sites >= 10, 'expected >= 10 _log call sites, found %d' % n_sites)


def check_interact(c, f):
    g = f.cfg
    outs = cfg_nodes_with_call(f, lambda k: dotted(k.func) == 'os.write' and 'STDOUT' in norm(k.args[0]))
    c.need(len(outs) == 1, '__interact_copy: write to stdout not found')
    n, k = outs[0]
    v = k.args[1]
    def logs_value(lk):
        if callee_last(lk) != '_log' or len(lk.args) != 2 or not is_const(lk.args[1], 'read'):
            return False
        a = lk.args[0]
        if norm(a) == norm(v):
            return True
        # logged through the decoder: _log(self._decoder.decode(data, final=False), 'read')
        return isinstance(a, ast.Call) and callee_last(a) == 'decode' and a.args and norm(a.args[0]) == norm(v)
    logs = [m for m, lk in cfg_nodes_with_call(f, logs_value)]
    # dominating within the same iteration: the log must lie between the read of this chunk and the write
    rd = [m for m, rk in cfg_nodes_with_call(f, lambda rk: callee_last(rk).endswith('__interact_read') and norm(rk.args[0]) == 'self.child_fd')]
    c.need(len(rd) == 1, 'child read not found')
    ok, p = g.must_pass(rd[0], {n}, set(logs), skip_labels=('exc',))
    c.check(bool(logs) and ok, f, k, "what is copied to the user's stdout was logged as 'read' first", witness=g.describe_path(p) if p else None, tag='interact-read-logged')
    wr = cfg_nodes_with_call(f, lambda kk: callee_last(kk).endswith('__interact_writen'))
    c.need(len(wr) >= 1, 'writes to the child not found')
    kb = [m for m, rk in cfg_nodes_with_call(f, lambda rk: callee_last(rk).endswith('__interact_read') and 'STDIN' in norm(rk.args[0]))]
    c.need(len(kb) == 1, 'keyboard read not found')
    for m, wk in wr:
        dv = wk.args[1]
        slog = [x for x, lk in cfg_nodes_with_call(f, lambda lk: (callee_last(lk) == '_log' and len(lk.args) == 2 and norm(lk.args[0]) == norm(dv)
                                                                  and is_const(lk.args[1], 'send'))
                                               or (callee_last(lk) == '_log_control' and lk.args and norm(lk.args[0]) == norm(dv)))]
        # accepted idiom: the log may be skipped when the data is empty (`if data:`)
        # (any test outcome that implies the data is empty: `if data:` false, `if not escaped or data:` false, `if not data:` true ...)
        from ..cfg import _local_atoms
        empties = set()
        for t in g.nodes:
            if t.kind == 'test' and t.ast is not None:
                for lab_ in ('true', 'false'):
                    cs_ = []
                    _local_atoms(t.ast, lab_ == 'true', cs_)
                    if (norm(dv), False) in [(a_, v_) for a_, v_, nm_ in cs_]:
                        empties.add((t, lab_))
        ok, p = g.must_pass(kb[0], {m}, set(slog), skip_labels=('exc',), through_edges=empties)
        c.check(bool(slog) and ok, f, wk, "what is sent to the child was logged as 'send' first (unless empty)",
                witness=g.describe_path(p) if p else None, tag='interact-send-logged:L%d' % 0 if False else 'interact-send-logged:' + str(wr.index((m, wk))))


MUTANTS = [
    ('base-no-log', 'spawnbase', "        s = self._decoder.decode(s, final=False)\n        self._log(s, 'read')\n        return s", "        s = self._decoder.decode(s, final=False)\n        return s", 'D1'),
    ('base-log-twice', 'spawnbase', "        s = self._decoder.decode(s, final=False)\n        self._log(s, 'read')\n        return s", "        s = self._decoder.decode(s, final=False)\n        self._log(s, 'read')\n        self._log(s, 'read')\n        return s", 'D1'),
    ('pty-relog', 'pty_spawn', "                    # Don't raise EOF, just return what we read so far.\n                    return incoming", "                    self._log(incoming, 'read')\n                    return incoming", 'D1'),
    ('socket-no-log', 'socket_pexpect', "                s = self._decoder.decode(s, final=False)\n                self._log(s, 'read')\n                return s", "                s = self._decoder.decode(s, final=False)\n                return s", 'D1'),
    ('popen-log-before-slice', 'popen_spawn', "        r, self._buf = buf[:size], buf[size:]\n\n        self._log(r, 'read')\n        return r", "        self._log(buf, 'read')\n        r, self._buf = buf[:size], buf[size:]\n        return r", 'D1'),
    ('popen-fast-path-unlogged', 'popen_spawn', "        if timeout == -1:\n            timeout = self.timeout\n        if timeout is None:", "        if len(buf) >= size > 0:\n            self._buf = buf[size:]\n            return buf[:size]\n        if timeout == -1:\n            timeout = self.timeout\n        if timeout is None:", 'D1'),
    ('popen-eof-branch-data', 'popen_spawn', "        r, self._buf = buf[:size], buf[size:]", "        r, self._buf = buf[:size], buf[size - 1:]", 'D1'),
    ('send-dir-read', 'fdpexpect', "        self._log(s, 'send')", "        self._log(s, 'read')", 'D2'),
    ('async-dir-send', '_async_w_await', "        spawn._log(s, \"read\")", "        spawn._log(s, \"send\")", 'D2'),
    ('log-no-flush', 'spawnbase', "            second_log.write(s)\n            second_log.flush()", "            second_log.write(s)", 'D3'),
    ('log-select-swapped', 'spawnbase', "second_log = self.logfile_send if (direction=='send') else self.logfile_read", "second_log = self.logfile_read if (direction=='send') else self.logfile_send", 'D3'),
    ('log-main-unguarded', 'spawnbase', "        if self.logfile is not None:\n            self.logfile.write(s)\n            self.logfile.flush()", "        self.logfile.write(s)\n        self.logfile.flush()", 'D3'),
    ('log-raw-in-base', 'spawnbase', "        s = self._decoder.decode(s, final=False)\n        self._log(s, 'read')\n        return s", "        self._log(s, 'read')\n        s = self._decoder.decode(s, final=False)\n        return s", 'D4'),
    ('send-log-uncoerced', 'pty_spawn', "        s = self._coerce_send_string(s)\n        self._log(s, 'send')\n\n        b = self._encoder.encode(s, final=False)\n        return os.write(self.child_fd, b)", "        self._log(s, 'send')\n        s = self._coerce_send_string(s)\n\n        b = self._encoder.encode(s, final=False)\n        return os.write(self.child_fd, b)", 'D4'),
    ('interact-no-read-log', 'pty_spawn', "                self._log(self._decoder.decode(data, final=False), 'read')\n                os.write(self.STDOUT_FILENO, data)", "                os.write(self.STDOUT_FILENO, data)", 'D5'),
    ('interact-no-send-log', 'pty_spawn', "                self._log_control(data)\n                self.__interact_writen(self.child_fd, data)\n\n\ndef spawnu", "                self.__interact_writen(self.child_fd, data)\n\n\ndef spawnu", 'D5'),
    ('interact-no-send-log-escape', 'pty_spawn', "                    if data:\n                        self._log_control(data)\n                    self.__interact_writen(self.child_fd, data)\n                    break", "                    self.__interact_writen(self.child_fd, data)\n                    break", 'D5'),
    ('interact-raw-read-log', 'pty_spawn', "                self._log(self._decoder.decode(data, final=False), 'read')\n                os.write(self.STDOUT_FILENO, data)", "                self._log(data, 'read')\n                os.write(self.STDOUT_FILENO, data)", 'D4'),
    ('popen-log-exception', 'popen_spawn', "            except OSError:\n                # treated as end of stream below\n                pass", "            except OSError as e:\n                self._log(e, 'read')", 'D4'),
    ('ctrl-no-decode', 'pty_spawn', "        if self.encoding is not None:\n            s = s.decode(self.encoding, 'replace')\n        self._log(s, 'send')", "        self._log(s, 'send')", 'D4'),
]
PRESERVING = [
    ('log-tmp', 'socket_pexpect', "                s = self._decoder.decode(s, final=False)\n                self._log(s, 'read')\n                return s", "                s = self._decoder.decode(s, final=False)\n                self._log(s, direction='read')\n                return s"),
]

"""C03 No missed or late match -- local arithmetic of the incremental search."""
import ast

from ..astx import (calls_in, dotted, norm, src, iter_nodes, aliases_of, assigned_targets,
                    assigned_names, const_value, is_const, parent_chain)
from ..lib import (call_arg, relation, truth, other, cmp_views, core, holds_region, conditions, found_test, found_tests, path_tests, entails_empty, paths_entail_empty, eval_conditions, relation_tests, atom_key, expand_condition, mode_mismatch_conditions, cfg_nodes_with_call, node_calls, returns, stmt_assigns_attr, callee_last,
                   guard_region, find_test_nodes, compare_parts, is_name, is_self_attr)
from ..lib import *      # noqa: F401,F403  (path-condition helpers)
from ..linear import lin, ctext, Lin, slice_bounds
from ..loader import AnalysisError
from .. import stores

EXPLANATION = (
    "Static analysis of the arithmetic that makes the incremental search agree with a naive full re-search, clause "
    "by clause: (D1) the exact-string search without a window starts at or before len(buffer)-freshlen-(len(s)-1), "
    "with a window exactly at -W; (D2) after a miss the kept suffix is at least max(window, look-back)-1 long, is a "
    "suffix slice of the searched window with a provably non-zero negative bound, look-back is the searcher's "
    "longest_string and that is the running maximum of len(s) over ALL stored patterns; (D3) freshlen passed to the "
    "search is len(new data) in new_data and the whole pending length in existing_data, not reduced on the way, and "
    "the window size argument is forwarded; (D4) every seek(max(0, L-k)) uses a length L measured by tell() on the "
    "SAME store and a k that is at least the window / look-back; (D5) the regex search starts at "
    "max(0, len(buffer)-W) or 0. (D7) is an exhaustive evaluation of the extracted length "
    "abstraction of existing_data/new_data/do_search over a box of small lengths against the inductive invariant "
    "'window covers what the naive search needs, is never longer than the search window (anchors and look-behind must not see text outside it), and the kept buffer suffices for the next call'. NOT decided: "
    "equivalence with the naive re-search as such over unbounded histories.")
TRUSTED = ["negative-offset semantics of str.find(sub, start) and of slices", "re.Pattern.search(s, pos)",
           "io tell()/seek()/read() semantics", "sa/ engine (linear forms)"]
ASSUMPTIONS = ["len(x) >= 0; freshlen, W, look-back are non-negative integers or None"]
LEVEL_TEXT = ("Static analysis of named arithmetic clauses (linear inequalities on the find offset, trim length, "
              "freshlen flow, seek dimensions, regex search start), decided for all values by coefficient signs and "
              "atom lower bounds, no solver; plus a bounded-exhaustive evaluation of the extracted length "
              "abstraction (small-scope argument, clearly bounded).")
LEVEL_NOTE = ("Trusted: find/slice/seek semantics; analyser. Decides necessary local conditions, not the global "
              "equivalence with naive re-search.")
TECHNIQUE = "linear normal forms over the AST + CFG dominance (static analysis)"


def run(R):
    repo = R.repo
    with R.clause('D1', 'ALG', floor=3, desc='exact search: look-back covers occurrences straddling a read boundary') as c:
        check_find_offset(c, repo)
    with R.clause('D6', 'ALG', floor=3, desc='look-back = longest pattern (running maximum over all stored strings)') as c:
        check_lookback(c, repo)
    # D2 and D4 prove the window arithmetic symbolically when the code has the shape they know; the exhaustive evaluation of D7 covers
    # the same obligations (which suffix is searched, how much is kept) for every shape the length abstraction can execute
    with R.clause('D2', 'ALG', floor=3, desc='after a miss the kept suffix is long enough', backed_by='D7') as c:
        check_trim(c, repo)
    with R.clause('D3', 'FLOW', floor=6, desc='freshlen / window / window-size reach the searcher unreduced') as c:
        check_freshlen(c, repo)
    with R.clause('D4', 'DIM', floor=5, desc='seek offsets are computed from the length of the same store', backed_by='D7') as c:
        check_seeks(c, repo)
    with R.clause('D5', 'ALG', floor=3, desc='regex search start is max(0, len(buffer)-W), 0 without a window') as c:
        check_re_start(c, repo)
    from .. import lenabs
    with R.clause('D7', 'LENABS', floor=20, desc='window selection vs naive re-search: exhaustive over the extracted length abstraction (bounded box)') as c:
        if R.thorough:
            lenabs.check_window_selection(c, repo, R, maxP=7, maxW=8, maxL=5, maxD=8)
        else:
            lenabs.check_window_selection(c, repo, R, maxP=4, maxW=5, maxL=3, maxD=5)


def _branch_assigns(f, var, test_pred):
    """value expressions assigned to *var* in the true / false region of the
    unique test satisfying test_pred -> (true_vals, false_vals, testnode)"""
    g = f.cfg
    tests = find_test_nodes(f, test_pred)
    if len(tests) != 1:
        raise AnalysisError('%s: expected one test governing %s, found %d' % (f.qual, var, len(tests)))
    t = tests[0]
    tr, fr = guard_region(g, t, 'true'), guard_region(g, t, 'false')
    tv = [n.ast.value for n in tr if n.kind == 'stmt' and isinstance(n.ast, ast.Assign) and var in assigned_names(n.ast)]
    fv = [n.ast.value for n in fr if n.kind == 'stmt' and isinstance(n.ast, ast.Assign) and var in assigned_names(n.ast)]
    return tv, fv, t


def _is_none_test(name):
    def p(t):
        cp = compare_parts(t)
        return cp is not None and is_name(cp[0], name) and isinstance(cp[1], (ast.Is, ast.IsNot)) \
            and isinstance(cp[2], ast.Constant) and cp[2].value is None
    return p


def check_find_start_by_lengths(c, repo):
    """Where buffer.find() starts, for every combination of small lengths: the routine's syntax tree is evaluated (sa/minieval.py) on
    representatives of a box of (len(buffer), freshlen, len(s), window size) -- the strings stand for their lengths only, find() is a
    hook that records its start argument and reports "not found".  Python's own reading of a negative / too large start is applied.
    Returns the number of combinations evaluated (0 when the routine cannot be evaluated: AnalysisError)."""
    from ..minieval import Evaluator
    f = repo.func('expect:searcher_string.search')
    buf, fresh, wpar = f.params[1], f.params[2], f.params[3]
    finds = [k for k in calls_in(f.node) if callee_last(k) == 'find']
    c.need(len(finds) >= 1, 'searcher_string.search: no find() call')
    ftexts = set(norm(k.func) for k in finds)
    bad_none, bad_win, skipped, n = None, None, None, 0
    for buflen in range(0, 7):
        for fl in range(0, buflen + 1):
            for slen in range(1, 5):
                for W in (None, 1, 2, 3, 5, 8):
                    seen = []

                    def hook(args, e_, seen=seen):
                        seen.append(args)
                        return -1
                    ev = Evaluator(env={buf: 'x' * buflen, fresh: fl, wpar: W, 'self._strings': [(0, 'y' * slen)], 'self': {}},
                                   hooks=dict((t, hook) for t in ftexts), what='searcher_string.search')
                    kind, val = ev.call(f.node)
                    n += 1
                    if kind != 'return' or val != -1:
                        raise AnalysisError('searcher_string.search: evaluation on lengths did not end in "no match" (%s %r)' % (kind, val))
                    if not seen:
                        if slen <= buflen and skipped is None:
                            skipped = (buflen, fl, slen, W)
                        continue
                    a = seen[0]
                    if len(a) < 2 or not isinstance(a[1], int) or len(a) > 2:
                        raise AnalysisError('searcher_string.search: find() is not called as find(s, <start>)')
                    st = a[1]
                    eff = max(0, buflen + st) if st < 0 else min(st, buflen)
                    if W is None:
                        need = max(0, buflen - fl - (slen - 1))
                        if eff > need and bad_none is None:
                            bad_none = (buflen, fl, slen, st, eff, need)
                    else:
                        need = max(0, buflen - W)
                        if eff != need and bad_win is None:
                            bad_win = (buflen, W, slen, st, eff, need)
    c.check(bad_none is None, f, finds[0], 'without a window the search starts no later than len(buffer) - freshlen - (len(s)-1), for every combination of small lengths',
            witness=None if bad_none is None else 'len(buffer)=%d freshlen=%d len(s)=%d: find(s, %d) starts at %d, an occurrence may begin at %d' % bad_none, kind='alg', tag='lookback-by-lengths')
    c.check(bad_win is None, f, finds[0], 'with a window the search starts exactly W characters from the end (at 0 when the buffer is shorter), for every combination of small lengths',
            witness=None if bad_win is None else 'len(buffer)=%d W=%d len(s)=%d: find(s, %d) starts at %d, not at %d' % bad_win, kind='alg', tag='window-by-lengths')
    c.check(skipped is None, f, finds[0], 'every search string that fits into the buffer is looked for',
            witness=None if skipped is None else 'len(buffer)=%d freshlen=%d len(s)=%d W=%r: find() is not called' % skipped, kind='alg', tag='all-strings-by-lengths')
    return n


def check_find_offset(c, repo):
    # the start of the search decided for every combination of small lengths, however the routine computes it ...
    try:
        n_eval = check_find_start_by_lengths(c, repo)
    except AnalysisError as e:
        n_eval, why_not = 0, str(e)
    # ... and symbolically (for ALL lengths) for the shape the routine has at the pinned snapshot; when the shape is not recognised
    # the evaluation above stands alone
    try:
        _check_find_offset_symbolic(c, repo)
    except AnalysisError as e:
        if not n_eval:
            raise
        f = repo.func('expect:searcher_string.search')
        c.ok(f, None, 'note: the symbolic offset rule does not apply to this shape (%s); the start of the search was evaluated on %d combinations of lengths' % (str(e)[:80], n_eval),
             kind='alg', tag='symbolic-n/a')


def _check_find_offset_symbolic(c, repo):
    f = repo.func('expect:searcher_string.search')
    finds = [k for k in calls_in(f.node) if callee_last(k) == 'find']
    c.need(len(finds) == 1 and len(finds[0].args) == 2, 'searcher_string.search: buffer.find(s, offset) not found')
    k = finds[0]
    buf, fresh, wpar = f.params[1], f.params[2], f.params[3]
    c.need(is_name(k.func.value, buf), 'find() is not called on the buffer parameter')
    pat = k.args[0]
    c.need(isinstance(pat, ast.Name), 'find() pattern is not the loop variable')
    off = k.args[1]
    c.check(len(k.args) == 2 and not k.keywords, f, k, 'find() has no end bound (searches to the end of the buffer)', kind='ast', tag='find-noend')
    if isinstance(off, ast.Name):
        tv, fv, t = _branch_assigns(f, off.id, _is_none_test(wpar))
        cp = compare_parts(t.ast)
        if isinstance(cp[1], ast.IsNot):
            tv, fv = fv, tv
        c.need(len(tv) == 1 and len(fv) == 1, 'offset is not assigned once per branch')
        none_e, win_e = tv[0], fv[0]
    else:
        raise AnalysisError('find offset is not a local assigned per branch: %s' % norm(off))
    # no-window branch: magnitude >= freshlen + len(s) - 1
    L = lin(none_e, f, keep=(off.id,))
    c.need(L is not None, 'offset is not linear: %s' % norm(none_e))
    mag = L.scale(-1)
    need = Lin(-1, {fresh: 1, 'len(%s)' % pat.id: 1})
    slack = mag - need
    lb = slack.lower_bound({fresh: 0})
    ok = lb is not None and lb >= 0
    wit = None
    if not ok:
        # concrete boundary valuation: freshlen=1, len(s)=3
        val = slack.const + sum(co * (1 if a == fresh else 3) for a, co in slack.terms.items())
        wit = ('look-back magnitude %r, needed at least freshlen + len(%s) - 1; slack %r is negative e.g. for '
               'freshlen=1, len(%s)=3 (slack %d): an occurrence that began before the last read is missed'
               % (mag, pat.id, slack, pat.id, val))
    c.check(ok, f, none_e, 'without a window the search starts no later than len(buffer) - freshlen - (len(s)-1)',
            witness=wit, kind='alg', tag='lookback')
    Lw = lin(win_e, f, keep=(off.id,))
    c.check(Lw is not None and Lw == Lin(0, {wpar: -1}), f, win_e,
            'with a window the search starts exactly W characters from the end', witness='offset = %r' % Lw, kind='alg', tag='window-offset')


def sym_or(e, truthy):
    """Symbolic value of an expression built from `or`/`and`/max()/IfExp over
    the atoms in *truthy* (atom text -> bool).  Returns a frozenset of atoms
    (meaning: max of them) or None (falsy / unknown)."""
    t = ' '.join(src(e).split())
    if t in truthy:
        return frozenset([t]) if truthy[t] else frozenset()
    if isinstance(e, ast.BoolOp) and isinstance(e.op, ast.Or):
        for v in e.values:
            r = sym_or(v, truthy)
            if r is None:
                return None
            if r:
                return r
        return frozenset()
    if isinstance(e, ast.BoolOp) and isinstance(e.op, ast.And):
        r = None
        for v in e.values:
            r = sym_or(v, truthy)
            if r is None:
                return None
            if not r:
                return frozenset()
        return r
    if isinstance(e, ast.Call) and dotted(e.func) == 'max':
        out = frozenset()
        for a in e.args:
            r = sym_or(a, truthy)
            if r is None:
                return None
            out |= r
        return out
    if isinstance(e, ast.Constant) and e.value in (0, None):
        return frozenset()
    return None


def check_trim(c, repo):
    f = repo.func('expect:Expecter.do_search')
    g = f.cfg
    sn = cfg_nodes_with_call(f, lambda k: callee_last(k) == 'search')
    c.need(len(sn) == 1, 'do_search: search call not found')
    W = sn[0][1].args[0].id if sn[0][1].args and isinstance(sn[0][1].args[0], ast.Name) else None
    c.need(W, 'do_search: window variable not found')
    idx = sn[0][0].ast.targets[0].id
    tests = found_tests(g, idx)
    c.need(len(tests) == 1 and tests[0][1] != 'wrong', 'match test not found')
    miss = guard_region(g, tests[0][0], other(tests[0][1]))
    trims = []
    for n in miss:
        for k in node_calls(n):
            if stores.store_call(k, f) == ('_buffer', 'write'):
                trims.append((n, k))
    c.need(len(trims) == 1, 'do_search: expected one trimming write after a miss, found %d' % len(trims))
    n, k = trims[0]
    arg = k.args[0]
    sb = slice_bounds(arg)
    c.need(sb is not None and is_name(arg.value, W) and sb[1] is None and sb[2] is None and sb[0] is not None,
           'trim is not a lower-bound-only slice of the window: %s' % norm(arg))
    lo = sb[0]
    Llo = lin(lo, f, keep=tuple(aliases_of(f).single_assign))
    c.need(Llo is not None, 'trim bound not linear')
    # the kept length M
    mvars = [a for a in Llo.terms]
    c.need(len(mvars) == 1 and Llo.terms[mvars[0]] == -1, 'trim bound is not -(<kept length>) + const: %r' % Llo)
    M = mvars[0]
    c.check(Llo.const <= 1, f, arg, 'kept suffix length is at least (window or look-back) - 1', witness='bound %r' % Llo, kind='alg', tag='trim-length')
    # M's definition
    mdef = aliases_of(f).single_assign.get(M)
    c.need(mdef is not None, 'kept length %s is not a single-assignment local' % M)
    Wt, Lt = 'self.searchwindowsize', 'self.lookback'
    cases = []
    okall = True
    for wt in (True, False):
        for lt in (True, False):
            if not wt and not lt:
                continue
            r = sym_or(mdef, {Wt: wt, Lt: lt})
            want = Wt if wt else Lt
            ok = r is not None and want in r
            cases.append('W %s, look-back %s -> %s' % ('set' if wt else 'unset', 'set' if lt else 'unset',
                                                      sorted(r) if r is not None else 'unknown'))
            okall = okall and ok
    c.check(okall, f, mdef, 'kept length is the window when one is in force, else the look-back (never the smaller of the two)',
            witness='; '.join(cases), kind='alg', tag='trim-maintain')
    # NEGZERO: -M must be non-zero: dominated by a truthiness guard on the same expression
    # (the test may be on the defining expression or on the local that holds it: the same value)
    cs_ = conditions(g, n)
    dom_ok = (norm(mdef), True) in cs_ or (M, True) in cs_
    c.check(dom_ok, f, arg, 'the negative slice bound is provably non-zero (guarded by the truthiness of the same expression): '
            'window[-0:] would keep everything', witness='no dominating truthiness test of %s' % norm(mdef), kind='path', tag='trim-negzero')


def check_lookback(c, repo):
    # look-back is the searcher's longest_string
    e = repo.func('expect:Expecter.__init__')
    las = [n for n in iter_nodes(e.node) if isinstance(n, ast.Assign) and stmt_assigns_attr(n, 'lookback') is not None]
    vals = [norm(n.value) for n in las]
    c.check(any(v.endswith('.longest_string') for v in vals) and all(v.endswith('.longest_string') or v == 'None' for v in vals),
            e, las[-1] if las else None, 'Expecter.lookback is the searcher\'s longest_string (or None when the searcher has none)',
            witness=str(vals), kind='ast', tag='lookback-src')
    # longest_string is the running maximum over all stored patterns
    s = repo.func('expect:searcher_string.__init__')
    loops = [x for x in iter_nodes(s.node) if isinstance(x, ast.For)]
    c.need(len(loops) == 1, 'searcher_string.__init__: loop not found')
    loop = loops[0]
    item = loop.target.elts[1].id
    sg = s.cfg
    ups = [x for x in sg.nodes if x.kind == 'stmt' and stmt_assigns_attr(x.ast, 'longest_string') is not None
           and any(p is loop for p in parent_chain(x.ast))]
    inits = [x for x in sg.nodes if x.kind == 'stmt' and stmt_assigns_attr(x.ast, 'longest_string') is not None
             and not any(p is loop for p in parent_chain(x.ast))]
    c.check(len(inits) == 1 and is_const(inits[0].ast.value, 0), s, inits[0].ast if inits else None,
            'longest_string starts at 0', kind='ast', tag='longest-init')
    ok = False
    wit = 'no update found'
    if len(ups) == 1:
        u = ups[0]
        v = u.ast.value
        if isinstance(v, ast.Call) and dotted(v.func) == 'max':
            ok = sorted(norm(a) for a in v.args) == sorted(['self.longest_string', 'len(%s)' % item])
            wit = norm(v)
        elif norm(v) == 'len(%s)' % item:
            # guarded by len(item) > self.longest_string
            for t in sg.nodes:
                if t.kind == 'test' and u in guard_region(sg, t, 'true'):
                    cp = compare_parts(t.ast)
                    if cp and ((norm(cp[0]) == 'len(%s)' % item and isinstance(cp[1], (ast.Gt, ast.GtE)) and norm(cp[2]) == 'self.longest_string')
                               or (norm(cp[2]) == 'len(%s)' % item and isinstance(cp[1], (ast.Lt, ast.LtE)) and norm(cp[0]) == 'self.longest_string')):
                        ok = True
                    wit = norm(t.ast)
        # the update must be reached for every stored pattern: the append dominates or is dominated within the iteration
        apps = [x for x in sg.nodes if any(callee_last(k2) == 'append' for k2 in node_calls(x)) and any(p is loop for p in parent_chain(x.ast))]
        if ok and apps:
            # every path from the append to the loop header passes the length test
            hdr = sg.node_of_stmt(loop)
            tnodes = [t for t in sg.nodes if t.kind == 'test' and 'longest_string' in norm(t.ast)] or [u]
            ok2, p = sg.must_pass(apps[0], {hdr}, set(tnodes), skip_labels=('exc',))
            if not ok2:
                ok = False
                wit = 'a stored pattern can skip the length update: ' + sg.describe_path(p)
    c.check(ok, s, ups[0].ast if ups else None, 'longest_string is the running maximum of len(s) over every stored pattern',
            witness=wit, kind='path', tag='longest-max')


def check_freshlen(c, repo):
    # do_search: search(window, freshlen, self.searchwindowsize) with freshlen only clamped
    f = repo.func('expect:Expecter.do_search')
    g = f.cfg
    sn = cfg_nodes_with_call(f, lambda k: callee_last(k) == 'search')
    k = sn[0][1]
    wpar, fpar = f.params[1], f.params[2]
    c.check(len(k.args) >= 3 and is_name(k.args[0], wpar) and is_name(k.args[1], fpar)
            and ctext(k.args[2], f) == 'self.searchwindowsize', f, k,
            'searcher.search(window, freshlen, self.searchwindowsize): all three forwarded', witness=norm(k), kind='ast', tag='search-args')
    for n in g.nodes:
        if n.kind == 'stmt' and isinstance(n.ast, (ast.Assign, ast.AugAssign)) and fpar in assigned_names(n.ast):
            # accept only the clamp  `if freshlen > len(window): freshlen = len(window)`
            ok = False
            if isinstance(n.ast, ast.Assign) and norm(n.ast.value) == 'len(%s)' % wpar:
                for t in g.nodes:
                    if t.kind == 'test' and n in guard_region(g, t, 'true'):
                        for a, op, b in cmp_views(t.ast):
                            if is_name(a, fpar) and op in (ast.Gt, ast.GtE) and norm(b) == 'len(%s)' % wpar:
                                ok = True
            c.check(ok, f, n.ast, 'freshlen is only ever clamped to len(window), never reduced otherwise',
                    witness=norm(n.ast), tag='freshlen-clamp')
        if n.kind == 'stmt' and isinstance(n.ast, (ast.Assign, ast.AugAssign)) and wpar in assigned_names(n.ast):
            c.bad(f, n.ast, 'the window parameter is rebound before the search', tag='window-rebound')
    # callers
    for q, want in (('expect:Expecter.new_data', 'data'), ('expect:Expecter.existing_data', 'pending')):
        f = repo.func(q)
        g = f.cfg
        rets = returns(f)
        c.need(rets, '%s has no return' % q)
        for r in rets:
            v = r.ast.value
            ok = isinstance(v, ast.Call) and callee_last(v) == 'do_search' and len(v.args) == 2
            c.check(ok, f, r.ast, 'every path ends in return self.do_search(window, freshlen)', witness=norm(r.ast), tag='ends-in-search')
            if not ok:
                continue
            fl = lin(v.args[1], f, stale_ok=True)          # the length taken at entry (the order of take / clear is D3's and D7's business)
            if want == 'data':
                d = f.params[1]
                good = fl is not None and fl == Lin(0, {'len(%s)' % d: 1})
                c.check(good, f, v, 'new_data: freshlen == len(<appended data>)', witness='freshlen = %r' % fl, kind='alg', tag='freshlen-new')
            else:
                good = fl is not None and len(fl.terms) == 1 and fl.const >= 0 and \
                    list(fl.terms.items())[0][1] == 1 and list(fl.terms)[0].endswith('._before.getvalue())')
                c.check(good, f, v, 'existing_data: everything pending counts as fresh (freshlen >= pending length)',
                        witness='freshlen = %r' % fl, kind='alg', tag='freshlen-existing')
        # definite assignment of `window` on every path to the return
        for r in rets:
            v = r.ast.value
            if isinstance(v, ast.Call) and v.args and isinstance(v.args[0], ast.Name):
                wv = v.args[0].id
                defs = set(n for n in g.nodes if n.kind == 'stmt' and wv in assigned_names(n.ast))
                ok, p = g.dominated_by(r, defs)
                c.check(ok, f, r.ast, '`%s` is assigned on every path reaching the search' % wv,
                        witness='path: ' + g.describe_path(p) if p else None, tag='window-defined')
        # freshlen is not modified after being computed
    # Expecter.__init__: searchwindowsize -1 -> spawn's
    e = repo.func('expect:Expecter.__init__')
    ws = [n for n in iter_nodes(e.node) if isinstance(n, ast.Assign) and stmt_assigns_attr(n, 'searchwindowsize') is not None]
    c.check(len(ws) == 1 and is_name(ws[0].value, 'searchwindowsize'), e, ws[0] if ws else None,
            'the per-call window size is stored as given (after the -1 default is replaced by the spawn\'s)', kind='ast', tag='w-stored')


def check_seeks(c, repo):
    for q in ('expect:Expecter.existing_data', 'expect:Expecter.new_data'):
        f = repo.func(q)
        g = f.cfg
        al = aliases_of(f)
        for n in g.nodes:
            for k in node_calls(n):
                sc = stores.store_call(k, f)
                if not sc or sc[1] != 'seek':
                    continue
                store = sc[0]
                a = k.args[0] if k.args else None
                c.need(a is not None, 'seek without argument')
                L = lin(a, f, stale_ok=True)
                c.need(L is not None and len(L.terms) == 1 and L.const == 0 and list(L.terms)[0].startswith('max(0,'),
                       '%s: seek argument is not max(0, <length> - <k>): %s' % (q, norm(a)))
                # re-derive the inner form
                inner = None
                x = a
                # inline the temporaries of the max argument
                if isinstance(a, ast.Call) and dotted(a.func) == 'max':
                    inner = [z for z in a.args if not is_const(z, 0)]
                c.need(inner and len(inner) == 1, 'seek argument is not max(0, e)')
                Li = lin(inner[0], f, stale_ok=True)
                c.need(Li is not None, 'seek offset not linear')
                pos = [t for t, co in Li.terms.items() if co == 1]
                neg = [t for t, co in Li.terms.items() if co == -1]
                want_len = 'len(self.spawn.%s.getvalue())' % store
                same = len(pos) == 1 and pos[0] == want_len
                c.check(same, f, k, 'the offset is computed from the length of the SAME store the seek acts on (%s)' % store,
                        witness='offset %r on %s' % (Li, store), kind='alg', tag='seek-dim')
                okk = len(neg) == 1 and neg[0] in ('self.searchwindowsize', 'self.lookback') and Li.const <= 0 \
                    and len(Li.terms) == 2
                c.check(okk, f, k, 'the window taken back from the end is at least the search window / look-back',
                        witness='offset %r' % Li, kind='alg', tag='seek-k')
                # which k is legitimate here: look-back only where no window is in force
                if okk and neg[0] == 'self.lookback':
                    ts = [t for t in g.nodes if t.kind == 'test' and norm(t.ast) in ('self.lookback',) and n in guard_region(g, t, 'true')]
                    c.check(bool(ts), f, k, 'look-back is used only under a truthiness test of look-back', tag='seek-lookback-guard')
                # the length was measured before/after the right writes: tell() site
                tell_vars = [nm for nm in (x.id for x in iter_nodes(inner[0]) if isinstance(x, ast.Name)) if nm in al.single_assign
                             and isinstance(al.single_assign[nm], ast.Call) and callee_last(al.single_assign[nm]) == 'tell']
                for tv in tell_vars:
                    tn = [m for m in g.nodes if m.kind == 'stmt' and tv in assigned_names(m.ast)][0]
                    writes_between = [m for m in g.nodes if any(stores.store_call(k2, f) == (store, 'write') for k2 in node_calls(m))
                                      and g.path(tn, m, skip_labels=('exc',)) is not None and g.path(m, n, skip_labels=('exc',)) is not None]
                    if neg and neg[0] == 'self.searchwindowsize':
                        c.check(not writes_between, f, k, 'with a window, the length is measured after the new data was appended',
                                witness='write at L%d between tell() and seek()' % writes_between[0].lineno if writes_between else None,
                                tag='seek-after-write')
                    elif neg and neg[0] == 'self.lookback':
                        c.check(len(writes_between) == 1, f, k,
                                'look-back: the length is measured before the new data is appended (window = look-back + new data)',
                                witness='%d writes between tell() and seek()' % len(writes_between), tag='seek-lookback-before-write')


def check_re_start(c, repo):
    f = repo.func('expect:searcher_re.search')
    ss = [k for k in calls_in(f.node) if callee_last(k) == 'search']
    c.need(len(ss) == 1, 'searcher_re.search: s.search(...) not found')
    k = ss[0]
    buf, wpar = f.params[1], f.params[3]
    ek = end_bound_kind(f, k, buf)
    if ek == 'unknown':
        raise AnalysisError('searcher_re.search: the search is given an end position that is neither the end of the buffer nor the end of an earlier match (%s): cannot be decided' % norm(k))
    c.check(ek in ('none', 'whole'), f, k, 'no end position: the search runs to the end of the buffer', witness=norm(k), kind='ast', tag='re-noend')
    c.need(len(k.args) >= 2 and is_name(k.args[0], buf) and isinstance(k.args[1], ast.Name), 's.search(buffer, searchstart) expected: %s' % norm(k))
    sv = k.args[1].id
    tv, fv, t = _branch_assigns(f, sv, _is_none_test(wpar))
    if isinstance(compare_parts(t.ast)[1], ast.IsNot):
        tv, fv = fv, tv
    c.need(len(tv) == 1 and len(fv) == 1, 'searchstart is not assigned once per branch')
    c.check(is_const(tv[0], 0), f, tv[0], 'without a window the whole buffer is searched (start 0)', kind='alg', tag='re-start-none')
    L = lin(fv[0], f, keep=(sv,))
    want = "max(0,%r)" % (Lin(0, {'len(%s)' % buf: 1, wpar: -1}),)
    c.check(L is not None and L == Lin(0, {want: 1}), f, fv[0],
            'with a window the search starts at max(0, len(buffer) - W)', witness='start = %r' % L, kind='alg', tag='re-start-window')


MUTANTS = [
    ('window-not-trimmed', 'expect', "                window = data[-self.searchwindowsize:]\n                spawn._buffer = spawn.buffer_type()", "                window = data\n                spawn._buffer = spawn.buffer_type()", 'D7'),
    ('offset-drop-len', 'expect', "offset = -(freshlen + len(s))", "offset = -freshlen", 'D1'),
    ('offset-minus-2', 'expect', "offset = -(freshlen + len(s))", "offset = -(freshlen + len(s) - 2)", 'D1'),
    ('offset-window-plus', 'expect', "offset = -searchwindowsize", "offset = -searchwindowsize + 1", 'D1'),
    ('maintain-swapped', 'expect', "maintain = self.searchwindowsize or self.lookback", "maintain = self.lookback or self.searchwindowsize", 'D2'),
    ('maintain-and', 'expect', "maintain = self.searchwindowsize or self.lookback", "maintain = self.searchwindowsize and self.lookback", 'D2'),
    ('trim-plus2', 'expect', "spawn._buffer.write(window[-maintain:])", "spawn._buffer.write(window[-maintain + 2:])", 'D2'),
    ('longest-frozen', 'expect', "            if len(s) > self.longest_string:\n                self.longest_string = len(s)\n", "", 'D2'),
    ('longest-first-only', 'expect', "            if len(s) > self.longest_string:\n                self.longest_string = len(s)\n", "            if not self.longest_string:\n                self.longest_string = len(s)\n", 'D2'),
    ('freshlen-zero-existing', 'expect', "        freshlen = before_len\n", "        freshlen = 0\n", 'D3'),
    ('freshlen-buf-existing', 'expect', "        freshlen = before_len\n", "        freshlen = buf_len\n", 'D3'),
    ('freshlen-minus1', 'expect', "        freshlen = len(data)\n", "        freshlen = len(data) - 1\n", 'D3'),
    ('seek-cross-store', 'expect', "                spawn._before.seek(\n                    max(0, before_len - self.searchwindowsize))", "                spawn._before.seek(\n                    max(0, buf_len - self.searchwindowsize))", 'D4'),
    ('seek-half-window', 'expect', "spawn._buffer.seek(max(0, new_len - self.searchwindowsize))", "spawn._buffer.seek(max(0, new_len - self.searchwindowsize + 1))", 'D4'),
    ('seek-lookback-after-write', 'expect', "                old_len = spawn._buffer.tell()\n                spawn._buffer.write(data)\n", "                spawn._buffer.write(data)\n                old_len = spawn._buffer.tell()\n", 'D4'),
    ('re-start-off', 'expect', "searchstart = max(0, len(buffer) - searchwindowsize)", "searchstart = max(0, len(buffer) - searchwindowsize + 1)", 'D5'),
    ('re-start-nonzero', 'expect', "            searchstart = 0\n", "            searchstart = freshlen\n", 'D5'),
    ('search-drop-window', 'expect', "index = searcher.search(window, freshlen, self.searchwindowsize)", "index = searcher.search(window, freshlen, None)", 'D3'),
    ('existing-elif-too-small', 'expect', "            elif buf_len < self.searchwindowsize:", "            elif buf_len < self.searchwindowsize - 2:", 'D7'),
    ('newdata-window-short', 'expect', "                window = data[-self.searchwindowsize:]\n", "                window = data[-self.searchwindowsize + 1:]\n", 'D7'),
    ('newdata-guard-and', 'expect', "            if len(data) >= self.searchwindowsize or not spawn._buffer.tell():", "            if len(data) >= self.searchwindowsize - 2 or not spawn._buffer.tell():", 'D7'),
    ('existing-resync-skipped', 'expect', "        if before_len > buf_len:\n            if not self.searchwindowsize:", "        if before_len > buf_len + 1:\n            if not self.searchwindowsize:", 'D7'),
    ('lookback-none', 'expect', "            self.lookback = searcher.longest_string", "            self.lookback = 1", 'D2'),
]
PRESERVING = [
    ('clamp-min', 'expect', '        if freshlen > len(window):\n            freshlen = len(window)\n', '        freshlen = min(freshlen, len(window))\n'),
    ('offset-plus-extra', 'expect', "offset = -(freshlen + len(s))", "offset = -(freshlen + len(s) + 1)"),
    ('longest-max', 'expect', "            if len(s) > self.longest_string:\n                self.longest_string = len(s)\n", "            self.longest_string = max(self.longest_string, len(s))\n"),
    ('existing-elif-le', 'expect', "            elif buf_len < self.searchwindowsize:", "            elif buf_len <= self.searchwindowsize:"),
    ('existing-ge', 'expect', "        if before_len > buf_len:\n            if not self.searchwindowsize:", "        if before_len >= buf_len:\n            if not self.searchwindowsize:"),
    ('newdata-guard-gt', 'expect', "            if len(data) >= self.searchwindowsize or not spawn._buffer.tell():", "            if len(data) > self.searchwindowsize or not spawn._buffer.tell():"),
    ('newdata-guard-drop-empty', 'expect', "            if len(data) >= self.searchwindowsize or not spawn._buffer.tell():", "            if len(data) >= self.searchwindowsize:"),
    ('trim-when-short', 'expect', "            if spawn._buffer.tell() > maintain:", "            if spawn._buffer.tell() > maintain - 2:"),
    ('trim-ge', 'expect', "            if spawn._buffer.tell() > maintain:", "            if spawn._buffer.tell() >= maintain:"),
    ('clamp-ge', 'expect', "        if freshlen > len(window):", "        if freshlen >= len(window):"),
]

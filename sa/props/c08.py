"""C08 Send fidelity."""
import ast

from ..astx import (calls_in, dotted, norm, src, iter_nodes, assigned_targets, assigned_names,
                    const_value, is_const, parent_chain, aliases_of)
from ..lib import (raises, call_arg, relation, truth, other, cmp_views, core, holds_region, conditions, found_test, found_tests, path_tests, entails_empty, paths_entail_empty, eval_conditions, relation_tests, atom_key, expand_condition, mode_mismatch_conditions, is_bytes_mode_text_guard, cfg_nodes_with_call, node_calls, returns, stmt_assigns_attr, callee_last,
                   is_name, is_self_attr, node_roots, guard_region)
from ..lib import *      # noqa: F401,F403  (path-condition helpers)
from ..linear import ctext
from ..loader import AnalysisError
from ..callgraph import reach
from ..effects import resolve_call

EXPLANATION = (
    "Static analysis of the send side of all four transports: (D1) in every send() the argument flows "
    "coerce -> log('send') -> persistent encoder (final=False) -> exactly one write primitive on every path, with no "
    "other transformation of the data, and the value returned is the primitive's byte count (len(bytes) after "
    "sendall); (D2) every sendline contributes the caller's text once and self.linesep exactly once, in that order; "
    "write calls send once; writelines forwards each element of an unfiltered loop once; (D3) who-may-call: no write "
    "primitive towards the peer is reachable in the call graph from any read-side or lifecycle entry point (expect "
    "family, read*, close, isalive, wait, terminate, kill, echo/winsize/isatty, __str__, __enter__/__exit__, "
    "constructors); (D4) sendcontrol/sendeof/sendintr make one delegated ptyprocess call and log the byte it "
    "returned; (D5) text given to a bytes-mode object is encoded with the constant 'utf-8' and bytes pass unchanged; (D6) socket: the temporary read timeout is replaced again in a finally, so it cannot stay in force for a later sendall; writelines consumes its (possibly one-shot) iterable exactly once. "
    "NOT decided: tty line discipline, partial writes by the OS, what the peer really receives.")
TRUSTED = ["os.write / socket.sendall / file.write send the bytes object they are given", "ptyprocess sendcontrol/sendeof/sendintr (parsed for who-may-call only)", "sa/ engine"]
ASSUMPTIONS = ["a new public send-like method is not an alarm; a write reachable from the read/lifecycle side is"]
LEVEL_TEXT = ("Static analysis of named structural clauses: the coerce->log->encode->single-write pipeline by def-use "
              "and path counting in the 4 send implementations, exactly-one line separator, delegation of write/"
              "writelines, call-graph who-may-call rule for the write primitives, one delegated call per control byte.")
LEVEL_NOTE = "Trusted: OS write primitives; analyser. Not decided: kernel/tty behaviour, partial writes."
TECHNIQUE = "def-use pipeline + CFG occurrence counting + call-graph who-may-call (static analysis)"

SPAWN_CLASSES = ('spawn', 'fdspawn', 'PopenSpawn', 'SocketSpawn')
NON_WRITING_ENTRIES = ['expect', 'expect_exact', 'expect_list', 'expect_loop', 'read', 'readline', 'readlines', '__iter__',
                       'read_nonblocking', 'close', 'isalive', 'wait', 'terminate', 'kill', 'setecho', 'getecho',
                       'waitnoecho', 'getwinsize', 'setwinsize', 'isatty', 'eof', 'flush', 'fileno', '__str__', '__enter__',
                       '__exit__', '__init__', 'compile_pattern_list', '_log', '_log_control', '_coerce_send_string',
                       '_coerce_expect_string', '_coerce_expect_re']


def write_primitive(call, fi=None):
    """(kind, data-arg) if *call* writes to the peer"""
    d = dotted(call.func) or ''
    last = callee_last(call)
    if d == 'os.write' and len(call.args) == 2:
        fd = norm(call.args[0])
        if 'STDOUT' in fd or 'STDERR' in fd:
            return None
        return ('os.write', call.args[1])
    if last in ('sendall', 'send', 'sendto') and isinstance(call.func, ast.Attribute) and (dotted(call.func.value) or '').endswith('socket'):
        return ('socket.' + last, call.args[0] if call.args else None)
    if last == 'write' and d.endswith('stdin.write'):
        return ('stdin.write', call.args[0] if call.args else None)
    if isinstance(call.func, ast.Attribute) and (dotted(call.func.value) or '').endswith('ptyproc') and \
            last in ('write', '_writeb', 'send', 'sendline', 'sendcontrol', 'sendeof', 'sendintr'):
        return ('ptyproc.' + last, call.args[0] if call.args else None)
    return None


def run(R):
    repo = R.repo
    sends = [repo.func(q) for q in ('pty_spawn:spawn.send', 'fdpexpect:fdspawn.send', 'popen_spawn:PopenSpawn.send',
                                    'socket_pexpect:SocketSpawn.send')]
    with R.clause('D1', 'FLOW', floor=20, desc='send(): coerce -> log -> encode -> exactly one write; returns the byte count') as c:
        for f in sends:
            check_pipeline(c, f)
        check_count_units(c, repo)
    with R.clause('D2', 'ONCE', floor=12, desc='sendline adds linesep exactly once; write/writelines delegate once per item') as c:
        for cn in SPAWN_CLASSES:
            cl = repo.cls(cn)
            check_sendline(c, repo, cl)
            check_write(c, repo, cl)
    with R.clause('D3', 'OWN', floor=8, desc='nothing on the read / lifecycle side can write to the peer') as c:
        check_who_may_write(c, repo, R)
    with R.clause('D4', 'CTRL', floor=6, desc='control bytes: one delegated ptyprocess call each, the byte is logged') as c:
        check_control(c, repo)
    with R.clause('D6', 'PAIR', floor=2, desc='socket: the temporary read timeout never leaks into sendall (restored on every exit of the read)') as c:
        from .c05 import check_socket_timeout
        check_socket_timeout(c, repo, restore='leak')
    with R.clause('D5', 'CONST', floor=4, desc='text in bytes mode is UTF-8 encoded, bytes pass unchanged; unicode mode: one incremental encoder per object') as c:
        check_encoder_kind(c, repo)
        f = repo.func('spawnbase:SpawnBase._coerce_send_string')
        encs = [k for k in calls_in(f.node) if callee_last(k) == 'encode']
        ok = len(encs) == 1 and len(encs[0].args) == 1 and is_const(encs[0].args[0], 'utf-8') and is_name(encs[0].func.value, f.params[1])
        c.check(ok, f, encs[0] if encs else None, "text is encoded with the constant 'utf-8'", witness=norm(encs[0]) if encs else 'missing', kind='ast', tag='utf8')
        g = f.cfg
        rets = returns(f)
        plain = [r for r in rets if is_name(r.ast.value, f.params[1])]
        got = conditions(g, g.node_for(encs[0])) if encs else None
        okp = len(plain) >= 1 and len(rets) == len(plain) + 1 and not raises(f) and got == mode_mismatch_conditions(f.params[1], True)
        c.check(okp, f, encs[0] if encs else None, 'only non-bytes given to a bytes-mode object are converted; everything else is returned unchanged',
                witness='converted under %s' % sorted(got or []), kind='path', tag='coerce-guard')


def check_count_units(c, repo):
    """send() / os.write() return a number of BYTES.  In unicode mode the text handed to send() is measured in characters: a byte count
    compared with len(<text>) or used to slice <text> (the "send the rest after a short write" loop) skips or repeats characters as soon
    as the text is not ASCII.  Only the encoded bytes may be sliced by such a count."""
    for cn in SPAWN_CLASSES:
        cl = repo.cls(cn)
        found = []
        n_fn = 0
        for f in cl.methods.values():
            n_fn += 1
            counts, texts, encoded = set(), set(), set()
            if f.name in ('send', 'sendline', 'write', 'writelines', '_send_all') or True:
                pass
            for _ in range(4):
                for st in iter_nodes(f.node):
                    if isinstance(st, ast.Assign):
                        v = st.value
                        names = [t.id for t in st.targets if isinstance(t, ast.Name)]
                        if isinstance(v, ast.Call):
                            last = callee_last(v)
                            d = dotted(v.func) or ''
                            if (last == 'send' and isinstance(v.func, ast.Attribute)) or d == 'os.write' or (last in ('write', '_writeb') and d.endswith('ptyproc.' + last)):
                                counts.update(names)
                            elif last == '_coerce_send_string':
                                texts.update(names)
                            elif last == 'encode' and isinstance(v.func, ast.Attribute):
                                encoded.update(names)
                        if isinstance(v, ast.Name) and v.id in counts:
                            counts.update(names)
                        if isinstance(v, ast.Subscript) and isinstance(v.value, ast.Name) and v.value.id in texts:
                            texts.update(names)
                        if isinstance(v, ast.BinOp) and any(isinstance(x, ast.Name) and x.id in texts for x in ast.walk(v)):
                            texts.update(n_ for n_ in names if n_ not in counts)
                        if isinstance(v, ast.BinOp) and any(isinstance(x, ast.Name) and x.id in counts for x in ast.walk(v)) \
                                and not any(isinstance(x, ast.Name) and x.id in texts for x in ast.walk(v)):
                            counts.update(names)
                    elif isinstance(st, ast.AugAssign) and isinstance(st.target, ast.Name) and any(isinstance(x, ast.Name) and x.id in counts for x in ast.walk(st.value)):
                        counts.add(st.target.id)
            if f.name in ('send', 'sendline', 'write') and len(f.params) > 1:
                texts.add(f.params[1])
            texts -= encoded
            if not counts or not texts:
                continue
            for n in iter_nodes(f.node):
                if isinstance(n, ast.Subscript) and isinstance(n.value, ast.Name) and n.value.id in texts \
                        and any(isinstance(x, ast.Name) and x.id in counts for x in ast.walk(n.slice)):
                    found.append((f, n, 'the text %s is sliced by the byte count %s' % (n.value.id, norm(n.slice))))
                if isinstance(n, ast.Compare) and len(n.ops) == 1:
                    sides = [n.left, n.comparators[0]]
                    lens = [x for x in sides if isinstance(x, ast.Call) and dotted(x.func) == 'len' and x.args and isinstance(x.args[0], ast.Name) and x.args[0].id in texts]
                    cnts = [x for x in sides if isinstance(x, ast.Name) and x.id in counts]
                    if lens and cnts:
                        found.append((f, n, 'the byte count %s is compared with the length in characters %s' % (cnts[0].id, norm(lens[0]))))
        if found:
            for f, n, what in found:
                c.bad(f, n, 'a number of bytes written is applied to text that is not yet encoded (%s): with non-ASCII text in unicode mode characters are skipped or sent twice' % what,
                      witness=norm(n), kind='flow', tag='count-units:' + f.name)
        else:
            c.ok(cl.methods.get('send') or list(cl.methods.values())[0], None, 'no byte count returned by a write is applied to un-encoded text in %s (%d methods read)' % (cn, n_fn),
                 kind='flow', tag='count-units:' + cn)


def check_encoder_kind(c, repo):
    """Unicode mode: the bytes of successive sends are the encoding of their concatenation only if ONE incremental encoder per spawn object
    does the encoding -- a stateful codec (utf-16, utf-8-sig, iso2022) emits its start-of-stream bytes once, a one-shot `str.encode` per
    call emits them on every send."""
    from .c07 import coder_freshness
    init = repo.func('spawnbase:SpawnBase.__init__')
    sites = []
    for n in iter_nodes(init.node):
        if isinstance(n, ast.Assign):
            for t in n.targets:
                tg = [t] if not isinstance(t, (ast.Tuple, ast.List)) else t.elts
                for i_, x in enumerate(tg):
                    if isinstance(x, ast.Attribute) and x.attr == '_encoder':
                        sites.append((n, i_ if isinstance(t, (ast.Tuple, ast.List)) else None))
    c.need(len(sites) >= 2, 'SpawnBase.__init__: the two assignments of _encoder (bytes mode / unicode mode) not found')
    for n, idx in sites:
        kind, info = coder_freshness(repo, init, n.value, 'encoder', idx)
        if kind == 'fresh':
            c.ok(init, n, 'the encoder is one incremental encoder (or the pass-through coder of bytes mode) per spawn object', kind='flow', tag='encoder:' + norm(n.value)[:40])
        elif kind == 'shared':
            c.bad(init, n, 'the encoder object is shared between spawn objects (%s): the start-of-stream bytes of a stateful codec reach only the first peer' % info,
                  kind='flow', tag='encoder:' + norm(n.value)[:40])
        else:
            v = n.value if idx is None or not isinstance(n.value, ast.Tuple) else n.value.elts[idx]
            cn = callee_last(v) if isinstance(v, ast.Call) else None
            cl = repo.classes.get(cn) if cn else None
            enc = cl.methods.get('encode') if cl is not None else None
            oneshot = enc is not None and [k for k in calls_in(enc.node) if (callee_last(k) == 'encode' and isinstance(k.func, ast.Attribute) and
                                                                              isinstance(k.func.value, ast.Name) and k.func.value.id in enc.params)
                                           or dotted(k.func) == 'codecs.encode']
            delegates = enc is not None and [k for k in calls_in(enc.node) if callee_last(k) == 'encode' and isinstance(k.func, ast.Attribute)
                                             and isinstance(k.func.value, ast.Attribute) and isinstance(k.func.value.value, ast.Name) and k.func.value.value.id == 'self']
            if oneshot and delegates:
                raise AnalysisError('%s: encodes through an encoder object it holds (%s) AND has a one-shot path (%s): under which conditions the one-shot path '
                                    'is taken, and whether it is equivalent there, cannot be decided' % (enc.qual, norm(delegates[0])[:40], norm(oneshot[0])[:40]))
            if oneshot:
                c.bad(enc, oneshot[0], 'every send is encoded on its own (%s): a stateful codec then emits its start-of-stream bytes (BOM) on every send, '
                      'the peer does not receive the encoding of the concatenated arguments' % norm(oneshot[0]), kind='flow', tag='encoder:' + norm(n.value)[:40])
            else:
                raise AnalysisError('cannot determine what kind of object _encoder is: %s' % info)


def check_pipeline(c, f, line=False):
    """line=True: the routine is a sendline() that runs the send pipeline itself: the encoder input is <coerced argument> + self.linesep"""
    g = f.cfg
    p = f.params[1]
    prims = []
    for n, k in cfg_nodes_with_call(f, lambda k: write_primitive(k) is not None):
        prims.append((n, k))
    c.need(prims, '%s: no write primitive found' % f.qual)
    # exactly one write on every path
    pn = set(n for n, k in prims)
    mn, mx = g.occurrences(lambda n: n in pn)
    c.check(mn == 1 and mx == 1, f, prims[0][1], 'exactly one write primitive executes on every path',
            witness='min=%s max=%s' % (mn, mx), tag='one-write')
    for n, k in prims:
        kind, arg = write_primitive(k)
        if not isinstance(arg, ast.Name):
            c.bad(f, k, 'the written value is transformed on its way to the write primitive (must be exactly the encoder output)',
                  witness=norm(k), kind='flow', tag='write-encoded')
            continue
        b = arg.id
        bdefs = [m for m in g.nodes if m.kind == 'stmt' and b in assigned_names(m.ast)]
        ok = len(bdefs) == 1 and isinstance(bdefs[0].ast, ast.Assign) and isinstance(bdefs[0].ast.value, ast.Call) \
            and callee_last(bdefs[0].ast.value) == 'encode' and ctext(bdefs[0].ast.value.func.value, f) == 'self._encoder'
        c.check(ok, f, k, 'what is written is exactly the output of the persistent encoder', witness='%s defined by %s' % (b, [norm(m.ast) for m in bdefs]), kind='flow', tag='write-encoded')
        if not ok:
            continue
        enc = bdefs[0].ast.value
        fin = call_arg(enc, 'final', 1)
        c.check((fin is None or is_const(fin, False)) and len(enc.args) + len(enc.keywords) <= 2, f, enc, 'encoder called with final=False', witness=norm(enc), kind='ast', tag='enc-final')
        sarg = enc.args[0]
        if not isinstance(sarg, ast.Name):
            c.bad(f, enc, 'the encoder input is transformed (must be exactly the coerced argument)', witness=norm(enc), kind='flow', tag='encode-coerced')
            continue
        s = sarg.id
        sdefs = [m for m in g.nodes if m.kind == 'stmt' and s in assigned_names(m.ast)]
        def coerced(e):
            return isinstance(e, ast.Call) and callee_last(e) == '_coerce_send_string' and e.args and is_name(e.args[0], p)
        if line:
            v_ = sdefs[0].ast.value if len(sdefs) == 1 and isinstance(sdefs[0].ast, ast.Assign) else None
            left = v_.left if isinstance(v_, ast.BinOp) and isinstance(v_.op, ast.Add) else None
            if isinstance(left, ast.Name) and left.id != p:
                left = aliases_of(f).single_assign.get(left.id, left)
            oks = left is not None and norm(v_.right) == 'self.linesep' and coerced(left)
        else:
            oks = len(sdefs) == 1 and isinstance(sdefs[0].ast, ast.Assign) and coerced(sdefs[0].ast.value)
        c.check(oks, f, enc, 'the encoder input is the coerced argument%s, nothing else (no strip / slice / replace in between)' % (' + exactly one line separator' if line else ''),
                witness='%s defined by %s' % (s, [norm(m.ast) for m in sdefs]), kind='flow', tag='encode-coerced')
        # log once, same value, before the write
        logs = [(m, lk) for m, lk in cfg_nodes_with_call(f, lambda lk: callee_last(lk) == '_log')]
        good = [(m, lk) for m, lk in logs if len(lk.args) == 2 and is_name(lk.args[0], s) and is_const(lk.args[1], 'send')]
        lmn, lmx = g.occurrences(lambda x: x in set(m for m, _ in logs))
        c.check(len(good) == len(logs) and lmn == 1 and lmx == 1, f, logs[0][1] if logs else k,
                "the coerced string is logged exactly once with direction 'send'", witness='logs: %s (min=%s max=%s per path)' % ([norm(lk) for _, lk in logs], lmn, lmx), tag='log-once')
        if good and sdefs:
            okd = g.dominated_by(n, {good[0][0]})[0] and g.dominated_by(good[0][0], {sdefs[0]})[0] and g.dominated_by(bdefs[0], {sdefs[0]})[0]
            c.check(okd, f, good[0][1], 'order: coerce, then log, then write', tag='order')
        # return value
        rets = returns(f)
        if kind.startswith('socket.'):
            okr = len(rets) == 1 and norm(rets[0].ast.value) == 'len(%s)' % b
            c.check(kind == 'socket.sendall', f, k, 'the socket write is sendall (send() may write only part of the data)', witness=kind, kind='ast', tag='sendall')
        else:
            okr = len(rets) == 1 and rets[0].ast.value is k
        c.check(okr, f, rets[0].ast if rets else k, 'send returns the number of bytes written', witness=norm(rets[0].ast) if rets else 'no return', kind='ast', tag='returns-count')
    # delaybeforesend must not alter data: nothing else assigns s/b (covered above)


def check_sendline(c, repo, cl):
    f = cl.methods.get('sendline')
    if f is None:
        return
    g = f.cfg
    p = f.params[1]
    sends = cfg_nodes_with_call(f, lambda k: callee_last(k) == 'send' and ctext(k.func.value, f) == 'self')
    if not sends and cfg_nodes_with_call(f, lambda k: write_primitive(k) is not None):
        # a sendline() that does not go through send() but runs the same pipeline itself
        check_pipeline(c, f, line=True)
        return
    c.need(sends, '%s: no self.send call' % f.qual)
    # what is sent must be written in the call (`self.send(s + self.linesep)`) or be a local bound once; a local that is re-bound between
    # sends (the remainder of a "send the rest after a short write" loop) is beyond this rule -- whether such a loop sends each character
    # exactly once is decided, as far as it can be, by the byte-count rule of D1
    nbind = {}
    for st in iter_nodes(f.node):
        if isinstance(st, (ast.Assign, ast.AugAssign)):
            for t_ in assigned_names(st):
                nbind[t_] = nbind.get(t_, 0) + 1
    rebound = sorted(set(x.id for n_, k in sends for a_ in k.args for x in ast.walk(a_) if isinstance(x, ast.Name) and nbind.get(x.id, 0) > 1 and x.id != p))
    c.need(not rebound, '%s: what is sent is held in a local that is bound several times (%s): how often the text and the separator reach the peer cannot be decided' % (f.qual, rebound))

    def mentions(e, what):
        return any(norm(x) == what for x in ast.walk(e))
    with_sep = [(n, k) for n, k in sends if k.args and mentions(k.args[0], 'self.linesep')]
    # count linesep occurrences inside each argument
    cnt_ok = all(sum(1 for x in ast.walk(k.args[0]) if norm(x) == 'self.linesep') == 1 for n, k in with_sep)
    ns = set(n for n, k in with_sep)
    mn, mx = g.occurrences(lambda n: n in ns)
    c.check(mn == 1 and mx == 1 and cnt_ok, f, with_sep[0][1] if with_sep else sends[0][1],
            'exactly one line separator is sent on every path', witness='min=%s max=%s sends carrying self.linesep' % (mn, mx), tag='linesep-once')
    # the text: the (coerced) parameter is sent exactly once and before / together with the separator
    al = aliases_of(f)

    # locals that hold the caller's text (the parameter itself, its coerced form, a copy): every binding of the local is computed from one
    carriers, mixed = set([p]), set()
    for _ in range(4):
        binds = {}
        for st in iter_nodes(f.node):
            if isinstance(st, ast.Assign) and len(st.targets) == 1 and isinstance(st.targets[0], ast.Name):
                binds.setdefault(st.targets[0].id, []).append(any(isinstance(x, ast.Name) and x.id in carriers for x in ast.walk(st.value)))
        for x, bs in binds.items():
            if x == p:
                continue
            if all(bs):
                carriers.add(x)
            elif any(bs):
                mixed.add(x)

    def carries_text(k):
        for x in ast.walk(k.args[0]) if k.args else []:
            if isinstance(x, ast.Name) and x.id in carriers:
                return True
        return False
    c.need(not any(isinstance(x, ast.Name) and x.id in mixed for n_, k in sends for x in ast.walk(k)),
           '%s: a local that is sent holds the caller\'s text on some bindings only (%s)' % (f.qual, sorted(mixed)))
    txt = [(n, k) for n, k in sends if carries_text(k)]
    nt = set(n for n, k in txt)
    tmn, tmx = g.occurrences(lambda n: n in nt)
    c.check(tmn == 1 and tmx == 1, f, txt[0][1] if txt else sends[0][1], 'the caller\'s text is sent exactly once', witness='min=%s max=%s' % (tmn, tmx), tag='text-once')
    for n, k in with_sep:
        a = k.args[0]
        if isinstance(a, ast.BinOp):
            left = a.left
            if isinstance(left, ast.Name) and left.id != p:
                left = al.single_assign.get(left.id, left)
            # the text itself, or the text coerced to the object's string type (inline or through a local)
            is_text = is_name(left, p) or (isinstance(left, ast.Call) and callee_last(left) == '_coerce_send_string' and left.args and is_name(left.args[0], p))
            ok = isinstance(a.op, ast.Add) and norm(a.right) == 'self.linesep' and is_text
            c.check(ok, f, k, 'text first, separator last: send(s + self.linesep)', witness=norm(a), kind='ast', tag='order')
        else:
            # separate send of the separator: must come after the text
            ok = all(g.dominated_by(n, {tn})[0] for tn, _ in txt if tn is not n)
            c.check(ok and norm(a) == 'self.linesep', f, k, 'the separator is sent after the text', kind='path', tag='order')
    # the parameter is only coerced, never otherwise transformed
    for m in g.nodes:
        if m.kind == 'stmt' and p in assigned_names(m.ast):
            v = m.ast.value
            ok = isinstance(v, ast.Call) and callee_last(v) == '_coerce_send_string' and v.args and is_name(v.args[0], p)
            c.check(ok, f, m.ast, 'the text is only coerced before being sent', witness=norm(m.ast), kind='ast', tag='coerce-only')
    # return value
    rets = returns(f)
    c.check(bool(rets) and all(r.ast.value is not None for r in rets), f, rets[0].ast if rets else None, 'sendline returns a byte count', kind='ast', tag='returns')
    for r in rets:
        v = r.ast.value
        if isinstance(v, ast.BinOp):
            c.check(isinstance(v.op, ast.Add), f, r.ast, 'the counts of the two writes are added', witness=norm(v), kind='alg', tag='returns-sum')


def check_write(c, repo, cl):
    f = cl.methods.get('write')
    if f is not None:
        g = f.cfg
        sends = cfg_nodes_with_call(f, lambda k: callee_last(k) in ('send', 'sendline', 'write') and ctext(k.func.value, f) == 'self')
        ns = set(n for n, _ in sends)
        mn, mx = g.occurrences(lambda n: n in ns)
        exact = all(k.args and is_name(k.args[0], f.params[1]) and callee_last(k) == 'send' for _, k in sends)
        c.check(mn == 1 and mx == 1 and exact, f, sends[0][1] if sends else None, 'write(s) calls send(s) exactly once', witness='min=%s max=%s' % (mn, mx), tag='write-once')
    f = cl.methods.get('writelines')
    if f is not None:
        loops = [n for n in iter_nodes(f.node) if isinstance(n, ast.For)]
        ok = len(loops) == 1 and is_name(loops[0].iter, f.params[1]) and isinstance(loops[0].target, ast.Name)
        c.check(ok, f, loops[0] if loops else None, 'writelines iterates the caller\'s sequence directly (unfiltered, in order)', kind='ast', tag='writelines-iter')
        # the argument may be a one-shot iterable (a generator): it is consumed by that loop and by nothing else
        uses = [x for x in ast.walk(f.node) if isinstance(x, ast.Name) and x.id == f.params[1] and isinstance(x.ctx, ast.Load)]
        c.check(len(uses) == 1, f, uses[1] if len(uses) > 1 else (loops[0] if loops else None),
                'the iterable is consumed exactly once, by the write loop (a generator passed to writelines is exhausted by any earlier pass over it)',
                witness='%d reads of `%s`' % (len(uses), f.params[1]), kind='flow', tag='writelines-single-pass')
        if ok:
            g = f.cfg
            v = loops[0].target.id
            hdr = g.node_of_stmt(loops[0])
            ks = cfg_nodes_with_call(f, lambda k: callee_last(k) in ('write', 'send') and k.args and is_name(k.args[0], v))
            ns = set(n for n, _ in ks)
            body = [s for s, l in hdr.succ if l == 'true']
            mn, mx = g.occurrences(lambda n: n in ns, start=body[0], goals={hdr}) if body else (None, None)
            c.check(mn == 1 and mx == 1, f, ks[0][1] if ks else loops[0], 'each element is written exactly once', witness='min=%s max=%s per iteration' % (mn, mx), tag='writelines-once')


def check_who_may_write(c, repo, R):
    writers = {}
    for f in repo.package_funcs(include_lib=True):
        for k in calls_in(f.node):
            wp = write_primitive(k, f)
            if wp and not (f.module.name == 'ptyprocess' and wp[0].startswith('ptyproc.')):
                writers.setdefault(f, []).append((k, wp[0]))
            elif f.module.name == 'ptyprocess' and (dotted(k.func) or '') in ('os.write', 'self.fileobj.write'):
                writers.setdefault(f, []).append((k, dotted(k.func)))
    R.extra['write_primitive_units'] = sorted(f.qual for f in writers)
    c.need(len([f for f in writers if f.module.name != 'ptyprocess']) >= 6, 'expected >= 6 units containing write primitives')
    n = 0
    for cn in SPAWN_CLASSES + ('pxssh',):
        cl = repo.cls(cn)
        entries = []
        for name in NON_WRITING_ENTRIES:
            m = repo.resolve_method(cl, name)
            if m is not None and m not in entries:
                entries.append(m)
        for e in entries:
            if e in writers:
                # an entry that itself writes
                c.bad(e, writers[e][0][0], '%s.%s belongs to the read / lifecycle side but writes to the peer' % (cn, e.name), kind='flow', tag='writes:' + e.qual)
                n += 1
                continue
            rs = reach(repo, [e], dynamic=False)
            hit = [(f, ch) for f, ch in rs.items() if f in writers]
            n += 1
            if hit:
                f, ch = hit[0]
                c.bad(e, writers[f][0][0], '%s.%s can reach a write to the peer (%s)' % (cn, e.name, writers[f][0][1]),
                      witness=' -> '.join(ch), kind='flow', tag='reach:%s.%s' % (cn, e.name))
            else:
                c.ok(e, None, 'no write primitive reachable from %s.%s (%d units explored)' % (cn, e.name, len(rs)), kind='flow', tag='reach:%s.%s' % (cn, e.name))
    # Expecter / searchers / asyncio protocol
    for q in ('expect:Expecter.expect_loop', '_async_w_await:expect_async', '_async_w_await:PatternWaiter.data_received',
              '_async_w_await:PatternWaiter.eof_received', '_async_w_await:PatternWaiter.connection_lost'):
        e = repo.func(q)
        rs = reach(repo, [e], dynamic=True)
        hit = [(f, ch) for f, ch in rs.items() if f in writers]
        c.check(not hit, e, None, 'no write primitive reachable from %s' % q, witness=' -> '.join(hit[0][1]) if hit else None, kind='flow', tag='reach:' + q)


def check_control(c, repo):
    for name in ('sendcontrol', 'sendeof', 'sendintr'):
        f = repo.func('pty_spawn:spawn.' + name)
        g = f.cfg
        ks = cfg_nodes_with_call(f, lambda k: isinstance(k.func, ast.Attribute) and (dotted(k.func.value) or '').endswith('ptyproc'))
        ok = len(ks) == 1 and callee_last(ks[0][1]) == name
        c.check(ok, f, ks[0][1] if ks else None, 'exactly one delegated call ptyproc.%s()' % name, witness=str([norm(k) for _, k in ks]), kind='ast', tag='delegate')
        if not ok:
            continue
        n, k = ks[0]
        mn, mx = g.occurrences(lambda x: x is n)
        c.check(mn == 1 and mx == 1, f, k, 'on every path', witness='min=%s max=%s' % (mn, mx), tag='delegate-once')
        # n, byte = ...; _log_control(byte)
        t = n.ast.targets[0] if isinstance(n.ast, ast.Assign) else None
        okb = isinstance(t, ast.Tuple) and len(t.elts) == 2 and isinstance(t.elts[1], ast.Name)
        logs = [lk for lk in calls_in(f.node) if callee_last(lk) == '_log_control']
        okl = okb and len(logs) == 1 and logs[0].args and is_name(logs[0].args[0], t.elts[1].id)
        c.check(okl, f, logs[0] if logs else k, 'the byte reported by ptyprocess is what gets logged', kind='ast', tag='log-byte')
        no_other = not [x for x in calls_in(f.node) if write_primitive(x) and x is not k]
        c.check(no_other, f, k, 'no additional write', kind='ast', tag='no-extra-write')
    f = repo.func('pty_spawn:spawn._log_control')
    logs = [lk for lk in calls_in(f.node) if callee_last(lk) == '_log']
    ok, wit = log_control_ok(f)
    c.check(ok, f, logs[0] if logs else None, "control bytes are logged with direction 'send'", witness=wit, kind='path', tag='ctrl-direction')


MUTANTS = [
    ('writelines-validates-first', 'pty_spawn', "        for s in sequence:\n            self.write(s)", "        if not all(isinstance(s, self.allowed_string_types) for s in sequence):\n            raise TypeError('strings only')\n        for s in sequence:\n            self.write(s)", 'D2'),
    ('socket-timeout-leaks-into-send', 'socket_pexpect', "        try:\n            self.socket.settimeout(timeout)\n            yield\n        finally:\n            self.socket.settimeout(saved_timeout)", "        self.socket.settimeout(timeout)\n        yield\n        self.socket.settimeout(saved_timeout)", 'D6'),
    ('send-strip', 'pty_spawn', "        b = self._encoder.encode(s, final=False)\n        return os.write(self.child_fd, b)", "        b = self._encoder.encode(s.rstrip('\\x00'), final=False)\n        return os.write(self.child_fd, b)", 'D1'),
    ('send-log-after', 'fdpexpect', "        s = self._coerce_send_string(s)\n        self._log(s, 'send')\n\n        b = self._encoder.encode(s, final=False)\n        return os.write(self.child_fd, b)", "        s = self._coerce_send_string(s)\n\n        b = self._encoder.encode(s, final=False)\n        n = os.write(self.child_fd, b)\n        self._log(s, 'send')\n        return n", 'D1'),
    ('send-final-true', 'popen_spawn', "        b = self._encoder.encode(s, final=False)\n        if PY3:", "        b = self._encoder.encode(s, final=True)\n        if PY3:", 'D1'),
    ('socket-send-partial', 'socket_pexpect', "        self.socket.sendall(b)\n        return len(b)", "        return self.socket.send(b)", 'D1'),
    ('send-twice-large', 'pty_spawn', "        return os.write(self.child_fd, b)\n\n    def sendline", "        if len(b) > 1024:\n            os.write(self.child_fd, b[:1024])\n            return 1024 + os.write(self.child_fd, b)\n        return os.write(self.child_fd, b)\n\n    def sendline", 'D1'),
    ('sendline-double-sep', 'pty_spawn', "        return self.send(s + self.linesep)", "        return self.send(s + self.linesep + self.linesep)", 'D2'),
    ('sendline-no-sep-empty', 'fdpexpect', "        s = self._coerce_send_string(s)\n        return self.send(s + self.linesep)", "        s = self._coerce_send_string(s)\n        if not s:\n            return self.send(s)\n        return self.send(s + self.linesep)", 'D2'),
    ('popen-sendline-sep-first', 'popen_spawn', "        n = self.send(s)\n        return n + self.send(self.linesep)", "        n = self.send(self.linesep)\n        return n + self.send(s)", 'D2'),
    ('writelines-skip-empty', 'pty_spawn', "        for s in sequence:\n            self.write(s)", "        for s in sequence:\n            if s:\n                self.write(s)", 'D2'),
    ('writelines-sorted', 'socket_pexpect', "        for s in sequence:\n            self.write(s)", "        for s in sorted(sequence):\n            self.write(s)", 'D2'),
    ('close-writes-eof', 'pty_spawn', "        self.flush()\n        with _wrap_ptyprocess_err():", "        self.flush()\n        if force:\n            os.write(self.child_fd, b'\\x04')\n        with _wrap_ptyprocess_err():", 'D3'),
    ('isalive-nudges', 'pty_spawn', "        ptyproc = self.ptyproc\n        with _wrap_ptyprocess_err():\n            alive = ptyproc.isalive()", "        ptyproc = self.ptyproc\n        with _wrap_ptyprocess_err():\n            alive = ptyproc.isalive()\n        if alive and self.flag_eof:\n            self.sendeof()", 'D3'),
    ('sendeof-twice', 'pty_spawn', "        n, byte = self.ptyproc.sendeof()\n        self._log_control(byte)", "        n, byte = self.ptyproc.sendeof()\n        n, byte = self.ptyproc.sendeof()\n        self._log_control(byte)", 'D4'),
    ('sendintr-as-eof', 'pty_spawn', "        n, byte = self.ptyproc.sendintr()", "        n, byte = self.ptyproc.sendeof()", 'D4'),
    ('coerce-latin1', 'spawnbase', "            return s.encode('utf-8')\n        return s\n\n    def _get_buffer", "            return s.encode('latin-1')\n        return s\n\n    def _get_buffer", 'D5'),
    ('coerce-send-or', 'spawnbase', "    def _coerce_send_string(self, s):\n        if self.encoding is None and not isinstance(s, bytes):", "    def _coerce_send_string(self, s):\n        if self.encoding is None or not isinstance(s, bytes):", 'D5'),
    ('popen-sendline-count', 'popen_spawn', "        return n + self.send(self.linesep)", "        return n - self.send(self.linesep)", 'D2'),
    ('write-send-twice', 'popen_spawn', "        '''This is similar to send() except that there is no return value.\n        '''\n        self.send(s)", "        '''This is similar to send() except that there is no return value.\n        '''\n        self.send(s)\n        self.send(s[:0])", 'D2'),
]
PRESERVING = [
    ('send-temp', 'pty_spawn', "        b = self._encoder.encode(s, final=False)\n        return os.write(self.child_fd, b)", "        b = self._encoder.encode(s, final=False)\n        fd = self.child_fd\n        return os.write(fd, b)"),
]

"""C15 interact()."""
import ast

from ..astx import (calls_in, dotted, norm, src, iter_nodes, assigned_targets, assigned_names,
                    const_value, is_const, parent_chain)
from ..lib import (call_arg, relation, truth, other, cmp_views, core, holds_region, conditions, found_test, found_tests, path_tests, entails_empty, paths_entail_empty, eval_conditions, relation_tests, atom_key, expand_condition, mode_mismatch_conditions, cfg_nodes_with_call, node_calls, returns, raises, stmt_assigns_attr, callee_last,
                   is_name, node_roots, guard_region, compare_parts, find_test_nodes)
from ..lib import *      # noqa: F401,F403  (path-condition helpers)
from ..linear import ctext, lin, Lin, slice_bounds
from ..loader import AnalysisError
from .. import stores


def fd_of(e, f):
    """which descriptor an expression denotes: `self.child_fd`, `self.STDIN_FILENO`, ... -- a local that holds the field counts as the field
    (whether the number is still current after a close() is C10's question, not this property's)"""
    return ctext(e, f, stale_ok=True)


EXPLANATION = (
    "Static analysis of interact(): (D1) the terminal mode is saved before raw mode is entered and restored with "
    "tcsetattr(saved) in a finally clause that covers the whole copy loop; (D2) the untrimmed pending output is "
    "written to stdout and flushed before raw mode, and both pending-text stores are emptied (nothing is shown twice "
    "or handed to a later expect()); (D3) each direction copies the very value that was read, through the optional "
    "filter only, to the right destination (child -> STDOUT_FILENO, keyboard -> child_fd); the write towards the child "
    "is a write-all loop that drops exactly the n bytes os.write reported; (D4) the escape position is the FIRST "
    "occurrence in the read (find, not rfind), the prefix data[:i] is delivered, then the loop is left without sending "
    "the rest; no escape handling when escape_character is None; (D5) both directions are logged (shared with C11-D5); "
    "(D6) the loop ends on EIO / empty read / dead child and re-raises other OSErrors; (D7) the per-chunk decode used to log typed bytes has a total error policy (it runs before the bytes are forwarded, on chunks cut at arbitrary positions). NOT decided: terminal "
    "semantics, byte exactness end to end.")
TRUSTED = ["tty.tcgetattr/tcsetattr/setraw", "bytes.find returns the leftmost index", "sa/ engine"]
ASSUMPTIONS = []
LEVEL_TEXT = ("Static analysis of named structural clauses of interact(): save/restore pairing in a finally, flush-before-raw "
              "ordering and two-sided reset of the stores, same-variable copy flow per direction, write-all slice algebra, "
              "leftmost-escape handling, loop termination conditions. Exhaustive over the CFG paths of 4 functions.")
LEVEL_NOTE = "Trusted: tty module, bytes.find; analyser. Not decided: what the terminal and the child actually exchange."
TECHNIQUE = "CFG pairing/ordering queries + def-use copy flow + slice algebra (static analysis)"


def run(R):
    repo = R.repo
    f = repo.func('pty_spawn:spawn.interact')
    cp = repo.func('pty_spawn:spawn.__interact_copy')
    wr = repo.func('pty_spawn:spawn.__interact_writen')
    with R.clause('D1', 'PAIR', floor=4, desc='tty mode saved before setraw and restored in a finally covering the copy loop') as c:
        g = f.cfg
        sv = [n for n in g.nodes if n.kind == 'stmt' and isinstance(n.ast, ast.Assign) and isinstance(n.ast.value, ast.Call)
              and dotted(n.ast.value.func) == 'tty.tcgetattr']
        raw = cfg_nodes_with_call(f, lambda k: dotted(k.func) == 'tty.setraw')
        rs = [k for k in calls_in(f.node) if dotted(k.func) == 'tty.tcsetattr']
        cpk = [k for k in calls_in(f.node) if callee_last(k).endswith('__interact_copy')]
        c.need(len(sv) == 1 and len(raw) == 1 and len(cpk) == 1, 'interact: tcgetattr / setraw / __interact_copy not found')
        tg0 = sv[0].ast.targets[0]
        c.need(len(sv[0].ast.targets) == 1 and isinstance(tg0, (ast.Name, ast.Attribute)), 'interact: the saved terminal mode is not kept in a local or a field')
        mv = norm(tg0)          # where the saved mode is kept
        c.check(g.dominated_by(raw[0][0], {sv[0]})[0] and fd_of(sv[0].ast.value.args[0], f) == fd_of(raw[0][1].args[0], f) == 'self.STDIN_FILENO',
                f, raw[0][1], 'the mode of STDIN is saved, by this call, before raw mode is entered (on every path)', tag='save-before-raw')
        infin = False
        for k in rs:
            for p in parent_chain(k):
                if isinstance(p, ast.Try) and any(k is d for s in p.finalbody for d in ast.walk(s)) and \
                        any(cpk[0] is d for s in p.body for d in ast.walk(s)):
                    infin = True
        c.check(bool(rs) and infin, f, rs[0] if rs else cpk[0], 'the terminal mode is restored in a finally clause covering the copy loop (escape, child exit and exceptions all restore it)',
                witness='tcsetattr calls: %d, inside covering finally: %s' % (len(rs), infin), kind='ast', tag='restore-finally')
        ok = len(rs) == 1 and len(rs[0].args) == 3 and fd_of(rs[0].args[0], f) == 'self.STDIN_FILENO' and \
            (norm(rs[0].args[2]) == mv or ctext(rs[0].args[2], f, stale_ok=True) == mv)
        c.check(ok, f, rs[0] if rs else None, 'what is restored is the saved mode, on STDIN', witness=norm(rs[0]) if rs else '', kind='ast', tag='restore-saved')
        rnodes = set(n for n, k in cfg_nodes_with_call(f, lambda k: dotted(k.func) == 'tty.tcsetattr'))
        mods = [n for n in g.nodes if n.kind == 'stmt' and isinstance(n.ast, (ast.Assign, ast.AugAssign, ast.Delete)) and n is not sv[0]
                and any(norm(t_) == mv for t_ in (assigned_targets(n.ast) if not isinstance(n.ast, ast.Delete) else n.ast.targets))
                and any(g.path(n, r_, skip_labels=()) is not None for r_ in rnodes)]
        c.check(not mods, f, mods[0].ast if mods else None, 'the saved mode is not overwritten before it is restored', kind='ast', tag='saved-stable')
        # the mode is saved before the protected region (a failing tcgetattr inside it would make the finally clause "restore" a mode that was
        # never taken -- a NameError masking the real error); raw mode itself may be entered before or inside the region
        trs = [p for p in parent_chain(cpk[0]) if isinstance(p, ast.Try)]
        c.check(bool(trs) and not any(sv[0].ast is d for d in ast.walk(trs[0])), f, sv[0].ast, 'the mode is saved before the protected region', kind='ast', tag='raw-before-try')
    with R.clause('D2', 'ORDER', floor=4, desc='pending output is shown first (untrimmed), then both stores are emptied, then raw mode') as c:
        g = f.cfg
        ws = cfg_nodes_with_call(f, lambda k: callee_last(k) == 'write_to_stdout')
        c.need(len(ws) == 1, 'interact: write_to_stdout not found')
        n, k = ws[0]
        a = ctext(k.args[0], f) if k.args else ''
        c.check(a == 'self._before.getvalue()', f, k, 'what is flushed to the user is ALL pending text (the untrimmed store)', witness=a, kind='ast', tag='flush-untrimmed')
        fl = cfg_nodes_with_call(f, lambda kk: norm(kk.func) == 'self.stdout.flush')
        raw = cfg_nodes_with_call(f, lambda kk: dotted(kk.func) == 'tty.setraw')
        c.check(bool(fl) and bool(raw) and g.dominated_by(raw[0][0], {n})[0] and g.dominated_by(raw[0][0], {fl[0][0]})[0] and g.dominated_by(fl[0][0], {n})[0],
                f, k, 'order: write pending, flush stdout, then raw mode', tag='flush-order')
        for st in ('_buffer', '_before'):
            rb = [m for m in g.nodes if m.kind == 'stmt' and stmt_assigns_attr(m.ast, st) is not None and stores.is_fresh_store(m.ast.value)]
            ok = len(rb) == 1 and g.dominated_by(rb[0], {n})[0]
            c.check(ok, f, rb[0].ast if rb else k, '%s is emptied after its content was shown' % st, tag='reset-' + st)
    with R.clause('D3', 'FLOW', floor=8, desc='each direction copies exactly what it read, to the right descriptor; write-all loop') as c:
        check_copy(c, cp, wr)
    with R.clause('D4', 'ESCAPE', floor=6, desc='leftmost escape; prefix delivered; rest not; then return') as c:
        check_escape(c, f, cp)
    with R.clause('D7', 'TOTAL', floor=1, desc='logging the keyboard input cannot fail on a chunk that ends inside a multi-byte character') as c:
        check_log_total(c, repo)
    with R.clause('D6', 'TERM', floor=4, desc='the copy loop ends on EIO / empty read / dead child, other errors propagate') as c:
        g = cp.cfg
        loops = [n for n in iter_nodes(cp.node) if isinstance(n, ast.While)]
        c.need(len(loops) == 1, '__interact_copy: loop not found')
        firsts = [n for n, k in cfg_nodes_with_call(cp, lambda k: callee_last(k) in ('select_ignore_interrupts', 'poll_ignore_interrupts', '_spawn__interact_wait_readable', '__interact_wait_readable'))]
        c.need(firsts, '__interact_copy: the readiness wait was not found')
        okl = all(('self.isalive()', True) in loop_entry_conditions(g, n) for n in firsts)
        c.check(okl, cp, loops[0], 'the loop runs while the child is alive (every iteration starts with a liveness check)', kind='path', tag='while-alive')
        hs = [h for h in iter_nodes(cp.node) if isinstance(h, ast.ExceptHandler)]
        c.need(len(hs) == 1, 'expected one handler')
        h = hs[0]
        hn = h.name or 'err'
        crd = [n for n, k in cfg_nodes_with_call(cp, lambda k: callee_last(k).endswith('__interact_read') and fd_of(k.args[0], cp) == 'self.child_fd')]
        c.need(len(crd) == 1 and isinstance(crd[0].ast, ast.Assign) and isinstance(crd[0].ast.targets[0], ast.Name), 'child read not found')
        cv = crd[0].ast.targets[0].id
        io_ = set(firsts) | set(n for n, k in cfg_nodes_with_call(cp, lambda k: dotted(k.func) == 'os.write' or callee_last(k) in ('_log', '_log_control') or
                                                                   callee_last(k).endswith('__interact_writen') or callee_last(k).endswith('__interact_read')))
        # the errno test of the handler, whichever way round it is written
        eio = []
        for t in g.nodes:
            if t.kind == 'test' and t.ast is not None and any(t.ast is d or any(t.ast is y for y in ast.walk(d)) for d in ast.walk(h)):
                rel = relation(t.ast)
                if rel and rel[0] == 'eq' and 'errno.EIO' in (norm(rel[1]), norm(rel[2])) and \
                        {norm(rel[1]), norm(rel[2])} & {'%s.args[0]' % hn, '%s.errno' % hn}:
                    eio.append((t, rel[3]))
        ok = len(eio) == 1
        p_ = None
        if ok:
            t, lab = eio[0]
            # on the EIO outcome nothing more is read, written or waited for: the copy loop is left
            p_ = g.path(t, io_, avoid_edges={(t, other(lab))}, skip_labels=('exc',), include_start=False, assume=[('__eio__', True, set())])
            ok = p_ is None
        c.check(ok, cp, h, 'EIO from the child side ends interact (child closed the pty)', witness=('goes on: ' + g.describe_path(p_)) if p_ else None, kind='path', tag='eio-break')
        okr = False
        if len(eio) == 1:
            t, lab = eio[0]
            nxt = [s_ for s_, l_ in t.succ if l_ == other(lab)]
            okr = len(nxt) == 1 and nxt[0].kind == 'stmt' and isinstance(nxt[0].ast, ast.Raise) and nxt[0].ast.exc is None
        c.check(okr, cp, h, 'other OSErrors propagate', kind='ast', tag='other-raise')
        # an empty read: nothing more is read / written / waited for
        p_ = g.path(crd[0], io_, avoid={crd[0]}, skip_labels=('exc',), include_start=False, assume=emptiness_facts(cv, True))
        c.check(p_ is None, cp, crd[0].ast, 'an empty read from the child ends interact', witness=('goes on: ' + g.describe_path(p_)) if p_ else None, kind='path', tag='empty-break')
        # a non-empty read never ends it, whatever a filter makes of the data afterwards
        hdr_ = g.node_of_stmt(loops[0])
        kbd = set(n for n, k in cfg_nodes_with_call(cp, lambda k: callee_last(k).endswith('__interact_read') and fd_of(k.args[0], cp) != 'self.child_fd'))
        p_ = g.path(crd[0], {g.exit}, avoid=set(firsts) | kbd | {crd[0], hdr_}, skip_labels=('exc',), include_start=False, assume=emptiness_facts(cv, False))
        c.check(p_ is None, cp, crd[0].ast, 'the empty-read (end of stream) test is applied to the raw read, before any filter: a filter that returns b"" '
                '(e.g. one hiding a password) must not end interact()', witness=('leaves the loop: ' + g.describe_path(p_)) if p_ else None, kind='path',
                tag='eof-on-raw-read')



def check_copy(c, cp, wr):
    g = cp.cfg
    reads = cfg_nodes_with_call(cp, lambda k: callee_last(k).endswith('__interact_read'))
    c.need(len(reads) == 2 and all(isinstance(n.ast, ast.Assign) for n, k in reads), '__interact_copy: two reads expected')
    for n, k in reads:
        srcfd = fd_of(k.args[0], cp)
        v = n.ast.targets[0].id
        if srcfd == 'self.child_fd':
            guard = [t for t in g.nodes if t.kind == 'test' and compare_parts(t.ast) and isinstance(compare_parts(t.ast)[1], ast.In)
                     and fd_of(compare_parts(t.ast)[0], cp) == 'self.child_fd' and isinstance(compare_parts(t.ast)[2], ast.Name)]
            c.check(len(guard) == 1 and n in guard_region(g, guard[0], 'true'), cp, k, 'the child is read only when it is readable', tag='child-ready')
            outs = cfg_nodes_with_call(cp, lambda kk: dotted(kk.func) == 'os.write')
            c.need(len(outs) == 1, 'os.write to stdout not found')
            on, ok_ = outs[0]
            c.check(fd_of(ok_.args[0], cp) == 'self.STDOUT_FILENO' and is_name(ok_.args[1], v), cp, ok_,
                    'what was read from the child is what is written to the user\'s stdout', witness=norm(ok_), kind='flow', tag='child-to-stdout')
            check_only_filter(c, cp, g, n, on, v, 'output_filter', 'child-filter')
            # every non-empty read reaches the write: no feasible way from the read, with a non-empty result, to the next read or out
            # of the function that does not pass the write (flag variables and the shape of the tests do not matter)
            p = g.path(n, {nn for nn, _ in reads if nn is not n} | {g.exit}, avoid={on, n}, skip_labels=('exc',), include_start=False,
                       assume=emptiness_facts(v, False))
            c.check(p is None, cp, ok_, 'every non-empty chunk from the child reaches stdout before the next read', witness=g.describe_path(p) if p else None, tag='child-delivered')
        elif 'STDIN' in srcfd:
            guard = [t for t in g.nodes if t.kind == 'test' and compare_parts(t.ast) and isinstance(compare_parts(t.ast)[1], ast.In)
                     and fd_of(compare_parts(t.ast)[0], cp) == 'self.STDIN_FILENO' and isinstance(compare_parts(t.ast)[2], ast.Name)]
            c.check(len(guard) == 1 and n in guard_region(g, guard[0], 'true'), cp, k, 'the keyboard is read only when it is readable', tag='stdin-ready')
            ws = cfg_nodes_with_call(cp, lambda kk: callee_last(kk).endswith('__interact_writen'))
            c.need(len(ws) >= 1, 'no write towards the child found')
            # `head, sep, tail = v.partition(x)`: head is a prefix of what was read (which prefix is D4's question, and D4 does not
            # know this form: it gives up rather than guess)
            heads = set()
            for m_ in g.nodes:
                if m_.kind == 'stmt' and isinstance(m_.ast, ast.Assign) and len(m_.ast.targets) == 1 and isinstance(m_.ast.targets[0], (ast.Tuple, ast.List)) \
                        and len(m_.ast.targets[0].elts) == 3 and isinstance(m_.ast.targets[0].elts[0], ast.Name) and isinstance(m_.ast.value, ast.Call) \
                        and callee_last(m_.ast.value) == 'partition' and isinstance(m_.ast.value.func, ast.Attribute) and is_name(m_.ast.value.func.value, v):
                    hn = m_.ast.targets[0].elts[0].id
                    if sum(1 for x_ in g.nodes if x_.kind == 'stmt' and x_.ast is not None and hn in assigned_names(x_.ast)) == 1:
                        heads.add(hn)
            for wn, wk in ws:
                a1 = wk.args[1]
                as_read = is_name(a1, v) or (isinstance(a1, ast.Name) and a1.id in heads) or (isinstance(a1, ast.Subscript) and is_name(a1.value, v) and slice_bounds(a1) is not None
                                             and slice_bounds(a1)[0] is None and slice_bounds(a1)[2] is None)     # v or the prefix v[:i] (escape branch, checked by D4)
                c.check(fd_of(wk.args[0], cp) == 'self.child_fd' and as_read, cp, wk, 'keyboard input goes to the child\'s descriptor, as read',
                        witness=norm(wk), kind='flow', tag='stdin-to-child:%d' % ws.index((wn, wk)))
            check_only_filter(c, cp, g, n, None, v, 'input_filter', 'stdin-filter')
            okp, p = g.must_pass(n, {nn for nn, _ in reads if nn is not n} | {g.exit}, set(wn for wn, _ in ws), skip_labels=('exc',),
                                 through_edges=empty_edges(g, v))
            c.check(okp, cp, k, 'every non-empty keyboard chunk reaches a write towards the child', witness=g.describe_path(p) if p else None, tag='stdin-delivered')
    # write-all loop
    gw = wr.cfg
    loops = [n for n in iter_nodes(wr.node) if isinstance(n, ast.While)]
    if len(loops) != 1:
        c.bad(wr, wr.node, 'the write towards the child is not a write-all loop: a short os.write() (full pty buffer) silently drops the rest of the keystrokes',
              kind='ast', tag='writen-until-empty')
        return
    dv = wr.params[2]
    fdv = wr.params[1]
    wk = [k for k in calls_in(loops[0]) if dotted(k.func) == 'os.write']
    ok = len(wk) == 1 and is_name(wk[0].args[0], fdv) and is_name(wk[0].args[1], dv) and isinstance(wk[0]._parent, ast.Assign)
    c.check(ok, wr, wk[0] if wk else loops[0], 'n = os.write(fd, data)', kind='ast', tag='writen-write')
    if ok:
        nv = wk[0]._parent.targets[0].id
        adv = [s for s in loops[0].body if isinstance(s, ast.Assign) and dv in assigned_names(s)]
        okc = len(adv) == 1 and slice_bounds(adv[0].value) is not None and is_name(adv[0].value.value, dv) and \
            is_name(slice_bounds(adv[0].value)[0], nv) and slice_bounds(adv[0].value)[1] is None
        c.check(okc, wr, adv[0] if adv else loops[0], 'exactly the n written bytes are dropped: data = data[n:]', witness=norm(adv[0]) if adv else '', kind='alg', tag='writen-advance')
    # every write happens with data left and a live child; the loop is left only when the data is used up or the child died
    wn = gw.node_for(wk[0]) if wk else None
    cs = loop_entry_conditions(gw, wn) if wn is not None else set()
    okw = wn is not None and known_nonempty(cs, dv) and ('self.isalive()', True) in cs
    hdr = gw.node_of_stmt(loops[0])
    for t_ in gw.nodes:
        if t_.kind == 'test' and t_.ast is not None and any(p is loops[0] for p in parent_chain(t_.stmt) if t_.stmt is not None):
            for s_, l_ in t_.succ:
                if s_.kind == 'stmt' and isinstance(s_.ast, (ast.Break, ast.Return)) and l_ in ('true', 'false'):
                    ex = expand_condition(t_.ast, l_ == 'true')
                    okw = okw and (ex == {('self.isalive()', False)} or known_nonempty(set((a, not v) for a, v in ex), dv))
    c.check(okw, wr, loops[0],
            'the loop continues until everything is written (or the child died)', witness='write reached under %s' % sorted(cs), kind='path', tag='writen-until-empty')


def check_only_filter(c, cp, g, readnode, sink, v, filt, tag):
    fa = [m for m in g.nodes if m.kind == 'stmt' and isinstance(m.ast, ast.Assign) and v in assigned_names(m.ast) and isinstance(m.ast.value, ast.Call)
          and is_name(m.ast.value.func, filt) and len(m.ast.value.args) == 1 and is_name(m.ast.value.args[0], v)
          and g.path(readnode, m, skip_labels=('exc',)) is not None]
    c.check(len(fa) == 1, cp, readnode.ast, 'the %s given by the caller is applied to what was read (once)' % filt, witness='%d applications' % len(fa), tag=tag + '-applied')
    mods = [m for m in g.nodes if m.kind == 'stmt' and v in assigned_names(m.ast) and m is not readnode]
    # allowed: data = <filt>(data) under `if <filt>:`; data = data[:i] in the escape branch (checked by D4)
    for m in mods:
        val = m.ast.value
        if isinstance(val, ast.Call) and is_name(val.func, filt) and len(val.args) == 1 and is_name(val.args[0], v):
            guards = [t for t in g.nodes if t.kind == 'test' and norm(t.ast) == filt and m in guard_region(g, t, 'true')]
            c.check(bool(guards), cp, m.ast, 'the %s is applied only when one was given' % filt, tag=tag)
    other = [m for m in mods if not (isinstance(m.ast.value, ast.Call) and is_name(m.ast.value.func, filt))
             and not (isinstance(m.ast.value, ast.Call) and callee_last(m.ast.value).endswith('__interact_read'))
             and not (isinstance(m.ast.value, ast.Subscript) and is_name(m.ast.value.value, v))]
    # restrict to modifications on the path of this read (between the read and the other read)
    other = [m for m in other if g.path(readnode, m, skip_labels=('exc',)) is not None and
             all(is_name(x, v) or True for x in [0])]
    same_dir = [m for m in other if not any(callee_last(k).endswith('__interact_read') for k in node_calls(m))]
    c.check(not same_dir or all(g.path(readnode, m, avoid=set(n for n in g.nodes if n is not readnode and n.kind == 'stmt' and isinstance(n.ast, ast.Assign)
                                                                 and isinstance(n.ast.value, ast.Call) and callee_last(n.ast.value).endswith('__interact_read')),
                                           skip_labels=('exc',)) is None for m in same_dir),
            cp, same_dir[0].ast if same_dir else readnode.ast, 'the copied value is not otherwise transformed', tag=tag + '-only')


def check_escape(c, f, cp):
    g = cp.cfg
    ep = cp.params[1]
    finds = [n for n in g.nodes if n.kind == 'stmt' and isinstance(n.ast, ast.Assign) and isinstance(n.ast.value, ast.Call)
             and callee_last(n.ast.value) in ('find', 'rfind', 'index', 'rindex') and n.ast.value.args and is_name(n.ast.value.args[0], ep)]
    c.need(len(finds) == 1, '__interact_copy: escape search not found')
    fn = finds[0]
    meth = callee_last(fn.ast.value)
    iv = fn.ast.targets[0].id
    dv = norm(fn.ast.value.func.value)
    c.check(meth == 'find', cp, fn.ast, 'the escape position is the FIRST occurrence in the read (bytes.find): what follows the first '
            'escape character, including a second one, must not reach the child', witness='uses .%s()' % meth, kind='ast', tag='leftmost')
    c.check(('%s is None' % ep, False) in conditions(g, fn), cp, fn.ast, 'no escape handling when escape_character is None', tag='none-guard')
    inits = [n for n in g.nodes if n.kind == 'stmt' and iv in assigned_names(n.ast) and n is not fn]
    uses = [n for n in g.nodes if n.ast is not None and n is not fn and n not in inits and
            any(isinstance(x, ast.Name) and x.id == iv and isinstance(x.ctx, ast.Load) for r_ in node_roots(n) for x in ast.walk(r_))]
    okd = all(is_const(n.ast.value, -1) for n in inits) and all(g.dominated_by(u, {fn} | set(inits))[0] for u in uses)
    c.check(okd, cp, inits[0].ast if inits else fn.ast,
            'wherever the position is used it comes from the search or is the default -1 (not found)', kind='ast', tag='default')
    # stated on the feasible paths after the search, under "found" (i != -1) and "not found" (i == -1): the shape of the tests,
    # flag variables (`escaped = i != -1`) and merged tails do not matter
    FOUND = [('-1 == %s' % iv, False, {iv})]
    NOTFOUND = [('-1 == %s' % iv, True, {iv})]

    def is_prefix(e):
        sb_ = slice_bounds(e) if isinstance(e, ast.Subscript) else None
        return sb_ is not None and norm(e.value) == dv and sb_[0] is None and sb_[2] is None and is_name(sb_[1], iv)
    live = g.live_nodes()
    reads_ = set(n for n, k in cfg_nodes_with_call(cp, lambda k: callee_last(k) in ('select_ignore_interrupts', 'poll_ignore_interrupts') or callee_last(k).endswith('__interact_read')
                                                     or callee_last(k).endswith('__interact_wait_readable')))
    # everything below concerns what happens between the search and the next wait for input
    after = set(n for n in g.nodes if n in live and g.path(fn, {n}, avoid=reads_ | {fn}, skip_labels=('exc',), include_start=False) is not None)
    wsk = [(n, k) for n, k in cfg_nodes_with_call(cp, lambda k: callee_last(k).endswith('__interact_writen')) if n in after]
    c.need(wsk, '__interact_copy: no write to the child after the escape search')
    ws = [n for n, k in wsk]
    cuts = set(n for n in after if n.kind == 'stmt' and isinstance(n.ast, ast.Assign) and dv in assigned_names(n.ast) and is_prefix(n.ast.value))
    other_defs = set(n for n in after if n.kind == 'stmt' and dv in assigned_names(n.ast) and n not in cuts)
    loops_ = [n for n in iter_nodes(cp.node) if isinstance(n, ast.While)]
    hdr_ = g.node_of_stmt(loops_[0]) if loops_ else None
    stop = reads_ | {fn} | ({hdr_} if hdr_ is not None else set())
    after = set(n for n in after if g.path(fn, {n}, avoid=stop, skip_labels=('exc',), include_start=False) is not None)
    okp = not other_defs
    wit = ['%s is reassigned: %s' % (dv, norm(n.ast)) for n in other_defs]
    for n, k in wsk:
        a_ = k.args[1] if len(k.args) == 2 else None
        if a_ is not None and is_prefix(a_):
            continue                                  # writes data[:i] directly
        if a_ is None or norm(a_) != dv:
            okp = False
            wit.append('writes %s' % (norm(a_) if a_ is not None else '?'))
            continue
        p_ = g.path(fn, {n}, avoid=cuts | stop, skip_labels=('exc',), include_start=False, assume=FOUND)
        if p_ is not None:
            okp = False
            wit.append('with the escape character found the whole read reaches the child: ' + g.describe_path(p_))
    c.check(okp, cp, ws[0].ast, 'what reaches the child from this read is exactly the prefix data[:i] before the escape character (the escape character and what follows are dropped)',
            witness='; '.join(wit) or None, kind='path', tag='prefix')
    leaves = set(n for n in g.nodes if n in live and n.kind == 'stmt' and isinstance(n.ast, (ast.Break, ast.Return))) | {g.exit}
    # found: the prefix is written on every way on (to the next wait or out of the loop), and after the write nothing more is read
    nothing = empty_edges(g, dv)          # a way round the write that is taken only for an empty prefix / an empty read delivers nothing
    p1 = g.path(fn, leaves | reads_, avoid=set(ws) | {fn}, skip_labels=('exc',), include_start=False, assume=FOUND, avoid_edges=nothing)
    p2 = None
    for w in ws:
        p2 = p2 or g.path(fn, reads_ | (set(ws) - {w}), avoid={fn}, skip_labels=('exc',), include_start=False, assume=FOUND, via={w})
    c.check(p1 is None and p2 is None, cp, ws[0].ast, 'the prefix is delivered to the child, then interact returns',
            witness=('path: ' + g.describe_path(p1 or p2)) if (p1 or p2) else None, kind='path', tag='deliver-then-leave')
    # not found: everything is written (never the prefix) and the loop goes on
    p3 = g.path(fn, leaves | reads_, avoid=set(ws) | {fn}, skip_labels=('exc',), include_start=False, assume=NOTFOUND, avoid_edges=nothing)
    p4 = g.path(fn, leaves & after, avoid=stop, skip_labels=('exc',), include_start=False, assume=NOTFOUND)
    pc = g.path(fn, cuts, avoid=stop, skip_labels=('exc',), include_start=False, assume=NOTFOUND) if cuts else None
    c.check(p3 is None and p4 is None and pc is None, cp, ws[0].ast, 'without an escape character in the read, the whole read is written and the copy loop goes on',
            witness=('path: ' + g.describe_path(p3 or p4 or pc)) if (p3 or p4 or pc) else None, kind='path', tag='no-escape-continues')
    # after the break nothing more is written: the only successor is loop exit (structural by Break)
    # interact(): escape_character is converted to bytes once, and passed on
    ks = [k for k in calls_in(f.node) if callee_last(k).endswith('__interact_copy')]
    # what is handed on as the escape byte: the parameter itself (re-bound to its latin-1 form), or a local every binding of which
    # is the parameter or the parameter's latin-1 form
    EP = 'escape_character'
    first = ks[0].args[0] if len(ks) == 1 and ks[0].args else None
    carrier = first.id if isinstance(first, ast.Name) else None
    binds = [n for n in iter_nodes(f.node) if isinstance(n, ast.Assign) and carrier in assigned_names(n)] if carrier else []
    is_latin = lambda e: norm(e) == "%s.encode('latin-1')" % EP
    okc = carrier is not None and (carrier == EP or bool(binds)) and all(is_latin(n.value) or norm(n.value) == EP for n in binds)
    ok = len(ks) == 1 and okc and [norm(a) for a in ks[0].args[1:]] == ['input_filter', 'output_filter']
    c.check(ok, f, ks[0] if ks else None, 'interact() passes escape character and both filters on, in order', witness=norm(ks[0]) if ks else '', kind='ast', tag='args')
    enc = [n for n in binds if is_latin(n.value)]
    c.check(len(enc) == 1, f, enc[0] if enc else None, 'the escape character is converted to one byte (latin-1) for the byte-level comparison', kind='ast', tag='latin1')
    if enc:
        gi = f.cfg
        en_ = gi.node_of_stmt(enc[0])
        c.check(('%s is None' % EP, False) in conditions(gi, en_), f, enc[0], 'the conversion is skipped for escape_character=None (no escape handling)', kind='path', tag='latin1-guard')


def check_log_total(c, repo):
    """the keyboard bytes are logged (through _log_control) BEFORE they are written to the child, chunk by chunk; a per-chunk
    bytes.decode with a strict error policy raises on a chunk that ends inside a character and the keystrokes are lost"""
    f = repo.func('pty_spawn:spawn.__interact_copy')
    helpers = set(callee_last(k) for k in calls_in(f.node) if isinstance(k.func, ast.Attribute) and is_name(k.func.value, 'self')
                  and callee_last(k) in ('_log_control', '_log'))
    n = 0
    for h in sorted(helpers):
        hf = repo.func('pty_spawn:spawn.' + h) if h == '_log_control' else None
        if hf is None:
            continue
        for k in calls_in(hf.node):
            if callee_last(k) == 'decode' and isinstance(k.func, ast.Attribute) and not (dotted(k.func.value) or '').endswith('_decoder'):
                n += 1
                pol = call_arg(k, 'errors', 1)
                ok = isinstance(pol, ast.Constant) and pol.value in ('replace', 'ignore', 'backslashreplace', 'surrogateescape')
                c.check(ok, hf, k, 'the per-chunk decode used for logging typed bytes has a total error policy (it is applied to chunks cut at arbitrary '
                        'byte positions, before the bytes are forwarded to the child)', witness=norm(k), kind='ast', tag='log-decode-total')
    c.need(n >= 1, '_log_control: decode call not found')


MUTANTS = [
    ('log-control-strict', 'pty_spawn', "            s = s.decode(self.encoding, 'replace')", "            s = s.decode(self.encoding, self.codec_errors)", 'D7'),
    ('restore-not-finally', 'pty_spawn', "        try:\n            self.__interact_copy(escape_character, input_filter, output_filter)\n        finally:\n            tty.tcsetattr(self.STDIN_FILENO, tty.TCSAFLUSH, mode)", "        self.__interact_copy(escape_character, input_filter, output_filter)\n        tty.tcsetattr(self.STDIN_FILENO, tty.TCSAFLUSH, mode)", 'D1'),
    ('save-after-raw', 'pty_spawn', "        mode = tty.tcgetattr(self.STDIN_FILENO)\n        tty.setraw(self.STDIN_FILENO)", "        tty.setraw(self.STDIN_FILENO)\n        mode = tty.tcgetattr(self.STDIN_FILENO)", 'D1'),
    ('flush-trimmed', 'pty_spawn', "        self.write_to_stdout(self._before.getvalue())", "        self.write_to_stdout(self.buffer)", 'D2'),
    ('raw-before-flush', 'pty_spawn', "        self.write_to_stdout(self._before.getvalue())\n        self.stdout.flush()\n        self._buffer = self.buffer_type()\n        self._before = self.buffer_type()\n        mode = tty.tcgetattr(self.STDIN_FILENO)\n        tty.setraw(self.STDIN_FILENO)",
     "        mode = tty.tcgetattr(self.STDIN_FILENO)\n        tty.setraw(self.STDIN_FILENO)\n        self.write_to_stdout(self._before.getvalue())\n        self.stdout.flush()\n        self._buffer = self.buffer_type()\n        self._before = self.buffer_type()", 'D2'),
    ('rfind', 'pty_spawn', "                    i = data.find(escape_character)", "                    i = data.rfind(escape_character)", 'D4'),
    ('prefix-inclusive', 'pty_spawn', "                    data = data[:i]\n", "                    data = data[:i + 1]\n", 'D4'),
    ('escape-no-prefix', 'pty_spawn', "                    data = data[:i]\n                    if data:\n                        self._log_control(data)\n                    self.__interact_writen(self.child_fd, data)\n                    break", "                    break", 'D4'),
    ('escape-no-break', 'pty_spawn', "                    self.__interact_writen(self.child_fd, data)\n                    break", "                    self.__interact_writen(self.child_fd, data)\n                    continue", 'D4'),
    ('writen-advance-wrong', 'pty_spawn', "            data = data[n:]", "            data = data[n + 1:]", 'D3'),
    ('writen-once', 'pty_spawn', "        while data != b'' and self.isalive():\n            n = os.write(fd, data)\n            data = data[n:]", "        if data != b'' and self.isalive():\n            n = os.write(fd, data)", 'D3'),
    ('stdout-wrong-fd', 'pty_spawn', "                os.write(self.STDOUT_FILENO, data)", "                os.write(self.STDERR_FILENO, data)", 'D3'),
    ('child-chunk-dropped', 'pty_spawn', "                if output_filter:\n                    data = output_filter(data)", "                if output_filter:\n                    data = output_filter(data)\n                if len(data) == 1000:\n                    continue", 'D3'),
    ('filter-before-eof-test', 'pty_spawn', "                if data == b'':\n                    # BSD-style EOF\n                    break\n                if output_filter:\n                    data = output_filter(data)", "                if output_filter:\n                    data = output_filter(data)\n                if data == b'':\n                    # BSD-style EOF\n                    break", 'D6'),
    ('no-output-filter', 'pty_spawn', "                if output_filter:\n                    data = output_filter(data)\n", "", 'D3'),
    ('writen-or', 'pty_spawn', "        while data != b'' and self.isalive():", "        while data != b'' or self.isalive():", 'D3'),
    ('eio-raises', 'pty_spawn', "                    if err.args[0] == errno.EIO:\n                        # Linux-style EOF\n                        break\n                    raise\n                if data == b'':", "                    raise\n                if data == b'':", 'D6'),
    ('stdin-strip', 'pty_spawn', "                if input_filter:\n                    data = input_filter(data)\n                i = -1", "                if input_filter:\n                    data = input_filter(data)\n                data = data.replace(b'\\r\\n', b'\\n')\n                i = -1", 'D3'),
]
PRESERVING = [
    ('escape-prefix-inline', 'pty_spawn', "                    data = data[:i]\n                    if data:\n                        self._log_control(data)\n                    self.__interact_writen(self.child_fd, data)\n                    break",
     "                    if data[:i]:\n                        self._log_control(data[:i])\n                    self.__interact_writen(self.child_fd, data[:i])\n                    break"),
]

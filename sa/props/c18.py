"""C18 ANSI emulator."""
import ast

from ..astx import (calls_in, dotted, norm, src, iter_nodes, assigned_targets, assigned_names,
                    const_value, is_const, parent_chain, aliases_of)
from ..lib import (call_arg, relation, truth, other, cmp_views, core, holds_region, conditions, found_test, found_tests, path_tests, entails_empty, paths_entail_empty, eval_conditions, relation_tests, atom_key, expand_condition, mode_mismatch_conditions, cfg_nodes_with_call, node_calls, returns, raises, raised_class, stmt_assigns_attr, callee_last,
                   is_name, node_roots, guard_region, compare_parts, find_test_nodes)
from ..lib import *      # noqa: F401,F403  (path-condition helpers)
from ..linear import ctext, lin, Lin, slice_bounds
from ..loader import AnalysisError
from .. import ansifsm
from ..effects import io_calls, resolve_call, self_attr_writes
from ..callgraph import reach

EXPLANATION = (
    "Static analysis of the terminal parser as an extracted automaton: (D1) the transition table is read from "
    "ANSI.__init__ (all add_transition / add_transition_list / add_transition_any / set_default_transition calls, "
    "later entries overriding earlier ones as the dict does); a default transition exists and every next state is a "
    "known state, so get_transition can never raise; every state is reachable from INIT; (D2) every action function is "
    "summarised as a sequence of stack operations on fsm.memory (push of the input symbol, pop, pop+concat+push, reset "
    "to [screen], read of memory[0]) and an abstract-stack fixpoint over ALL (state, symbol class) pairs -- unbounded "
    "input length, widening on the ;number loop -- shows: no pop can reach the screen object, every int(pop()) operand "
    "was pushed and extended on digit-only transitions, and every transition into INIT leaves exactly [screen] (no "
    "parser residue after a completed or aborted sequence); (D3) no action performs I/O -- violated today by DoLog, "
    "which appends to ./log (open known finding); (D4) chunk independence: write()/process() keep no per-call state "
    "(they write no attribute), feed the decoded text one character at a time, and bytes go through the persistent "
    "incremental decoder created once in the constructor, never with final=True; (D5) grid shape: the only stores "
    "into the grid are single-cell stores of ch[0] at clamped indices and the two scroll slice moves, which shift by "
    "exactly one row with equal lengths given scroll fields inside [1, rows] -- and every writer of the scroll fields "
    "clamps BOTH fields on BOTH sides; (D6) every writer of the cursor fields ends in cursor_constrain() on every "
    "path; (D7) FSM.get_transition implements exact > any > default and FSM.process runs the action before committing "
    "the next state. NOT decided: screen contents for concrete inputs.")
TRUSTED = ["dict lookup / list slice-assignment semantics", "copy.deepcopy copies rows", "sa/ engine (table extraction, abstract stack fixpoint)"]
ASSUMPTIONS = ["the symbol partition per state = its exact symbols (digits vs other) + 'any other character' is exact because actions use the symbol only by pushing it"]
LEVEL_TEXT = ("The parser is decided for inputs of ANY length on the extracted automaton: totality, reachability, abstract "
              "stack discipline with widening (no underflow, digit-only int() operands, empty residue at INIT); plus effect, "
              "chunk-independence, grid-shape (slice algebra + two-sided clamps) and cursor-constrain pairing clauses. "
              "One open known finding (DoLog writes ./log).")
LEVEL_NOTE = "Trusted: Python container semantics; analyser. Not decided: rendered screen contents."
TECHNIQUE = "automaton extraction from the source + abstract-stack fixpoint; effect / slice-algebra / pairing checks (static analysis)"


def action_func(repo, name):
    if name.startswith('self.'):
        return repo.func('ANSI:ANSI.' + name[5:])
    return repo.func('ANSI:' + name)


def run(R):
    repo = R.repo
    init = repo.func('ANSI:ANSI.__init__')
    t = ansifsm.extract_table(init)
    acts = sorted(set(a for a, n, l in list(t.exact.values()) + list(t.any.values()) + ([t.default] if t.default else []) if a))
    R.extra['table_calls'] = t.calls
    R.extra['exact_entries'] = len(t.exact)
    R.extra['any_entries'] = len(t.any)
    R.extra['state_names'] = sorted(t.states())
    R.extra['states'] = len(t.states())
    R.extra['transitions'] = len(t.exact) + len(t.any) + 1
    R.extra['actions'] = acts
    with R.clause('D1', 'FSM', floor=14, desc='transition table is total; every state known and reachable') as c:
        c.need(t.calls >= 40, 'only %d table-building calls found in ANSI.__init__' % t.calls)
        c.check(t.initial == 'INIT', init, None, 'the automaton starts in INIT', witness=str(t.initial), kind='fsm', tag='initial')
        c.check(t.default is not None and t.default[1] == t.initial, init, None,
                'a default transition exists and returns to INIT: no (state, symbol) pair is undefined, get_transition cannot raise',
                witness=str(t.default), kind='fsm', tag='default')
        sources = set(st for (sym, st) in t.exact) | set(t.any)
        for stt in sorted(t.states()):
            known = stt in sources or stt == t.initial
            c.check(known, init, None, 'state %s has outgoing transitions of its own (a typo in a next_state would strand the parser in '
                    'a state where everything falls to the default)' % stt, kind='fsm', tag='known:' + str(stt))
        # reachability
        reach_ = {t.initial}
        work = [t.initial]
        while work:
            s = work.pop()
            for sym in t.symbols(s) + [None]:
                tr = t.lookup(sym, s)
                if tr and tr[1] not in reach_:
                    reach_.add(tr[1])
                    work.append(tr[1])
        c.check(reach_ >= sources, init, None, 'every state with transitions is reachable from INIT', witness='unreachable: %s' % sorted(sources - reach_), kind='fsm', tag='reachable')
        c.check(getattr(t, 'memory_init', None) == '[self]', init, None, 'the parser stack starts as [screen]', witness=str(getattr(t, 'memory_init', None)), kind='fsm', tag='memory-init')
        # INIT: any other character is emitted
        c.check(t.any.get('INIT', (None,))[0] == 'DoEmit' and t.any['INIT'][1] == 'INIT', init, None, 'ordinary characters are emitted and stay in INIT', kind='fsm', tag='emit')
        c.check(t.exact.get(('\x1b', 'INIT'), (0, None))[1] == 'ESC', init, None, 'ESC starts a sequence', kind='fsm', tag='esc')
    with R.clause('D2', 'STACK', floor=20, desc='stack discipline over all (state, symbol class) pairs: no underflow, digit operands, empty residue at INIT') as c:
        summaries = {}
        for a in acts:
            f = action_func(repo, a)
            summaries[a] = ansifsm.summarise_action(f)
            for ln_, early_, full_ in ansifsm.early_exit_imbalance(f):
                if early_ != full_:
                    c.bad(f, f.node, 'the action %s leaves early under a condition (L%d) after changing the parameter stack by %+d where the full path changes it by %+d: '
                          'the next state is the same either way, so the stack is out of step with the parser (a later handler pops the wrong entry)' % (a, ln_, early_, full_),
                          kind='fsm', tag='early-exit:%s' % a)
                else:
                    raise AnalysisError('%s: a conditional exit between stack operations (L%d): not modelled' % (f.qual, ln_))
        stacks, findings = ansifsm.fixpoint(t, summaries)
        R.extra['abstract_stacks'] = dict((k, sorted(' '.join(s) for s in v)) for k, v in stacks.items())
        msgs = {'underflow': 'pops the parser stack below the screen object (IndexError / the screen itself is consumed)',
                'int-of-nondigits': 'applies int() to a stack entry that was not built from digit symbols only (ValueError)',
                'no-screen-at-0': 'reads memory[0] where the bottom of the stack is not the screen',
                'residue': 'returns to INIT leaving parameters on the stack (parser residue after a completed sequence)',
                'no-transition': 'has no transition at all (get_transition raises ExceptionFSM)'}
        for fd in findings:
            kind, stt, sym, act = fd[0], fd[1], fd[2], fd[3]
            f = action_func(repo, act) if act else init
            c.bad(f, None, 'in state %s on %s the action %s %s' % (stt, repr(sym) if sym is not None else 'any other character', act, msgs.get(kind, kind)),
                  witness='abstract stacks entering %s: %s%s' % (stt, sorted(' '.join(s) for s in stacks.get(stt, [])), (' ; leaves %s' % (fd[5],)) if len(fd) > 5 else ''),
                  kind='fsm', tag='%s:%s:%s:%s' % (kind, stt, 'digit' if sym and sym in ansifsm.DIGITS else sym, act))
        npairs = 0
        for stt in sorted(stacks):
            for sym in t.symbols(stt) + [None]:
                npairs += 1
        for stt in sorted(stacks):
            bad = [fd for fd in findings if fd[1] == stt]
            if not bad:
                c.ok(init, None, 'state %s: every symbol class handled with a sound stack (%d abstract stacks: %s)'
                     % (stt, len(stacks[stt]), sorted(' '.join(s) for s in stacks[stt])[:3]), kind='fsm', tag='state:' + stt)
        for a in acts:
            c.ok(action_func(repo, a), None, 'action summary: %s' % [(o[0], o[1]) for o in summaries[a]], kind='fsm', tag='summary:' + a)
        R.extra['state_symbol_pairs'] = npairs
        c.check(stacks.get('INIT') == {('screen',)}, init, None, 'at INIT the stack is exactly [screen] on every incoming transition',
                witness=str(sorted(stacks.get('INIT', []))), kind='fsm', tag='init-clean')
    with R.clause('D3', 'EFFECT', floor=20, desc='no parser action performs I/O') as c:
        for a in acts:
            f = action_func(repo, a)
            rs = reach(repo, [f], dynamic=False)
            hits = []
            for g_, ch in rs.items():
                if g_.module.name not in ('ANSI', 'screen', 'FSM'):
                    continue
                for k in io_calls(g_):
                    hits.append((g_, k, ch))
            if hits:
                g_, k, ch = hits[0]
                c.bad(f, k, 'the action %s performs I/O (%s): feeding the terminal can fail or have side effects outside the screen '
                      '(e.g. an unknown escape sequence in an unwritable directory raises)' % (a, norm(k)[:40]),
                      witness=' -> '.join(ch), kind='flow', tag='io')
            else:
                c.ok(f, None, 'no I/O reachable from %s (%d units)' % (a, len(rs)), kind='flow', tag='io')
    with R.clause('D4', 'STATELESS', floor=6, desc='write()/process() keep no per-call state; incremental decoder is persistent') as c:
        for name in ('write', 'process', 'process_list'):
            f = repo.func('ANSI:ANSI.' + name)
            w = self_attr_writes(f)
            c.check(not w, f, list(w.values())[0][0] if w else None, '%s() writes no attribute of the terminal (all state lives in the FSM and the screen)' % name,
                    witness=str(sorted(w)), kind='flow', tag='no-attr-write:' + name)
        f = repo.func('ANSI:ANSI.write')
        loops = [n for n in iter_nodes(f.node) if isinstance(n, ast.For)]
        ok = len(loops) == 1 and isinstance(loops[0].target, ast.Name) and is_name(loops[0].iter, f.params[1]) and \
            any(callee_last(k) == 'process' and k.args and is_name(k.args[0], loops[0].target.id) for k in calls_in(loops[0]))
        c.check(ok, f, loops[0] if loops else None, 'the text is fed to the parser one character at a time, in order', kind='ast', tag='char-by-char')
        dec = repo.func('screen:screen._decode')
        if decoder_state_guarded(dec) and len([k for k in calls_in(dec.node) if callee_last(k) == 'decode']) > 1:
            raise AnalysisError('screen._decode: a second decode path guarded by a test of the decoder\'s own state (getstate()): whether it equals incremental decoding cannot be decided')
        ks = [k for k in calls_in(dec.node) if callee_last(k) == 'decode']
        fin = call_arg(ks[0], 'final', 1) if len(ks) == 1 else None
        ok = len(ks) == 1 and norm(ks[0].func.value) == 'self.decoder' and (fin is None or is_const(fin, False))
        gd_ = dec.cfg
        ok = ok and ('self.decoder is None', False) in conditions(gd_, gd_.node_for(ks[0]))
        c.check(ok, dec, ks[0] if ks else None, 'bytes are decoded by the persistent incremental decoder without final=True (a character cut by a chunk boundary is completed by the next chunk)',
                witness=norm(ks[0]) if ks else '', kind='ast', tag='decoder')
        sites = []
        for fn in repo.package_funcs():
            if fn.module.name in ('screen', 'ANSI'):
                for n in iter_nodes(fn.node):
                    if isinstance(n, ast.Assign) and stmt_assigns_attr(n, 'decoder') is not None:
                        sites.append((fn, n))
        ok = all(fn.qual == 'screen:screen.__init__' for fn, n in sites) and any('getincrementaldecoder' in norm(n.value) for fn, n in sites)
        c.check(ok, sites[0][0] if sites else dec, sites[0][1] if sites else None, 'the decoder is created in the constructor only', witness=str([fn.qual for fn, n in sites]), kind='ast', tag='decoder-own')
        for name in ('write', 'process', 'write_ch'):
            f = repo.func('ANSI:ANSI.' + name)
            g = f.cfg
            t_ = [x for x in g.nodes if x.kind == 'test' and norm(x.ast).startswith('isinstance(') and 'bytes' in norm(x.ast)]
            d = [n for n, k in cfg_nodes_with_call(f, lambda k: callee_last(k) == '_decode')]
            ok = len(t_) == 1 and len(d) >= 1 and all(x in guard_region(g, t_[0], 'true') for x in d)
            if ok:
                # EVERY path through the bytes branch goes through the persistent decoder
                region = guard_region(g, t_[0], 'true')
                outside = [x for x in g.nodes if x not in region and any(p in region for p, l in x.pred if l != 'exc')]
                starts = [s2 for s2, l2 in t_[0].succ if l2 == 'true']
                ok = all(g.path(s2, set(outside), avoid=set(d), skip_labels=('exc',)) is None for s2 in starts)
            c.check(ok, f, t_[0].ast if t_ else None, '%s(): bytes (and only bytes) go through the persistent decoder, on every path' % name, kind='path', tag='bytes-decoded:' + name)
        # no per-chunk decoding anywhere in the terminal classes
        for fn in repo.package_funcs():
            if fn.module.name not in ('ANSI', 'screen') or fn.cls is None:
                continue
            for k in calls_in(fn.node):
                if callee_last(k) == 'decode' and isinstance(k.func, ast.Attribute) and norm(k.func.value) != 'self.decoder':
                    c.bad(fn, k, 'bytes are decoded per chunk with %s instead of the persistent incremental decoder: a multi-byte character cut by a '
                          'chunk boundary is reordered / corrupted, and the result depends on where the input was cut' % norm(k)[:40], kind='ast', tag='chunk-decode:' + fn.qual)
    with R.clause('D5', 'SHAPE', floor=10, desc='grid stays rows x cols: single-cell stores at clamped indices, length-preserving scroll moves, two-sided clamps') as c:
        check_shape(c, repo)
    with R.clause('D6', 'PAIR', floor=6, desc='every writer of the cursor fields ends in cursor_constrain()') as c:
        check_cursor_pair(c, repo)
    with R.clause('D8', 'RESOLVE', floor=40, desc='every call an action / terminal method makes on the screen resolves to an existing method with a fitting arity (no AttributeError / TypeError at run time)') as c:
        check_resolve(c, repo, acts)
        check_total_lookups(c, repo, acts)
    with R.clause('D7', 'PRECEDENCE', floor=4, desc='FSM: exact > any > default; action runs before the state is committed') as c:
        check_fsm_class(c, repo)


def check_shape(c, repo):
    scr = repo.cls('screen')
    n_store = 0
    for f in repo.package_funcs():
        if f.module.name not in ('screen', 'ANSI') or f.cls is None:
            continue
        if f.qual in ('screen:screen.scroll_up', 'screen:screen.scroll_down'):
            n_store += 1
            check_scroll(c, f, aspects=('height',))      # aliasing / content of the move: C19-D8
            continue
        for st in iter_nodes(f.node):
            if isinstance(st, (ast.Assign, ast.AugAssign)):
                for tg in assigned_targets(st):
                    root = tg
                    depth = 0
                    while isinstance(root, ast.Subscript):
                        root = root.value
                        depth += 1
                    if (isinstance(root, ast.Attribute) and root.attr == 'w' and is_name(root.value, 'self')) or \
                            (isinstance(root, ast.Name) and depth >= 1 and ctext(root, f, stale_ok=True) == 'self.w'):
                        n_store += 1
                        if depth == 0:
                            c.check(f.name == '__init__', f, st, 'the grid object is created only by the constructor', kind='ast', tag='w-rebind:' + f.qual)
                        elif depth == 2:
                            check_cell_store(c, f, st, tg)
                        else:
                            c.bad(f, st, 'a whole row is replaced (%s): the row may end up with a different width' % norm(tg), kind='ast', tag='row-store:' + f.qual)
            elif isinstance(st, ast.Call) and isinstance(st.func, ast.Attribute) and st.func.attr in ('append', 'pop', 'insert', 'remove', 'extend', 'clear'):
                root = st.func.value
                while isinstance(root, ast.Subscript):
                    root = root.value
                if (isinstance(root, ast.Attribute) and root.attr == 'w' and is_name(root.value, 'self')) or \
                        (isinstance(root, ast.Name) and ctext(root, f, stale_ok=True) == 'self.w'):
                    c.bad(f, st, 'the grid is resized with %s()' % st.func.attr, kind='ast', tag='w-mutator:' + f.qual)
    c.need(n_store >= 4, 'expected >= 4 stores into the grid, found %d' % n_store)
    # constructor shape
    f = repo.func('screen:screen.__init__')
    ws = [n for n in iter_nodes(f.node) if isinstance(n, ast.Assign) and stmt_assigns_attr(n, 'w') is not None]
    ok = len(ws) == 1 and isinstance(ws[0].value, ast.ListComp) and norm(ws[0].value.elt) == '[SPACE] * self.cols' and \
        norm(ws[0].value.generators[0].iter) == 'range(self.rows)'
    c.check(ok, f, ws[0] if ws else None, 'the grid is created as rows lists of cols single characters (one fresh list per row)', witness=norm(ws[0].value) if ws else '', kind='ast', tag='init-shape')
    # scroll fields: every writer clamps both fields on both sides
    for fld in ('scroll_row_start', 'scroll_row_end'):
        for fn in repo.package_funcs():
            if fn.module.name != 'screen':
                continue
            g = fn.cfg
            asg = [n for n in g.nodes if n.kind == 'stmt' and stmt_assigns_attr(n.ast, fld) is not None]
            for n in asg:
                v = n.ast.value
                if fn.name == 'scroll_constrain':
                    ok = isinstance(v, ast.Call) and dotted(v.func) == 'constrain' and [norm(a) for a in v.args] == ['self.' + fld, '1', 'self.rows']
                    c.check(ok, fn, n.ast, '%s is clamped to [1, rows] on BOTH sides (a region like 0;0 or 5;99 must not reach the slice moves)' % fld,
                            witness=norm(n.ast), kind='alg', tag='clamp:' + fld)
                    cond = [p for p in parent_chain(n.ast) if isinstance(p, (ast.If, ast.While))]
                    c.check(not cond, fn, n.ast, 'the clamp of %s is unconditional' % fld, kind='ast', tag='clamp-uncond:' + fld)
                elif norm(v) in ('1', 'self.rows'):
                    c.ok(fn, n.ast, '%s set to an in-range constant' % fld, kind='alg', tag='const:%s:%s' % (fld, fn.name))
                else:
                    cs = [m for m, k in cfg_nodes_with_call(fn, lambda k: callee_last(k) == 'scroll_constrain')]
                    ok, p = g.must_pass(n, {g.exit}, set(cs), skip_labels=('exc',))
                    c.check(bool(cs) and ok, fn, n.ast, 'a caller-supplied %s is followed by scroll_constrain() on every path' % fld,
                            witness=g.describe_path(p) if p else 'no scroll_constrain call', tag='constrained:%s:%s' % (fld, fn.name))
    sc = repo.func('screen:screen.scroll_constrain')
    both = [stmt_assigns_attr(n, a) for n in iter_nodes(sc.node) if isinstance(n, ast.Assign) for a in ('scroll_row_start', 'scroll_row_end') if stmt_assigns_attr(n, a) is not None]
    c.check(len(both) == 2, sc, sc.node, 'scroll_constrain treats both fields', kind='ast', tag='clamp-both')
    cf = repo.func('screen:constrain')
    gcf = cf.cfg
    rets = returns(cf)
    tl = [t for t in gcf.nodes if t.kind == 'test']
    ok = len(rets) == 3 and len(tl) == 2
    if ok:
        n_, lo, hi = cf.params
        t1 = [t for t in tl if norm(t.ast) in ('%s < %s' % (n_, lo), '%s > %s' % (lo, n_))]
        t2 = [t for t in tl if norm(t.ast) in ('%s > %s' % (n_, hi), '%s < %s' % (hi, n_))]
        ok = len(t1) == 1 and len(t2) == 1 and any(is_name(r.ast.value, lo) and r in guard_region(gcf, t1[0], 'true') for r in rets) and \
            any(is_name(r.ast.value, hi) and r in guard_region(gcf, t2[0], 'true') for r in rets) and any(is_name(r.ast.value, n_) for r in rets)
    c.check(ok, cf, cf.node, 'constrain(n, lo, hi) returns lo below, hi above, n otherwise', kind='alg', tag='constrain-fn')


def check_cell_store(c, f, st, tg):
    # self.w[r-1][c-1] = ch   with r, c clamped in this function and ch a single character
    g = f.cfg
    row, col = tg.value.slice, tg.slice
    for idx, bound, what in ((row, 'self.rows', 'row'), (col, 'self.cols', 'column')):
        L = lin(idx, f, keep=tuple(f.params) + ('r', 'c'))
        ok = L is not None and L.const == -1 and len(L.terms) == 1 and list(L.terms.values())[0] == 1
        var = list(L.terms)[0] if ok else None
        clamp = False
        if ok:
            for n in g.nodes:
                if n.kind == 'stmt' and isinstance(n.ast, ast.Assign) and var in assigned_names(n.ast) and isinstance(n.ast.value, ast.Call) \
                        and dotted(n.ast.value.func) == 'constrain' and [norm(a) for a in n.ast.value.args] == [var, '1', bound]:
                    if g.dominated_by(g.node_of_stmt(st), {n})[0]:
                        clamp = True
        c.check(ok and clamp, f, st, 'the %s index is <clamped to [1, %s]> - 1' % (what, bound), witness=norm(idx), kind='alg', tag='cell-%s:%s' % (what, f.qual))
    v = st.value
    singles = False
    if isinstance(v, ast.Subscript) and is_const(v.slice, 0):
        singles = True          # <text>[0] stored directly
    if isinstance(v, ast.Name):
        defs = [n for n in g.nodes if n.kind == 'stmt' and isinstance(n.ast, ast.Assign) and v.id in assigned_names(n.ast)
                and isinstance(n.ast.value, ast.Subscript) and is_const(n.ast.value.slice, 0)]
        # on EVERY path to the store the value was cut down to one character
        singles = bool(defs) and g.dominated_by(g.node_of_stmt(st), set(defs))[0]
        others = [n for n in g.nodes if n.kind == 'stmt' and v.id in assigned_names(n.ast) and n not in defs
                  and any(g.path(d, n, skip_labels=('exc',), include_start=False) is not None for d in defs)
                  and g.path(n, g.node_of_stmt(st), skip_labels=('exc',)) is not None]
        singles = singles and not others
    c.check(singles, f, st, 'exactly one character is stored (ch[0])', witness=norm(v), kind='ast', tag='cell-single:' + f.qual)


def check_scroll(c, f, aspects=('height', 'alias', 'content')):
    """scroll_up / scroll_down as a whole, whatever list operations they are written with (slice assignment, insert + del, ...)"""
    up = f.name == 'scroll_up'
    probs, why = scroll_semantics(f, up)
    if probs is None:
        raise AnalysisError('%s: statement not understood by the abstract grid evaluation: %s' % (f.qual, why))
    kinds = dict(probs)
    c.check('height' not in kinds, f, None, 'the routine leaves the grid with exactly as many rows as before, for every grid height and every scroll '
            'region the clamps allow (abstract evaluation over heights 1,2,3,5 x all start/end)', witness=kinds.get('height'), kind='alg', tag='move-count:' + f.name)
    if 'alias' in aspects:
        c.check('alias' not in kinds, f, None, 'no two grid rows are the same list object afterwards (moved rows are copied or moved, never shared)',
                witness=kinds.get('alias'), kind='alg', tag='move-copied:' + f.name)
    if 'content' in aspects:
        c.check('content' not in kinds, f, None, 'rows inside the scroll region move %s by exactly one line, rows outside keep their content' % ('up' if up else 'down'),
                witness=kinds.get('content'), kind='alg', tag='move-shift:' + f.name)


class RowTok(object):
    """abstract grid row: which old row's content it carries and whether it is a fresh list object"""
    __slots__ = ('content', 'obj')

    def __init__(self, content, obj):
        self.content, self.obj = content, obj


def _rows_expr(e, f, env, grid):
    """abstract list of rows denoted by a list-valued expression over the grid"""
    if isinstance(e, ast.Call) and dotted(e.func) in ('copy.deepcopy', 'deepcopy') and len(e.args) == 1:
        inner = _rows_expr(e.args[0], f, env, grid)
        return None if inner is None else [RowTok(t.content, object()) for t in inner]
    if isinstance(e, ast.Call) and dotted(e.func) in ('copy.copy', 'list') and len(e.args) == 1:
        return _rows_expr(e.args[0], f, env, grid)       # shallow: same row objects
    if isinstance(e, ast.BinOp) and isinstance(e.op, ast.Add):
        a, b = _rows_expr(e.left, f, env, grid), _rows_expr(e.right, f, env, grid)
        return None if a is None or b is None else a + b
    if isinstance(e, ast.List):
        out = []
        for x in e.elts:
            r = _one_row(x, f, env, grid)
            if r is None:
                return None
            out.append(r)
        return out
    if isinstance(e, ast.ListComp) and len(e.generators) == 1 and not e.generators[0].ifs:
        inner = _rows_expr(e.generators[0].iter, f, env, grid)
        if inner is None:
            return None
        elt = e.elt
        tv = e.generators[0].target.id if isinstance(e.generators[0].target, ast.Name) else None
        fresh = isinstance(elt, ast.Call) and dotted(elt.func) in ('list', 'copy.copy', 'copy.deepcopy') or \
            (isinstance(elt, ast.Subscript) and isinstance(elt.slice, ast.Slice) and elt.slice.lower is None and elt.slice.upper is None)
        return [RowTok(t.content, object() if fresh else t.obj) for t in inner]
    if isinstance(e, ast.Subscript) and _is_grid(e.value) and isinstance(e.slice, ast.Slice):
        lo = _int_expr(e.slice.lower, f, env) if e.slice.lower is not None else 0
        hi = _int_expr(e.slice.upper, f, env) if e.slice.upper is not None else len(grid)
        if lo is None or hi is None:
            return None
        return grid[slice(lo, hi)]
    return None


def _one_row(x, f, env, grid):
    if isinstance(x, ast.Call) and dotted(x.func) in ('list', 'copy.copy', 'copy.deepcopy') and len(x.args) == 1:
        r = _one_row(x.args[0], f, env, grid)
        return None if r is None else RowTok(r.content, object())
    if isinstance(x, ast.Call) and isinstance(x.func, ast.Attribute) and x.func.attr == 'pop' and _is_grid(x.func.value) and len(x.args) <= 1 and not x.keywords:
        # `w.pop(i)` as a value: the row leaves the grid and is handed on (the same list object)
        i = _int_expr(x.args[0], f, env) if x.args else -1
        if i is None:
            return None
        if not grid or not (-len(grid) <= i < len(grid)):
            raise IndexError(norm(x))
        return grid.pop(i)
    if isinstance(x, ast.Subscript) and _is_grid(x.value) and not isinstance(x.slice, ast.Slice):
        i = _int_expr(x.slice, f, env)
        if i is None:
            return None
        if not (-len(grid) <= i < len(grid)):
            raise IndexError(norm(x))
        return grid[i]
    if isinstance(x, ast.Subscript) and isinstance(x.slice, ast.Slice) and x.slice.lower is None and x.slice.upper is None and x.slice.step is None:
        r = _one_row(x.value, f, env, grid)          # row[:]  -- a copy of the row
        return None if r is None else RowTok(r.content, object())
    if isinstance(x, ast.BinOp) and isinstance(x.op, ast.Mult):
        return RowTok('blank', object())
    return None


def _int_expr(e, f, env):
    L = lin(e, f)
    if L is None:
        return None
    v = L.const
    for a, k in L.terms.items():
        if a == 'self.scroll_row_start':
            v += k * env['start']
        elif a == 'self.scroll_row_end':
            v += k * env['end']
        elif a == 'self.rows':
            v += k * env['rows']
        else:
            return None
    return v


class _NotUnderstood(Exception):
    pass


_GRID_ALIASES = set()          # locals of the routine under evaluation that hold the grid object (`w = self.w`)


def _is_grid(e):
    return norm(e) == 'self.w' or (isinstance(e, ast.Name) and e.id in _GRID_ALIASES)


def _exec_grid_stmt(st, f, env, grid):
    """perform one statement of a scroll routine on the abstract grid (a python list of RowTok)"""
    if isinstance(st, ast.Expr) and isinstance(st.value, ast.Constant):
        return
    if isinstance(st, ast.Pass):
        return
    if isinstance(st, ast.Assign) and len(st.targets) == 1 and isinstance(st.targets[0], ast.Name):
        if _is_grid(st.value):
            _GRID_ALIASES.add(st.targets[0].id)          # w = self.w
            return
        if st.targets[0].id in _GRID_ALIASES or _int_expr(st.value, f, env) is None:
            raise _NotUnderstood(norm(st))
        return          # integer temporaries are inlined by lin()
    if isinstance(st, ast.Assign) and len(st.targets) == 1 and isinstance(st.targets[0], ast.Subscript) and isinstance(st.targets[0].slice, ast.Slice) \
            and st.targets[0].slice.lower is None and st.targets[0].slice.upper is None and st.targets[0].slice.step is None \
            and isinstance(st.targets[0].value, ast.Subscript) and _is_grid(st.targets[0].value.value) and not isinstance(st.targets[0].value.slice, ast.Slice):
        # w[i][:] = <row>: the cells of row i are overwritten in place -- the row keeps its list object and gets the other row's content
        i = _int_expr(st.targets[0].value.slice, f, env)
        r = _one_row(st.value, f, env, grid)
        if i is None or r is None:
            raise _NotUnderstood(norm(st))
        if not (-len(grid) <= i < len(grid)):
            raise IndexError(norm(st))
        grid[i] = RowTok(r.content, grid[i].obj)
        return
    if isinstance(st, ast.Assign) and len(st.targets) == 1 and isinstance(st.targets[0], ast.Subscript) and _is_grid(st.targets[0].value):
        tg = st.targets[0]
        if isinstance(tg.slice, ast.Slice):
            lo = _int_expr(tg.slice.lower, f, env) if tg.slice.lower is not None else 0
            hi = _int_expr(tg.slice.upper, f, env) if tg.slice.upper is not None else len(grid)
            val = _rows_expr(st.value, f, env, grid)
            if lo is None or hi is None or val is None or tg.slice.step is not None:
                raise _NotUnderstood(norm(st))
            grid[slice(lo, hi)] = val
        else:
            i = _int_expr(tg.slice, f, env)
            r = _one_row(st.value, f, env, grid)
            if i is None or r is None:
                raise _NotUnderstood(norm(st))
            if not (-len(grid) <= i < len(grid)):
                raise IndexError(norm(st))
            grid[i] = r
        return
    if isinstance(st, ast.Delete) and len(st.targets) == 1 and isinstance(st.targets[0], ast.Subscript) and _is_grid(st.targets[0].value):
        tg = st.targets[0]
        if isinstance(tg.slice, ast.Slice):
            lo = _int_expr(tg.slice.lower, f, env) if tg.slice.lower is not None else 0
            hi = _int_expr(tg.slice.upper, f, env) if tg.slice.upper is not None else len(grid)
            if lo is None or hi is None:
                raise _NotUnderstood(norm(st))
            del grid[slice(lo, hi)]
        else:
            i = _int_expr(tg.slice, f, env)
            if i is None:
                raise _NotUnderstood(norm(st))
            if not (-len(grid) <= i < len(grid)):
                raise IndexError(norm(st))
            del grid[i]
        return
    if isinstance(st, ast.Expr) and isinstance(st.value, ast.Call) and isinstance(st.value.func, ast.Attribute) and _is_grid(st.value.func.value):
        k = st.value
        m = k.func.attr
        if m == 'insert' and len(k.args) == 2:
            i = _int_expr(k.args[0], f, env)
            r = _one_row(k.args[1], f, env, grid)
            if i is None or r is None:
                raise _NotUnderstood(norm(st))
            grid.insert(i, r)
            return
        if m == 'append' and len(k.args) == 1:
            r = _one_row(k.args[0], f, env, grid)
            if r is None:
                raise _NotUnderstood(norm(st))
            grid.append(r)
            return
        if m == 'pop' and len(k.args) <= 1:
            i = _int_expr(k.args[0], f, env) if k.args else -1
            if i is None:
                raise _NotUnderstood(norm(st))
            if not grid or not (-len(grid) <= i < len(grid)):
                raise IndexError(norm(st))
            grid.pop(i)
            return
        raise _NotUnderstood(norm(st))
    if isinstance(st, ast.If):
        t = st.test
        neg = False
        while isinstance(t, ast.UnaryOp) and isinstance(t.op, ast.Not):
            t, neg = t.operand, not neg
        # `if self.w[a:b]:` / `if not self.w[a:b]:` -- is that part of the grid empty?
        if isinstance(t, ast.Subscript) and isinstance(t.slice, ast.Slice) and _is_grid(t.value) and t.slice.step is None:
            lo = _int_expr(t.slice.lower, f, env) if t.slice.lower is not None else 0
            hi = _int_expr(t.slice.upper, f, env) if t.slice.upper is not None else len(grid)
            if lo is not None and hi is not None:
                val = bool(grid[slice(lo, hi)]) != neg
                for s2 in (st.body if val else st.orelse):
                    _exec_grid_stmt(s2, f, env, grid)
                return
        if isinstance(t, ast.Compare):
            # a (possibly chained, possibly negated) comparison of integer expressions: `if s >= e:`, `if not 0 <= s < e:`
            import operator as _op
            vals = [_int_expr(x_, f, env) for x_ in [t.left] + list(t.comparators)]
            fns = [{ast.Lt: _op.lt, ast.LtE: _op.le, ast.Gt: _op.gt, ast.GtE: _op.ge, ast.Eq: _op.eq, ast.NotEq: _op.ne}.get(type(o_)) for o_ in t.ops]
            if all(v_ is not None for v_ in vals) and all(fn_ is not None for fn_ in fns):
                res = all(fn_(vals[i_], vals[i_ + 1]) for i_, fn_ in enumerate(fns)) != neg
                for s2 in (st.body if res else st.orelse):
                    _exec_grid_stmt(s2, f, env, grid)
                return
        raise _NotUnderstood(norm(st.test))
    if isinstance(st, ast.Return) and st.value is None:
        raise StopIteration
    raise _NotUnderstood(norm(st))


def scroll_semantics(f, up):
    """Abstractly run the whole body of scroll_up / scroll_down on a grid of row tokens, for every grid height in a small box and
    every scroll region the clamps allow.  None = a statement is not understood; else the problems found, by kind."""
    probs = {}
    for rows in (1, 2, 3, 5):
        for start in range(1, rows + 1):
            for end in range(1, rows + 1):
                env = {'rows': rows, 'start': start, 'end': end}
                _GRID_ALIASES.clear()
                grid = [RowTok(i, ('old', i)) for i in range(rows)]
                where = 'with %d rows and scroll region %d..%d' % (rows, start, end)
                try:
                    for st in f.node.body:
                        _exec_grid_stmt(st, f, env, grid)
                except StopIteration:
                    pass
                except IndexError as e:
                    probs.setdefault('height', '%s `%s` raises IndexError' % (where, e))
                    continue
                except _NotUnderstood as e:
                    return None, str(e)
                new = grid
                if len(new) != rows:
                    probs.setdefault('height', '%s the routine leaves the grid with %d rows%s' % (
                        where, len(new), ' (top below bottom is allowed by the clamps)' if start > end else ''))
                    continue
                objs = [id(t.obj) if not isinstance(t.obj, tuple) else t.obj for t in new]
                if len(set(objs)) != len(objs):
                    probs.setdefault('alias', '%s two grid rows become the same list object (writing one cell then changes two rows)' % where)
                s_, e_ = start - 1, end - 1
                want = list(range(rows))
                if start <= end:
                    if up:
                        for i in range(s_, e_):
                            want[i] = i + 1
                    else:
                        for i in range(s_ + 1, e_ + 1):
                            want[i] = i - 1
                got = [t.content for t in new]
                for i in range(rows):
                    free = (i == e_ if up else i == s_) and start <= end      # the vacated line: blanked by the caller
                    if got[i] != want[i] and not free:
                        probs.setdefault('content', '%s row %d ends up with the content of old row %s, expected old row %s (rows inside the region '
                                         'move %s by one, everything else stays -- an inverted region scrolls nothing)'
                                         % (where, i + 1, got[i] if got[i] == 'blank' else got[i] + 1, want[i] + 1, 'up' if up else 'down'))
                        break
    return sorted(probs.items()), None


def check_resolve(c, repo, acts):
    ansi = repo.cls('ANSI')
    units = [action_func(repo, a) for a in acts] + [f for cl in (ansi, repo.cls('term'), repo.cls('screen')) for f in cl.methods.values()]
    seen = set()
    for f in units:
        if f.qual in seen:
            continue
        seen.add(f.qual)
        al = aliases_of(f)
        for k in calls_in(f.node):
            if not isinstance(k.func, ast.Attribute):
                continue
            recv = k.func.value
            p = al.canon(recv)
            target_cls = None
            if p == 'self' and f.cls is not None and repo.is_subclass(f.cls, 'screen'):
                target_cls = ansi if f.cls.name in ('ANSI', 'term') else ansi   # a screen method may be called on an ANSI object: resolve in the widest class
                own = f.cls
            elif p == 'fsm.memory[0]':
                target_cls = ansi
                own = ansi
            elif isinstance(recv, ast.Name) and recv.id == 'screen' and 'screen' not in al.counts and 'screen' not in f.params and f.module.name == 'ANSI':
                # `screen` not bound locally: it is the imported MODULE -- a method call on it is an AttributeError
                c.bad(f, k, '`screen` is not bound in this action (it is the imported module here): screen.%s() raises AttributeError when the sequence is fed'
                      % k.func.attr, kind='flow', tag='unbound-screen:' + f.qual)
                continue
            else:
                continue
            m = repo.resolve_method(own if p == 'self' else target_cls, k.func.attr)
            if m is None and p == 'self':
                m = repo.resolve_method(ansi, k.func.attr) if f.cls.name != 'screen' else None
                if m is None and k.func.attr in ('decoder',):
                    continue
            if m is None:
                c.bad(f, k, 'no method %s() exists on the terminal classes: AttributeError when this code runs' % k.func.attr, kind='flow', tag='no-method:%s:%s' % (f.qual, k.func.attr))
                continue
            ps = m.params[1:] if m.params and m.params[0] in ('self',) else m.params
            a_ = m.node.args
            nreq = len(a_.args) - len(a_.defaults) - (1 if m.params and m.params[0] == 'self' else 0)
            npos = len(k.args)
            okar = (npos + len(k.keywords) >= nreq) and (npos <= len(ps) or a_.vararg is not None)
            c.check(okar, f, k, '%s() is called with a number of arguments it accepts' % k.func.attr, witness='%d given, %d..%d accepted' % (npos, nreq, len(ps)),
                    kind='flow', tag='arity:%s:%s' % (f.qual, norm(k)[:30]))


def _literal_tables(mod):
    """module-level names bound once to a literal dict / list / tuple"""
    out, cnt = {}, {}
    for st in mod.tree.body:
        if isinstance(st, ast.Assign):
            for t in st.targets:
                if isinstance(t, ast.Name):
                    cnt[t.id] = cnt.get(t.id, 0) + 1
                    out[t.id] = st.value
    return dict((k, v) for k, v in out.items() if cnt[k] == 1 and isinstance(v, (ast.Dict, ast.List, ast.Tuple)))


def check_total_lookups(c, repo, acts):
    """A parser action runs for EVERY numeric parameter the stream can carry: a lookup of such a value in a finite literal table
    (TABLE[arg], TABLE.index(arg)) raises for the values the table lacks, out of write().  Accepted: constant keys the table has,
    a dominating `arg in TABLE` test, a try that catches the lookup error, dict.get()."""
    mod = repo.modules['ANSI']
    tables = _literal_tables(mod)
    n = 0
    for a in acts:
        f = action_func(repo, a)
        g = f.cfg
        al = aliases_of(f)
        for node in g.nodes:
            if node.ast is None:
                continue
            for x in node_roots(node):
                for sub in ast.walk(x):
                    if not (isinstance(sub, ast.Subscript) and isinstance(sub.ctx, ast.Load)):
                        continue
                    base = sub.value
                    tv = None
                    if isinstance(base, ast.Name) and base.id not in al.counts and base.id not in f.params:
                        tv = tables.get(base.id)
                    elif isinstance(base, (ast.Dict, ast.List, ast.Tuple)):
                        tv = base
                    elif isinstance(base, ast.Name) and isinstance(al.single_assign.get(base.id), (ast.Dict, ast.List, ast.Tuple)):
                        tv = al.single_assign[base.id]
                    if tv is None:
                        continue
                    n += 1
                    key = sub.slice
                    sentinel = object()
                    kv = const_value(key, sentinel)
                    if kv is not sentinel:
                        if isinstance(tv, ast.Dict):
                            ok = any(k_ is not None and const_value(k_, sentinel) == kv for k_ in tv.keys)
                        else:
                            ok = isinstance(kv, int) and -len(tv.elts) <= kv < len(tv.elts)
                        c.check(ok, f, sub, 'constant key %r is in the table' % (kv,), kind='ast', tag='const-key:%s:%s' % (f.qual, norm(sub)[:30]))
                        continue
                    conds = conditions(g, node)
                    guarded = any(v and at.startswith(norm(key) + ' in ') for at, v in conds)
                    tried = any(isinstance(p_, ast.Try) and any(h.type is None or norm(h.type) in ('KeyError', 'IndexError', 'LookupError', 'Exception') or
                                                                (isinstance(h.type, ast.Tuple) and any(norm(e_) in ('KeyError', 'IndexError', 'LookupError', 'Exception') for e_ in h.type.elts))
                                                                for h in p_.handlers) and any(sub is y for st_ in p_.body for y in ast.walk(st_))
                                for p_ in parent_chain(sub))
                    c.check(guarded or tried, f, sub,
                            'a value taken from the stream is looked up in the finite table %s only under a membership test / a handler for the lookup error '
                            '(otherwise a parameter the table lacks raises out of write())' % norm(base)[:30],
                            witness=norm(sub), kind='flow', tag='total-lookup:%s:%s' % (f.qual, norm(sub)[:30]))
    c.instances_note = n


def check_cursor_pair(c, repo):
    n = 0
    for f in repo.package_funcs():
        if f.module.name not in ('screen', 'ANSI') or f.cls is None:
            continue
        g = f.cfg
        asg = [m for m in g.nodes if m.kind == 'stmt' and (stmt_assigns_attr(m.ast, 'cur_r') is not None or stmt_assigns_attr(m.ast, 'cur_c') is not None)]
        if not asg:
            continue
        if f.name == '__init__':
            c.check(all(is_const(m.ast.value, 1) for m in asg), f, asg[0].ast, 'the cursor starts at (1, 1)', kind='ast', tag='init-cursor')
            continue
        if f.name == 'cursor_constrain':
            flds = set('cur_r' if stmt_assigns_attr(m.ast, 'cur_r') is not None else 'cur_c' for m in asg)
            c.check(flds == {'cur_r', 'cur_c'}, f, f.node, 'cursor_constrain clamps BOTH the row and the column', witness=str(sorted(flds)), kind='ast', tag='constrain-both')
            for m in asg:
                fld = 'cur_r' if stmt_assigns_attr(m.ast, 'cur_r') is not None else 'cur_c'
                bound = 'self.rows' if fld == 'cur_r' else 'self.cols'
                v = m.ast.value
                ok = isinstance(v, ast.Call) and dotted(v.func) == 'constrain' and [norm(a) for a in v.args] == ['self.' + fld, '1', bound]
                c.check(ok, f, m.ast, '%s is clamped to [1, %s]' % (fld, bound), witness=norm(m.ast), kind='alg', tag='constrain:' + fld)
                n += 1
            continue
        cs = [m for m, k in cfg_nodes_with_call(f, lambda k: callee_last(k) == 'cursor_constrain' and ctext(k.func.value, f) == 'self')]
        for m in asg:
            n += 1
            ok, p = g.must_pass(m, {g.exit}, set(cs), skip_labels=('exc',))
            c.check(bool(cs) and ok, f, m.ast, 'after the cursor is moved, cursor_constrain() runs on every path to the return',
                    witness=g.describe_path(p) if p else 'no cursor_constrain() call', tag='constrained:%s:%s' % (f.name, norm(m.ast)[:20]))
    c.need(n >= 6, 'expected >= 6 cursor writers')


def stored_in(g, after, target, attr):
    """the unpacking target IS self.<attr>, or a local that is stored into self.<attr> on every path after the unpacking"""
    if norm(target) == 'self.' + attr:
        return True
    if not isinstance(target, ast.Name):
        return False
    st = [n for n in g.nodes if n.kind == 'stmt' and isinstance(n.ast, ast.Assign) and stmt_assigns_attr(n.ast, attr) is not None and is_name(n.ast.value, target.id)]
    redef = [n for n in g.nodes if n.kind == 'stmt' and n is not after and target.id in assigned_names(n.ast)]
    return bool(st) and not redef and g.must_pass(after, {g.exit}, set(st), skip_labels=('exc',))[0]


def check_fsm_class(c, repo):
    f = repo.func('FSM:FSM.get_transition')
    g = f.cfg
    sym, st = f.params[1], f.params[2]
    A1 = '(%s, %s) in self.state_transitions' % (sym, st)
    A2 = '%s in self.state_transitions_any' % st
    A3 = 'self.default_transition is None'
    # each outcome, with the exact decisions that lead to it (however the chain of tests is written)
    want = [('exact-first', 'first: the exact (symbol, state) entry', 'self.state_transitions[%s, %s]' % (sym, st), {(A1, True)}),
            ('any-second', 'second: the per-state "any" entry', 'self.state_transitions_any[%s]' % st, {(A1, False), (A2, True)}),
            ('default-third', 'third: the default transition; otherwise ExceptionFSM', 'self.default_transition', {(A1, False), (A2, False), (A3, False)})]
    rets = returns(f)
    c.need(len(rets) == 3, 'FSM.get_transition: expected three returns')
    for tag, what, val, cond in want:
        rr = [r for r in rets if norm(r.ast.value) == val]
        got = conditions(g, rr[0]) if len(rr) == 1 else None
        c.check(got == cond, f, rr[0].ast if rr else None, what, witness='returned under %s' % sorted(got or []), kind='path', tag=tag)
    rs = raises(f)
    got = conditions(g, rs[0]) if len(rs) == 1 else None
    c.check(got == {(A1, False), (A2, False), (A3, True)} and raised_class(rs[0].ast, f) == 'ExceptionFSM', f, rs[0].ast if rs else None,
            'ExceptionFSM exactly when none of the three applies', witness='raised under %s' % sorted(got or []), kind='path', tag='undefined-raises')
    # builders store (action, next_state) under the keys the lookup uses
    A_NS = atom_key(ast.parse('next_state is None', mode='eval').body)[0]
    for name, key in (('add_transition', '(input_symbol, state)'), ('add_transition_any', 'state')):
        b = repo.func('FSM:FSM.' + name)
        gb = b.cfg
        asg = [n for n in iter_nodes(b.node) if isinstance(n, ast.Assign) and isinstance(n.targets[0], ast.Subscript)]
        v_ = asg[0].value if len(asg) == 1 else None
        ok = isinstance(v_, ast.Tuple) and len(v_.elts) == 2 and is_name(v_.elts[0], 'action') and isinstance(v_.elts[1], ast.Name) \
            and norm(asg[0].targets[0].slice) in (key, key.strip('()'))
        c.check(ok, b, asg[0] if asg else None, '%s stores (action, <next state>) under %s' % (name, key), witness=norm(asg[0]) if asg else '', kind='ast', tag='builder:' + name)
        if ok:
            # which state is stored: the given one, or the transition's own state when none was given -- whatever local carries it
            sn = gb.node_of_stmt(asg[0])
            got = {}
            for ns_none in (True, False):
                got[ns_none] = sorted(set(cp.get(v_.elts[1].id, v_.elts[1].id) for cp in names_at(gb, sn, {A_NS: ns_none})))
            c.check(got == {True: ['state'], False: ['next_state']}, b, asg[0], '%s: an omitted next_state means "stay in the same state", a given one is kept' % name,
                    witness='stored for next_state None / given: %s / %s' % (got[True], got[False]), kind='path', tag='builder-default:' + name)
    b = repo.func('FSM:FSM.add_transition_list')
    ks = [k for k in calls_in(b.node) if callee_last(k) == 'add_transition']
    loops = [n for n in iter_nodes(b.node) if isinstance(n, ast.For)]
    ok = len(ks) == 1 and len(loops) == 1 and is_name(loops[0].iter, b.params[1]) and [norm(a) for a in ks[0].args] == [loops[0].target.id, 'state', 'action', 'next_state']
    c.check(ok, b, ks[0] if ks else None, 'add_transition_list adds the same transition for every symbol of the list', kind='ast', tag='builder:list')
    # add_transition_list hands its own next_state on (None included): add_transition applies the default
    sd = repo.func('FSM:FSM.set_default_transition')
    asg = [n for n in iter_nodes(sd.node) if isinstance(n, ast.Assign) and stmt_assigns_attr(n, 'default_transition') is not None]
    c.check(len(asg) == 1 and norm(asg[0].value) == '(action, next_state)', sd, asg[0] if asg else sd.node, 'set_default_transition stores (action, next_state)', kind='ast', tag='builder:default')
    p = repo.func('FSM:FSM.process')
    gp = p.cfg
    eqv = equivalents(p)
    ACT, NXT, SYM = eqv('self.action'), eqv('self.next_state'), eqv('self.input_symbol')
    isym = [n for n in gp.nodes if n.kind == 'stmt' and stmt_assigns_attr(n.ast, 'input_symbol') is not None and is_name(n.ast.value, p.params[1])]
    acts_ = [n for n, k in cfg_nodes_with_call(p, lambda k: norm(k.func) in ACT)]
    c.check(len(isym) == 1 and bool(acts_) and gp.dominated_by(acts_[0], {isym[0]})[0], p, isym[0].ast if isym else None,
            'process() publishes the current symbol (fsm.input_symbol) before the action runs', kind='path', tag='symbol-before-action')
    act = [n for n, k in cfg_nodes_with_call(p, lambda k: norm(k.func) in ACT)]
    c.check(any(stmt_assigns_attr(n.ast, 'action') is not None or 'self.action' in norm(n.ast).split('=')[0] for n in gp.nodes if n.kind == 'stmt' and n.ast is not None and isinstance(n.ast, ast.Assign)),
            p, None, 'the chosen action is published as fsm.action', kind='ast', tag='action-published')
    com = [n for n in gp.nodes if n.kind == 'stmt' and stmt_assigns_attr(n.ast, 'current_state') is not None]
    ok = len(act) == 1 and len(com) == 1 and gp.path(com[0], act[0], skip_labels=('exc',)) is None and norm(com[0].ast.value) == 'self.next_state' \
        and gp.dominated_by(gp.exit, {com[0]})[0]
    c.check(ok, p, com[0].ast if com else None, 'process(): the action runs before current_state is committed to next_state (actions read the old state), and the commit happens on every path',
            kind='path', tag='action-before-commit')
    gt = [n for n in gp.nodes if n.kind == 'stmt' and any(callee_last(k) == 'get_transition' for k in node_calls(n))]
    ok = len(gt) == 1 and isinstance(gt[0].ast, ast.Assign) and isinstance(gt[0].ast.value, ast.Call) and len(gt[0].ast.value.args) == 2 \
        and norm(gt[0].ast.value.args[0]) in SYM and norm(gt[0].ast.value.args[1]) == 'self.current_state' \
        and isinstance(gt[0].ast.targets[0], ast.Tuple) and len(gt[0].ast.targets[0].elts) == 2 \
        and stored_in(gp, gt[0], gt[0].ast.targets[0].elts[0], 'action') and stored_in(gp, gt[0], gt[0].ast.targets[0].elts[1], 'next_state')
    c.check(ok, p, gt[0].ast if gt else None, 'the transition is looked up for (this symbol, the current state)', kind='ast', tag='lookup-args')
    tn = [(t, r[3]) for t in gp.nodes if t.kind == 'test' and t.ast is not None for r in [relation(t.ast)]
          if r and r[0] == 'is' and norm(r[1]) in ACT and is_const(r[2], None)]
    c.check(len(tn) == 1 and bool(act) and act[0] in guard_region(gp, tn[0][0], other(tn[0][1])), p, tn[0][0].ast if tn else None, 'a None action only changes state', kind='path', tag='none-action')


MUTANTS = [
    ('erase-lookup-table', 'ANSI', '    arg = int(fsm.memory.pop())\n    screen = fsm.memory[0]\n    if arg == 0:\n        screen.erase_down()\n    elif arg == 1:\n        screen.erase_up()\n    elif arg == 2:\n        screen.erase_screen()\n', "    arg = int(fsm.memory.pop())\n    screen = fsm.memory[0]\n    getattr(screen, {0: 'erase_down', 1: 'erase_up', 2: 'erase_screen'}[arg])()\n", 'D8'),
    ('no-default', 'ANSI', "        self.state.set_default_transition (DoLog, 'INIT')\n", "", 'D1'),
    ('typo-next-state', 'ANSI', "self.state.add_transition (';', 'NUMBER_2', None, 'SEMICOLON_X')", "self.state.add_transition (';', 'NUMBER_2', None, 'SEMICOLON_Z')", 'D1'),
    ('home-pops-once', 'ANSI', "    c = int(fsm.memory.pop())\n    r = int(fsm.memory.pop())\n    screen = fsm.memory[0]\n    screen.cursor_home (r,c)", "    c = int(fsm.memory.pop())\n    r = c\n    screen = fsm.memory[0]\n    screen.cursor_home (r,c)", 'D2'),
    ('number-on-question', 'ANSI', "self.state.add_transition ('?', 'ELB', None, 'MODECRAP')", "self.state.add_transition ('?', 'ELB', DoStartNumber, 'NUMBER_1')", 'D2'),
    ('back-from-elb', 'ANSI', "self.state.add_transition ('D', 'ELB', DoBackOne, 'INIT')", "self.state.add_transition ('D', 'ELB', DoBack, 'INIT')", 'D2'),
    ('mode-no-pop', 'ANSI', "    mode = fsm.memory.pop() # Should be 4\n", "    mode = fsm.memory[0]\n", 'D2'),
    ('sgr-no-reset', 'ANSI', "    def do_sgr (self, fsm):\n        '''Select Graphic Rendition, e.g. color. '''\n        screen = fsm.memory[0]\n        fsm.memory = [screen]", "    def do_sgr (self, fsm):\n        '''Select Graphic Rendition, e.g. color. '''\n        screen = fsm.memory[0]", 'D2'),
    ('semicolon-any-keeps', 'ANSI', "self.state.add_transition_any ('SEMICOLON', DoLog, 'INIT')", "self.state.add_transition_any ('SEMICOLON', None, 'INIT')", 'D2'),
    ('region-from-number1', 'ANSI', "self.state.add_transition ('r', 'NUMBER_2', DoScrollRegion, 'INIT')", "self.state.add_transition ('r', 'NUMBER_2', DoScrollRegion, 'INIT')\n        self.state.add_transition ('r', 'NUMBER_1', DoScrollRegion, 'INIT')", 'D2'),
    ('emit-prints', 'ANSI', "    screen = fsm.memory[0]\n    screen.write_ch(fsm.input_symbol)", "    screen = fsm.memory[0]\n    print(fsm.input_symbol)\n    screen.write_ch(fsm.input_symbol)", 'D3'),
    ('write-remembers', 'ANSI', "        if isinstance(s, bytes):\n            s = self._decode(s)\n        for c in s:\n            self.process(c)", "        if isinstance(s, bytes):\n            s = self._decode(s)\n        self.last_chunk = s\n        for c in s:\n            self.process(c)", 'D4'),
    ('decode-final', 'screen', "            return self.decoder.decode(s)", "            return self.decoder.decode(s, final=True)", 'D4'),
    ('write-ascii-bypass', 'ANSI', "        if isinstance(s, bytes):\n            s = self._decode(s)\n        for c in s:", "        if isinstance(s, bytes):\n            if s.isascii():\n                s = s.decode('ascii')\n            else:\n                s = self._decode(s)\n        for c in s:", 'D4'),
    ('scroll-up-concat', 'screen', "        self.w[s:e] = copy.deepcopy(self.w[s+1:e+1])", "        self.w[s:e+1] = copy.deepcopy(self.w[s+1:e+1]) + [list(self.w[e])]", 'D5'),
    ('constrain-one-sided', 'screen', "        self.scroll_row_end = constrain (self.scroll_row_end, 1, self.rows)", "        if self.scroll_row_end > self.rows:\n            self.scroll_row_end = self.rows", 'D5'),
    ('scroll-up-off', 'screen', "        self.w[s:e] = copy.deepcopy(self.w[s+1:e+1])", "        self.w[s:e] = copy.deepcopy(self.w[s+1:e+2])", 'D5'),
    ('put-abs-whole-string', 'screen', "        else:\n            ch = ch[0]\n        self.w[r-1][c-1] = ch", "        self.w[r-1][c-1] = ch", 'D5'),
    ('put-abs-unclamped-col', 'screen', "        r = constrain (r, 1, self.rows)\n        c = constrain (c, 1, self.cols)\n        if isinstance(ch, bytes):\n            ch = self._decode(ch)[0]", "        r = constrain (r, 1, self.rows)\n        if isinstance(ch, bytes):\n            ch = self._decode(ch)[0]", 'D5'),
    ('cursor-down-noconstrain', 'screen', "        self.cur_r = self.cur_r + count\n        self.cursor_constrain ()", "        self.cur_r = self.cur_r + count", 'D6'),
    ('region-rows-unconstrained', 'screen', "        self.scroll_row_start = rs\n        self.scroll_row_end = re\n        self.scroll_constrain()", "        self.scroll_row_start = rs\n        self.scroll_row_end = re", 'D5'),
    ('emit-unbound-screen', 'ANSI', "def DoEmit (fsm):\n\n    screen = fsm.memory[0]\n    screen.write_ch(fsm.input_symbol)", "def DoEmit (fsm):\n\n    screen.write_ch(fsm.input_symbol)", 'D8'),
    ('back-typo-method', 'ANSI', "    screen = fsm.memory[0]\n    screen.cursor_back (count)", "    screen = fsm.memory[0]\n    screen.cursor_backward (count)", 'D8'),
    ('constrain-row-only', 'screen', "        self.cur_r = constrain (self.cur_r, 1, self.rows)\n        self.cur_c = constrain (self.cur_c, 1, self.cols)", "        self.cur_r = constrain (self.cur_r, 1, self.rows)", 'D6'),
    ('fsm-default-not-stored', 'FSM', "        self.default_transition = (action, next_state)", "        pass", 'D7'),
    ('fsm-next-state-inverted', 'FSM', "        if next_state is None:\n            next_state = state\n        self.state_transitions[(input_symbol, state)] = (action, next_state)", "        if next_state is not None:\n            next_state = state\n        self.state_transitions[(input_symbol, state)] = (action, next_state)", 'D7'),
    ('fsm-symbol-late', 'FSM', "        self.input_symbol = input_symbol\n        (self.action, self.next_state)", "        (self.action, self.next_state)", 'D7'),
    ('fsm-any-first', 'FSM', "        if (input_symbol, state) in self.state_transitions:\n            return self.state_transitions[(input_symbol, state)]\n        elif state in self.state_transitions_any:\n            return self.state_transitions_any[state]", "        if state in self.state_transitions_any:\n            return self.state_transitions_any[state]\n        elif (input_symbol, state) in self.state_transitions:\n            return self.state_transitions[(input_symbol, state)]", 'D7'),
    ('fsm-commit-first', 'FSM', "        if self.action is not None:\n            self.action (self)\n        self.current_state = self.next_state\n        self.next_state = None", "        self.current_state = self.next_state\n        if self.action is not None:\n            self.action (self)\n        self.next_state = None", 'D7'),
]
PRESERVING = [
    ('erase-lookup-guarded', 'ANSI', '    arg = int(fsm.memory.pop())\n    screen = fsm.memory[0]\n    if arg == 0:\n        screen.erase_down()\n    elif arg == 1:\n        screen.erase_up()\n    elif arg == 2:\n        screen.erase_screen()\n', "    arg = int(fsm.memory.pop())\n    screen = fsm.memory[0]\n    table = {0: 'erase_down', 1: 'erase_up', 2: 'erase_screen'}\n    if arg in table:\n        getattr(screen, table[arg])()\n"),
]

"""C01 Stream conservation -- structural core.

Decided here (not the behaviour as a whole): the store discipline of every
function that writes the pending-text stores, append-once of every read, flow
of each read into the search, slice tiling of the match branch, "TIMEOUT
consumes nothing", the readers built on expect().
"""
import ast

from ..astx import (calls_in, dotted, norm, src, iter_nodes, aliases_of, canon,
                    assigned_targets, const_value, is_const)
from ..lib import (call_arg, relation, truth, other, cmp_views, core, holds_region, conditions, found_test, found_tests, path_tests, entails_empty, paths_entail_empty, eval_conditions, relation_tests, atom_key, expand_condition, mode_mismatch_conditions, calls, cfg_nodes_with_call, node_calls, attr_assign_nodes, returns,
                   stmt_assigns_attr, callee_last, guard_region, find_test_nodes,
                   compare_parts, is_name, node_contains)
from ..lib import *      # noqa: F401,F403  (path-condition helpers)
from ..linear import lin, ctext, Lin, slice_bounds
from ..loader import AnalysisError
from .. import stores
from ..effects import store_writes_closure

EXPLANATION = (
    "Static analysis of named structural clauses of stream conservation, not of the behaviour "
    "as a whole. Every function of the package that rebinds/writes/seeks the two pending-text "
    "stores (_before, _buffer) is found from the source and analysed on ALL CFG paths with an "
    "abstract-content typestate (invariant: search buffer is a suffix of the untrimmed pending "
    "text; stream position back at the end; no one-sided clear); the match branch of do_search "
    "is checked algebraically (before/after/rest tile the pending text, linear normal forms, "
    "no negative-zero slice bound); each read is appended exactly once and reaches the search "
    "exactly once on every loop path; timeout()/errored() transitively write no store; "
    "read/readline/readlines/__iter__ reach the stream only through expect() and hand back the "
    "right attribute per index. NOT decided: correctness of the searchers' positions, equality "
    "of concatenations over whole call histories, OS/transport behaviour.")
TRUSTED = ["Python slice semantics incl. x[0:-0] == ''", "io.BytesIO/StringIO: write at position, "
           "seek(k);read() leaves the position at the end, tell() at end == length",
           "sa/ engine (CFG, typestate, linear forms)"]
ASSUMPTIONS = ["entry state of every store-aware function satisfies the invariant (checked at "
               "every exit and at every call between store-aware functions)",
               "do_search's parameter `window` is a suffix of the pending text (checked at its call sites)"]

READERS = ['read', 'readline', 'readlines', '__iter__']


def writer_functions(repo):
    return [f for f in repo.package_funcs() if stores.touches_stores(f)]


def run(R):
    repo = R.repo
    writers = writer_functions(repo)
    wnames = set(f.name for f in writers) - {'__init__'}
    wnames |= {'existing_data', 'new_data', 'do_search'}

    # ------------------------------------------------------------------ D1/D2/D8
    with R.clause('D1', 'TYPESTATE', floor=8,
                  desc='store discipline: _buffer stays a suffix of _before on every path of every writer') as c, \
         R.clause('D2', 'PAIR', floor=4, desc='every seek() on a store is followed by read() before write/exit/call') as c2, \
         R.clause('D8', 'PAIR', floor=3, desc='no one-sided clear/replace of the search buffer') as c8:
        c.need(len(writers) >= 8, 'expected at least 8 functions writing the stores, found %d: %s'
               % (len(writers), [f.qual for f in writers]))
        for f in writers:
            assume = {}
            if f.name == 'do_search' and 'window' in f.params:
                assume['window'] = ('S', ())
            an = stores.StoreAnalysis(repo, f, wnames, assume)
            finals = an.run()
            probs = an.problems
            inv_p = [p for p in probs if p[1].startswith('inv-')]
            seek_p = [p for p in probs if p[1] in ('write-after-seek',) or 'seek without read' in p[2]]
            clear_p = [p for p in probs if p[1] == 'one-sided-clear']
            inv_only = [p for p in inv_p if p not in seek_p]
            if inv_only:
                for node, tag, msg in inv_only:
                    c.bad(f, node if node is not f.node else None, msg, tag=tag,
                          witness='%d abstract exit states explored' % an.exit_states)
            else:
                c.ok(f, None, 'Inv re-established on all %d abstract exit states; %d rebinds, %d writes, '
                     '%d store-aware calls checked' % (an.exit_states, len(an.rebinds), len(an.writes),
                                                      len(an.call_checks)), tag='inv')
            for ev in an.seeks:
                bad = [p for p in seek_p]
                c2.check(not bad, f, ev.node, '%s.seek() is followed by read() on every path before the next '
                         'write / exit / store-aware call' % ev.store,
                         witness=bad[0][2] if bad else None)
            if an.rebinds or any(e.kind == 'setbuffer' for n in f.cfg.nodes for e in an.events(n)):
                if clear_p:
                    c8.bad(f, None, clear_p[0][2], tag='one-sided-clear')
                else:
                    c8.ok(f, None, 'every path that empties/replaces _buffer does the same to _before', tag='two-sided')
        R.extra['writer_functions'] = [f.qual for f in writers]

    # ------------------------------------------------------------------ D3
    with R.clause('D3', 'FRAME', floor=2, desc='timeout()/errored() transitively write neither store') as c:
        for q in ('expect:Expecter.timeout', 'expect:Expecter.errored'):
            f = repo.func(q)
            w, chain = store_writes_closure(repo, f)
            c.check(not w, f, None, 'transitive write set contains no pending-text store',
                    witness='writes %s via %s' % (sorted(w), ' -> '.join(chain)) if w else None, tag='frame')

    # ------------------------------------------------------------------ D4
    with R.clause('D4', 'ONCE', floor=3, desc='every chunk is appended to the pending text exactly once, before the search') as c:
        f = repo.func('expect:Expecter.new_data')
        g = f.cfg
        c.need(f.params[1:2], 'new_data has no data parameter')
        data = f.params[1]

        def is_append(n):
            for call in node_calls(n):
                sc = stores.store_call(call, f)
                if sc == ('_before', 'write') and call.args and is_name(call.args[0], data):
                    return True
            return False
        mn, mx = g.occurrences(is_append)
        c.check(mn == 1 and mx == 1, f, None,
                'spawn._before.write(%s) occurs exactly once on every path to a normal exit' % data,
                witness='min=%s max=%s occurrences over all entry->exit paths' % (mn, mx), tag='append-once')
        appends = set(n for n in g.nodes if is_append(n))
        for n, call in cfg_nodes_with_call(f, lambda k: callee_last(k) == 'do_search'):
            ok, p = g.dominated_by(n, appends)
            c.check(ok, f, call, 'the append to _before dominates the search',
                    witness='path without append: ' + g.describe_path(p) if p else None, tag='append-before-search')
        # the data parameter is not rebound before the append
        rebound = [n for n in g.nodes if n.kind == 'stmt' and data in
                   [t.id for t in assigned_targets(n.ast) if isinstance(t, ast.Name)]]
        c.check(not rebound, f, rebound[0].ast if rebound else None,
                'the data parameter is never rebound inside new_data', tag='param-stable')
        # asyncio protocol
        for q in ('_async_w_await:PatternWaiter.data_received',):
            f = repo.func(q)
            check_data_received(c, f)

    # ------------------------------------------------------------------ D5
    with R.clause('D5', 'FLOW', floor=2, desc='each value read in the expect loop reaches new_data exactly once') as c:
        f = repo.func('expect:Expecter.expect_loop')
        g = f.cfg
        reads = [(n, call) for n, call in cfg_nodes_with_call(f, lambda k: callee_last(k) == 'read_nonblocking')]
        c.need(len(reads) == 1, 'expected one read_nonblocking call in Expecter.expect_loop, found %d' % len(reads))
        rn, rcall = reads[0]
        c.need(isinstance(rn.ast, ast.Assign) and len(rn.ast.targets) == 1 and isinstance(rn.ast.targets[0], ast.Name)
               and rn.ast.value is rcall,
               'the read result is not assigned to a plain local: %s' % norm(rn.ast))
        var = rn.ast.targets[0].id
        feeds = [n for n, call in cfg_nodes_with_call(
            f, lambda k: callee_last(k) == 'new_data' and k.args and is_name(k.args[0], var))]
        c.need(feeds, 'no new_data(%s) call found' % var)
        ok, p = g.must_pass(rn, {rn, g.exit}, set(feeds), skip_labels=('exc', 'raise'))
        c.check(ok, f, rcall, 'every non-exceptional path from the read to the next read / return passes '
                'through new_data(%s)' % var, witness='path: ' + g.describe_path(p) if p else None, tag='read-reaches-search')
        redefs = [n for n in g.nodes if n is not rn and n.kind in ('stmt', 'for') and var in
                  [t.id for t in assigned_targets(n.ast) if isinstance(t, ast.Name)]]
        c.check(not redefs, f, redefs[0].ast if redefs else None,
                '%s is not modified between the read and new_data' % var, tag='no-redef')
        for fn in feeds:
            ok2, p2 = g.must_pass(fn, {fn}, {rn}, skip_labels=('exc',))
            c.check(ok2, f, fn.ast, 'a chunk is never fed to the search twice (a new read separates two new_data calls)',
                    witness='path: ' + g.describe_path(p2) if p2 else None, tag='no-double-feed')

    # ------------------------------------------------------------------ D6
    with R.clause('D6', 'ALG', floor=6, desc='match branch: before / after / rest tile the pending text') as c:
        check_match_tiling(c, repo)

    # ------------------------------------------------------------------ D7
    with R.clause('D7', 'LINEAR', floor=3, desc='_before is never rebound without its content having been captured') as c:
        for f in writers:
            g = f.cfg
            rb = [n for n in g.nodes if n in g.live_nodes() and n.kind == 'stmt'
                  and stmt_assigns_attr(n.ast, '_before') is not None]
            for n in rb:
                if f.name in ('__init__', '_set_buffer'):
                    c.ok(f, n.ast, 'constructor / explicit replacement by the user', kind='ast')
                    continue
                caps = capture_nodes(f)
                ok, p = g.dominated_by(n, caps)
                c.check(ok and caps, f, n.ast,
                        'the old content of _before is captured (into .before or written to stdout) on every '
                        'path before the rebind', witness='path: ' + g.describe_path(p) if p else 'no capture found')

    # ------------------------------------------------------------------ D9
    with R.clause('D9', 'OWN', floor=4, desc='read/readline/readlines/__iter__ reach the stream only through expect()') as c:
        for name in READERS:
            f = repo.func('spawnbase:SpawnBase.' + name)
            # decided: a reader that talks to the transport or runs the search machinery itself, or that hands out / rewrites the SEARCH buffer
            # (self.buffer / _buffer may have been trimmed to the search window: it is not the pending text) bypasses expect().
            hard = []
            for call in calls_in(f.node):
                d = dotted(call.func) or ''
                sc = stores.store_call(call, f)
                if callee_last(call) in ('read_nonblocking', 'new_data', 'existing_data', 'do_search', 'expect_loop') or d in ('os.read',) or (sc and sc[0] == '_buffer'):
                    hard.append(call)
            for n in iter_nodes(f.node):
                if isinstance(n, ast.Attribute) and isinstance(n.ctx, ast.Load) and n.attr in ('buffer', '_buffer') and isinstance(n.value, ast.Name) and n.value.id == 'self':
                    hard.append(n)
            c.check(not hard, f, hard[0] if hard else None,
                    'no direct access to the transport, the search machinery or the (possibly trimmed) search buffer', witness=norm(hard[0])[:80] if hard else None,
                    tag='through-expect', kind='ast')
            # not decidable here: a reader with a "fast path" of its own that works on the untrimmed pending text and sets the results itself may
            # or may not do exactly what expect() would have done -- that is a question about values, not about the shape of the code
            soft = []
            for call in calls_in(f.node):
                sc = stores.store_call(call, f)
                if sc and sc[0] != '_buffer':
                    soft.append(call)
            for n in iter_nodes(f.node):
                if stores.store_attr(n):
                    soft.append(n)
                if isinstance(n, (ast.Assign, ast.AugAssign, ast.AnnAssign, ast.Delete)):
                    tgs = assigned_targets(n) if not isinstance(n, ast.Delete) else n.targets
                    for t_ in tgs:
                        if isinstance(t_, ast.Attribute) and t_.attr in ('before', 'after', 'match', 'match_index', 'buffer'):
                            soft.append(n)
            g_ = f.cfg
            via = set(n_ for n_, k_ in cfg_nodes_with_call(f, lambda k_: callee_last(k_) in ('expect', 'expect_exact', 'expect_list') + tuple(READERS)
                                                           and isinstance(k_.func, ast.Attribute) and isinstance(k_.func.value, ast.Name) and k_.func.value.id == 'self'))
            for r_ in returns(f):
                v_ = r_.ast.value
                empty = v_ is None or isinstance(v_, ast.Constant) or (isinstance(v_, ast.Name) and v_.id == 'self') or \
                    (isinstance(v_, ast.Call) and norm(v_.func) == 'self.string_type' and not v_.args) or \
                    (isinstance(v_, ast.Call) and norm(v_.func) == 'iter' and v_.args and isinstance(v_.args[0], ast.Attribute)
                     and v_.args[0].attr in READERS and isinstance(v_.args[0].value, ast.Name) and v_.args[0].value.id == 'self')
                if not (empty or r_ in via or (via and g_.dominated_by(r_, via)[0])):
                    soft.append(r_.ast)
            if not hard:
                c.need(not soft, '%s: the reader handles the pending text / the results itself (%s): whether that equals what expect() would do cannot be decided here'
                       % (f.qual, norm(soft[0])[:60] if soft else ''))
                c.ok(f, None, 'what the reader returns comes out of an expect() call (or is empty); results and pending text are left to the Expecter', kind='path', tag='returns-through-expect')
        for cls in repo.subclasses('SpawnBase'):
            for name in READERS:
                if cls.name != 'SpawnBase' and name in cls.methods:
                    f = cls.methods[name]
                    forb = [call for call in calls_in(f.node)
                            if callee_last(call) in ('read_nonblocking',) or stores.store_call(call, f)]
                    c.check(not forb, f, forb[0] if forb else None,
                            'overriding reader does not bypass expect()', tag='through-expect', kind='ast')

    # ------------------------------------------------------------------ D10
    with R.clause('D10', 'IDX', floor=7, desc='file-like readers hand back the attribute their index means') as c:
        check_readers(c, repo)


# ----------------------------------------------------------------------------

def check_data_received(c, f):
    g = f.cfg
    # s = <decoder>.decode(data...)
    dec = None
    for n in g.nodes:
        if n.kind == 'stmt' and isinstance(n.ast, ast.Assign) and isinstance(n.ast.value, ast.Call) \
                and callee_last(n.ast.value) == 'decode' and len(n.ast.targets) == 1 \
                and isinstance(n.ast.targets[0], ast.Name):
            dec = n
    c.need(dec is not None, 'data_received: decode assignment not found')
    s = dec.ast.targets[0].id

    def is_feed(n):
        return any(callee_last(k) == 'new_data' and k.args and is_name(k.args[0], s) for k in node_calls(n))

    def is_wr(store):
        def p(n):
            return any(stores.store_call(k, f) == (store, 'write') and k.args and is_name(k.args[0], s)
                       for k in node_calls(n))
        return p
    # every path: (feed once and no direct writes) or (both writes once and no feed)
    def weight(n):
        return is_feed(n) or is_wr('_before')(n)
    mn, mx = g.occurrences(weight, start=dec)
    c.check(mn == 1 and mx == 1, f, dec.ast,
            'after decoding, every path appends the text to the pending store exactly once '
            '(new_data(%s) or _before.write(%s))' % (s, s), witness='min=%s max=%s' % (mn, mx), tag='async-append-once')
    mnb, mxb = g.occurrences(lambda n: is_feed(n) or is_wr('_buffer')(n), start=dec)
    c.check(mnb == 1 and mxb == 1, f, dec.ast,
            'and to the search buffer exactly once', witness='min=%s max=%s' % (mnb, mxb), tag='async-append-once-buffer')


def capture_nodes(f):
    """CFG nodes after which the content of _before has been handed out."""
    g = f.cfg
    caps = set()
    local_src = {}
    for n in g.nodes:
        if n.ast is None or n.kind != 'stmt':
            continue
        has_get = any(stores.store_call(k, f) in (('_before', 'getvalue'), ('_before', 'read')) for k in node_calls(n))          # (how MUCH of it is handed out is D6's question)
        if has_get:
            if stmt_assigns_attr(n.ast, 'before') is not None:
                caps.add(n)
            elif isinstance(n.ast, ast.Assign) and len(n.ast.targets) == 1 and isinstance(n.ast.targets[0], ast.Name):
                local_src[n.ast.targets[0].id] = n
            elif any(callee_last(k) in ('write_to_stdout',) for k in node_calls(n)):
                caps.add(n)
    for n in g.nodes:
        if n.ast is None or n.kind != 'stmt':
            continue
        if stmt_assigns_attr(n.ast, 'before') is not None or \
                any(callee_last(k) == 'write_to_stdout' for k in node_calls(n)):
            names = set(x.id for x in iter_nodes(n.ast) if isinstance(x, ast.Name))
            for v, sn in local_src.items():
                if v in names:
                    ok, _ = g.dominated_by(n, {sn})
                    if ok:
                        caps.add(n)
    return caps


def check_match_tiling(c, repo):
    f = repo.func('expect:Expecter.do_search')
    g = f.cfg
    # the search call and its result variable
    sn = [(n, k) for n, k in cfg_nodes_with_call(f, lambda k: callee_last(k) == 'search')]
    c.need(len(sn) == 1 and isinstance(sn[0][0].ast, ast.Assign), 'do_search: `index = searcher.search(...)` not found')
    idx = sn[0][0].ast.targets[0].id
    scall = sn[0][1]
    c.need(scall.args, 'search() call without arguments')
    win = scall.args[0]
    c.need(isinstance(win, ast.Name), 'search() is not given a plain window variable')
    W = win.id
    tests = found_tests(g, idx)
    c.need(len(tests) == 1, 'do_search: test of %s against the not-found value not found' % idx)
    c.check(tests[0][1] != 'wrong', f, tests[0][0].ast, 'a match is any index >= 0 (index 0, the first pattern of the list, included)',
            witness=norm(tests[0][0].ast), kind='alg', tag='match-test')
    if tests[0][1] == 'wrong':
        return
    region = guard_region(g, tests[0][0], tests[0][1])
    al = aliases_of(f)
    searcher = None
    # canonical names
    def ct(e):
        return ctext(e, f)
    start_t, end_t = None, None
    # locate the assignments in the match region
    asg = {}
    for n in sorted(region, key=lambda n: n.id):
        if n.kind != 'stmt':
            continue
        for attr in ('before', 'after', 'match', 'match_index'):
            if stmt_assigns_attr(n.ast, attr) is not None:
                asg.setdefault(attr, []).append(n)
    for attr in ('before', 'after'):
        c.need(len(asg.get(attr, [])) == 1, 'match branch: expected exactly one assignment to .%s' % attr)
    # ---- after = window[start:end]
    an = asg['after'][0]
    av = an.ast.value
    sb = slice_bounds(av)
    c.need(sb is not None and is_name(av.value, W), 'after is not a slice of the searched window: %s' % norm(an.ast))
    lo, hi, step = sb
    c.need(lo is not None and hi is not None and step is None, 'after slice needs both bounds: %s' % norm(an.ast))
    lo_t, hi_t = ct(lo), ct(hi)
    c.check(lo_t.endswith('.start') and hi_t.endswith('.end') and lo_t[:-6] == hi_t[:-4]
            and lo_t.startswith('self.searcher'), f, an.ast,
            'after == window[searcher.start : searcher.end] (the matched span, of the searcher that searched)',
            witness='bounds are %s : %s' % (lo_t, hi_t), kind='alg', tag='after-span')
    start_l, end_l = lin(lo, f), lin(hi, f)
    # ---- rest: both stores := fresh; write(window[end:])
    for store in ('_buffer', '_before'):
        ws = []
        for n in sorted(region, key=lambda n: n.id):
            for k in node_calls(n):
                if stores.store_call(k, f) == (store, 'write'):
                    ws.append((n, k, k.args[0], False))
            # `<spawn>.buffer = E`: the property setter re-creates BOTH stores and writes E into each (its body is checked by D1/D8)
            if n.kind == 'stmt' and isinstance(n.ast, ast.Assign) and len(n.ast.targets) == 1 and isinstance(n.ast.targets[0], ast.Attribute) \
                    and n.ast.targets[0].attr == 'buffer' and ct(n.ast.targets[0].value) == 'self.spawn':
                ws.append((n, n.ast, n.ast.value, True))
        c.need(len(ws) == 1, 'match branch: expected one write to %s, found %d' % (store, len(ws)))
        n, k, arg, via_setter = ws[0]
        for _ in range(3):          # a single-assignment local holding the rest (`pending = window[searcher.end:]`) is looked through
            if isinstance(arg, ast.Name) and arg.id in al.single_assign and arg.id != W:
                arg = al.single_assign[arg.id]
        sb2 = slice_bounds(arg)
        ok = sb2 is not None and is_name(arg.value, W) and sb2[1] is None and sb2[2] is None and sb2[0] is not None \
            and lin(sb2[0], f) == end_l
        c.check(ok, f, k, '%s receives window[searcher.end:] (rest starts exactly where after ends, runs to the end)' % store,
                witness='written: %s' % norm(arg), kind='alg', tag='rest-' + store)
        # preceded by a fresh rebind in the region
        rb = [m for m in region if m.kind == 'stmt' and stmt_assigns_attr(m.ast, store) is not None
              and stores.is_fresh_store(m.ast.value)]
        okd = via_setter or (bool(rb) and g.dominated_by(n, set(rb))[0])
        c.check(okd, f, k, '%s is re-created empty before the rest is written' % store, kind='path', tag='fresh-' + store)
    # ---- before = pending[0 : P - (W - start)]
    bn = asg['before'][0]
    bv = bn.ast.value
    sb3 = slice_bounds(bv)
    if sb3 is None and isinstance(bv, ast.Call) and stores.store_call(bv, f) == ('_before', 'read') and len(bv.args) == 1:
        # before = <_before>.read(n) after <_before>.seek(0): a prefix of the pending text of length n.  n is evaluated (sa/minieval.py) for
        # every combination of small lengths the caller's contract allows and compared with len(pending) - len(window) + searcher.start
        from ..linear import Expander, clone
        from ..minieval import Evaluator
        seeks = [m for m in region if m.kind == 'stmt' and any(stores.store_call(k, f) == ('_before', 'seek') and k.args and is_const(k.args[0], 0) for k in node_calls(m))]
        c.check(bool(seeks) and g.dominated_by(bn, set(seeks))[0], f, bn.ast, 'the pending text is read from its beginning (seek(0) before the read)', kind='path', tag='before-lo')
        n_e = Expander(f, stale_ok=True).visit(clone(bv.args[0]))
        fresh = f.params[2]
        badpt, npts = None, 0
        for P_ in range(0, 6):
            for Wl_ in range(0, P_ + 1):
                for fl_ in range(0, Wl_ + 1):
                    for st_ in range(0, Wl_ + 1):
                        env = {W: 'x' * Wl_, fresh: fl_, 'self.searcher.start': st_, 'self.searcher.end': st_}
                        ev = Evaluator(env=env, hooks={'self.spawn._before.tell': lambda a_, e_, P_=P_: P_,
                                                       'self.spawn._before.getvalue': lambda a_, e_, P_=P_: 'p' * P_}, what='do_search: length of before')
                        got_n = ev.ev(n_e)
                        npts += 1
                        if got_n != P_ - Wl_ + st_ and badpt is None:
                            badpt = (P_, Wl_, fl_, st_, got_n, P_ - Wl_ + st_)
        c.check(badpt is None, f, bn.ast, 'before is the pending text up to the start of the match: its length is len(pending) - len(window) + searcher.start for every '
                'combination of small lengths (%d evaluated)' % npts,
                witness=None if badpt is None else 'len(pending)=%d len(window)=%d freshlen=%d searcher.start=%d: %d characters are handed out, expected %d' % badpt,
                kind='alg', tag='before-hi')
        sb3 = 'evaluated'
    c.need(sb3 is not None, 'before is not a slice: %s' % norm(bn.ast))
    if sb3 != 'evaluated':
        base_t = ct(bv.value)
        c.check(base_t.endswith('._before.getvalue()'), f, bn.ast,
                'before is cut from the untrimmed pending text (_before.getvalue())', witness='base is %s' % base_t,
                kind='alg', tag='before-base')
        lo3, hi3, st3 = sb3
        c.check((lo3 is None or is_const(lo3, 0)) and st3 is None, f, bn.ast, 'before starts at offset 0', kind='alg', tag='before-lo')
        c.need(hi3 is not None, 'before slice has no upper bound')
        P = Lin(0, {'len(%s)' % base_t: 1})
        Wl = Lin(0, {'len(%s)' % W: 1})
        want = P - Wl + start_l
        got = lin(hi3, f)
        c.need(got is not None, 'upper bound of before is not linear: %s' % norm(hi3))
        if got == want:
            c.ok(f, bn.ast, 'before.hi == len(pending) - len(window) + searcher.start  [%r]' % got, kind='alg', tag='before-hi')
        elif got == (want - P):
            # negative form -(len(window) - start): equals the wanted bound only if it is non-zero
            mag = Wl - start_l
            c.bad(f, bn.ast,
                  'before is pending[0:-(len(window)-searcher.start)]: for a match that starts at the end of the '
                  'window (zero-width, e.g. `$`) the bound is -0 == 0 and before becomes empty -- the pending text is lost',
                  witness='magnitude %r has lower bound 0 (searcher.start <= len(window)); x[0:-0] == ""' % mag,
                  kind='alg', tag='before-hi-negzero')
        else:
            c.bad(f, bn.ast, 'before.hi must equal len(pending) - len(window) + searcher.start',
                  witness='found %r, wanted %r' % (got, want), kind='alg', tag='before-hi')
    # before is computed from _before before _before is rebound
    rb = [m for m in region if m.kind == 'stmt' and (stmt_assigns_attr(m.ast, '_before') is not None or
                                                     (isinstance(m.ast, ast.Assign) and len(m.ast.targets) == 1 and isinstance(m.ast.targets[0], ast.Attribute)
                                                      and m.ast.targets[0].attr == 'buffer' and ct(m.ast.targets[0].value) == 'self.spawn'))]
    src_nodes = [m for m in g.nodes if m.kind == 'stmt' and any(stores.store_call(k, f) == ('_before', 'getvalue')
                                                                for k in node_calls(m))]
    for m in rb:
        bad = [s for s in src_nodes if s in g.reachable(m, skip_labels=('exc',), include_start=False) and s in region]
        c.check(not bad, f, m.ast, 'the pending text is read before _before is rebound (not after)',
                witness='getvalue() at L%d follows the rebind' % bad[0].lineno if bad else None, tag='before-then-rebind')
    # match / match_index copies (shared with C02-D4, checked there in detail)
    # trimming branch: kept suffix is a lower-bound-only slice of the searched window
    for n in g.nodes:
        if n in region or n.kind != 'stmt':
            continue
        for k in node_calls(n):
            if stores.store_call(k, f) == ('_buffer', 'write'):
                arg = k.args[0]
                sbb = slice_bounds(arg)
                ok = sbb is not None and is_name(arg.value, W) and sbb[1] is None and sbb[2] is None
                c.check(ok, f, k, 'after a miss the search buffer keeps a suffix (lower-bound-only slice) of the window',
                        witness=norm(arg), kind='alg', tag='trim-suffix')


def check_readers(c, repo):
    # readline
    f = repo.func('spawnbase:SpawnBase.readline')
    g = f.cfg
    ex = [(n, k) for n, k in cfg_nodes_with_call(f, lambda k: callee_last(k) == 'expect')]
    c.need(len(ex) == 1 and isinstance(ex[0][0].ast, ast.Assign), 'readline: index = self.expect([...]) not found')
    n0, k0 = ex[0]
    idx = n0.ast.targets[0].id
    c.need(k0.args and isinstance(k0.args[0], ast.List) and len(k0.args[0].elts) == 2, 'readline: pattern list literal not found')
    e0, e1 = k0.args[0].elts
    c.check(norm(e0) == 'self.crlf' and norm(e1) == 'self.delimiter', f, k0,
            'readline waits for [line separator, delimiter] in that order', witness=norm(k0.args[0]), kind='ast', tag='readline-list')
    tests = relation_tests(g, 'eq', lambda e: is_name(e, idx), lambda e: is_const(e, 0))
    c.need(len(tests) == 1, 'readline: test of %s against 0 not found' % idx)
    tr = guard_region(g, tests[0][0], tests[0][1])
    rets = [n for n in returns(f) if g.path(n0, n, skip_labels=('exc',)) is not None]
    for n in rets:
        v = n.ast.value
        if n in tr:
            ok = isinstance(v, ast.BinOp) and isinstance(v.op, ast.Add) and norm(v.left) == 'self.before' \
                and norm(v.right) == norm(e0)
            c.check(ok, f, n.ast, 'index 0 (separator matched): returns before + that separator', witness=norm(v), tag='readline-0')
        else:
            c.check(norm(v) == 'self.before', f, n.ast, 'other index (delimiter/EOF): returns before only',
                    witness=norm(v), tag='readline-else')
    c.need(len(rets) >= 2, 'readline: expected two returns after expect')
    # read
    f = repo.func('spawnbase:SpawnBase.read')
    g = f.cfg
    exs = cfg_nodes_with_call(f, lambda k: callee_last(k) == 'expect')
    c.need(len(exs) == 2, 'read: expected two expect() calls, found %d' % len(exs))
    for n, k in exs:
        if isinstance(n.ast, ast.Assign):
            idx = n.ast.targets[0].id
            c.need(k.args and isinstance(k.args[0], ast.List) and len(k.args[0].elts) == 2, 'read: pattern list literal not found')
            e0, e1 = k.args[0].elts
            c.check(isinstance(e0, ast.Name) and norm(e1) == 'self.delimiter', f, k,
                    'read(n) waits for [.{n} pattern, delimiter]', witness=norm(k.args[0]), kind='ast', tag='read-list')
            tests = relation_tests(g, 'eq', lambda e: is_name(e, idx), lambda e: is_const(e, 0))
            c.need(len(tests) == 1, 'read: test of %s against 0 not found' % idx)
            tr = guard_region(g, tests[0][0], tests[0][1])
            rets = [m for m in returns(f) if g.path(n, m, skip_labels=('exc',)) is not None]
            for m in rets:
                v = m.ast.value
                if m in tr:
                    c.check(norm(v) == 'self.after', f, m.ast, 'index 0 (.{n} matched): returns after (the n characters)',
                            witness=norm(v), tag='read-0')
                else:
                    c.check(norm(v) == 'self.before', f, m.ast, 'delimiter/EOF: returns before', witness=norm(v), tag='read-else')
        else:
            # read(-1): expect(delimiter); return before
            c.check(k.args and norm(k.args[0]) == 'self.delimiter', f, k, 'read(-1) waits for the delimiter',
                    witness=norm(k), kind='ast', tag='readall-arg')
            rets = [m for m in returns(f) if g.path(n, m, skip_labels=('exc',)) is not None
                    and all(g.path(x, m, skip_labels=('exc',)) is None or x is n for x, _ in exs)]
            nxt = [m for m in returns(f) if n in [p for p, l in m.pred]]
            c.check(bool(nxt) and all(norm(m.ast.value) == 'self.before' for m in nxt), f, k,
                    'read(-1) returns before', tag='readall-ret')
    # size conventions: 0 -> empty string without touching the stream; negative -> everything up to the delimiter
    for name in ('read', 'readline'):
        f = repo.func('spawnbase:SpawnBase.' + name)
        g = f.cfg
        sz = f.params[1]
        t0 = [t for t in g.nodes if t.kind == 'test' and norm(t.ast) == '%s == 0' % sz]
        r0 = [r for t in t0 for r in guard_region(g, t, 'true') if r.kind == 'stmt' and isinstance(r.ast, ast.Return) and norm(r.ast.value) == 'self.string_type()']
        exs = [n for n, k in cfg_nodes_with_call(f, lambda k: callee_last(k) == 'expect')]
        ok = len(t0) == 1 and len(r0) == 1 and all(n not in guard_region(g, t0[0], 'true') for n in exs) and all(g.dominated_by(n, {t0[0]})[0] for n in exs)
        c.check(ok, f, t0[0].ast if t0 else None, '%s(0) returns an empty string of the API type without consuming anything; any other size goes on' % name,
                witness=norm(t0[0].ast) if t0 else 'test missing', tag=name + '-size0')
    f = repo.func('spawnbase:SpawnBase.read')
    g = f.cfg
    tn = [t for t in g.nodes if t.kind == 'test' and norm(t.ast) == '%s < 0' % f.params[1]]
    allk = [n for n, k in cfg_nodes_with_call(f, lambda k: callee_last(k) == 'expect' and k.args and norm(k.args[0]) == 'self.delimiter')]
    ok = len(tn) == 1 and len(allk) == 1 and allk[0] in guard_region(g, tn[0], 'true')
    c.check(ok, f, tn[0].ast if tn else None, 'read(size < 0) reads everything up to the delimiter; size > 0 uses the .{size} pattern', witness=norm(tn[0].ast) if tn else 'test missing', tag='read-negative')
    # readlines
    f = repo.func('spawnbase:SpawnBase.readlines')
    g = f.cfg
    rl = cfg_nodes_with_call(f, lambda k: callee_last(k) == 'readline')
    c.need(rl and all(isinstance(n.ast, ast.Assign) and isinstance(n.ast.targets[0], ast.Name) for n, k in rl), 'readlines: line = self.readline() not found')
    vars_ = set(n.ast.targets[0].id for n, k in rl)
    c.need(len(vars_) == 1, 'readlines: the lines are read into more than one variable')
    var = list(vars_)[0]
    RL = set(n for n, k in rl)
    apps = [n for n, k in cfg_nodes_with_call(f, lambda k: callee_last(k) == 'append' and k.args and is_name(k.args[0], var))]
    c.need(apps, 'readlines: append(line) not found')
    APP = set(apps)
    rets_ = set(returns(f))
    # stated on feasible paths, so `while True: ... if not line: break`, a primed `while line:` loop and `for line in iter(...)` forms agree
    for ln in sorted(RL, key=lambda n: n.id):
        p = g.path(ln, RL | rets_ | {g.exit}, avoid=APP, skip_labels=('exc',), include_start=False, assume=[(var, True, {var})])
        c.check(p is None, f, ln.ast, 'every non-empty line read is appended before the next readline() / the return',
                witness='path: ' + g.describe_path(p) if p else None, tag='readlines-append')
        p3 = g.path(ln, APP | RL, skip_labels=('exc',), include_start=False, assume=[(var, False, {var})])
        c.check(p3 is None, f, ln.ast, 'readlines stops exactly when a line is empty (EOF): the empty line is not appended and nothing more is read',
                witness='path: ' + g.describe_path(p3) if p3 else None, tag='readlines-stop')
    for an in apps:
        ok2, p2 = g.must_pass(an, APP, RL, skip_labels=('exc',))
        c.check(ok2, f, an.ast, 'no line is appended twice', tag='readlines-once')
    rr = [r for r in returns(f)]
    inits = [n for n in g.nodes if n.kind == 'stmt' and isinstance(n.ast, ast.Assign) and norm(n.ast.value) == '[]']
    okr = len(rr) == 1 and len(inits) == 1 and is_name(rr[0].ast.value, inits[0].ast.targets[0].id) and \
        all(is_name(k.func.value, inits[0].ast.targets[0].id) for n, k in cfg_nodes_with_call(f, lambda k: callee_last(k) == 'append'))
    c.check(okr, f, rr[0].ast if rr else None, 'the list that collected the lines is what is returned', tag='readlines-return')


# ----------------------------------------------------------------------------
# sensitivity corpus (applied in memory by the thorough tier)
MUTANTS = [
    ('drop-before-write', 'expect', "        spawn._before.write(data)\n        if not self.searchwindowsize:", "        if not self.searchwindowsize:", 'D4'),
    ('dup-before-write', 'expect', "        spawn._before.write(data)\n        if not self.searchwindowsize:", "        spawn._before.write(data)\n        spawn._before.write(data)\n        if not self.searchwindowsize:", 'D4'),
    ('drop-buffer-write-lookback', 'expect', "                old_len = spawn._buffer.tell()\n                spawn._buffer.write(data)\n", "                old_len = spawn._buffer.tell()\n", 'D1'),
    ('drop-buffer-write-window', 'expect', "            else:\n                spawn._buffer.write(data)\n                new_len", "            else:\n                new_len", 'D1'),
    ('timeout-clears', 'expect', "        spawn.after = TIMEOUT\n", "        spawn.after = TIMEOUT\n        spawn._buffer = spawn.buffer_type()\n        spawn._before = spawn.buffer_type()\n", 'D3'),
    ('rest-from-start', 'expect', "            spawn._buffer.write(window[searcher.end:])", "            spawn._buffer.write(window[searcher.start:])", 'D6'),
    ('rest-before-from-start', 'expect', "            spawn._before.write(window[searcher.end:])", "            spawn._before.write(window[searcher.start:])", 'D6'),
    ('before-off-by-one', 'expect', "0:len(before) - (len(window) - searcher.start)]", "0:len(before) - (len(window) - searcher.start) - 1]", 'D6'),
    ('before-negzero', 'expect', "0:len(before) - (len(window) - searcher.start)]", "0:-(len(window) - searcher.start)]", 'D6'),
    ('after-swapped', 'expect', "window[searcher.start:searcher.end]", "window[searcher.end:searcher.start]", 'D6'),
    ('seek-no-read', 'expect', "                spawn._buffer.seek(max(0, old_len - self.lookback))\n                window = spawn._buffer.read()", "                spawn._buffer.seek(max(0, old_len - self.lookback))\n                window = spawn._buffer.getvalue()[-self.lookback:]", 'D2'),
    ('setter-one-sided', 'spawnbase', "        self._before = self.buffer_type()\n        self._before.write(value)\n", "", 'D1'),
    ('interact-one-sided', 'pty_spawn', "        self._buffer = self.buffer_type()\n        self._before = self.buffer_type()\n        mode", "        self._buffer = self.buffer_type()\n        mode", 'D8'),
    ('eof-keeps-before', 'expect', "        spawn._buffer = spawn.buffer_type()\n        spawn._before = spawn.buffer_type()\n        spawn.after = EOF", "        spawn._buffer = spawn.buffer_type()\n        spawn.after = EOF", 'D8'),
    ('incoming-dropped-when-short', 'expect', "                idx = self.new_data(incoming)\n", "                if len(incoming) > 1:\n                    idx = self.new_data(incoming)\n", 'D5'),
    ('async-done-drops-buffer', '_async_w_await', "            spawn._before.write(s)\n            spawn._buffer.write(s)\n", "            spawn._before.write(s)\n", 'D1'),
    ('async-done-drops-all', '_async_w_await', "            spawn._before.write(s)\n            spawn._buffer.write(s)\n            return", "            return", 'D4'),
    ('setter-appends-before', 'spawnbase', "        self._before = self.buffer_type()\n        self._before.write(value)\n", "        self._before.write(value)\n", 'D8'),
    ('setter-aliases-stores', 'spawnbase', "        self._buffer = self.buffer_type()\n        self._buffer.write(value)\n        self._before = self.buffer_type()\n        self._before.write(value)\n", "        self._buffer = self._before = self.buffer_type()\n        self._buffer.write(value)\n", 'D1'),
    ('eof-aliases-stores', 'expect', "        spawn._buffer = spawn.buffer_type()\n        spawn._before = spawn.buffer_type()\n        spawn.after = EOF", "        spawn._buffer = spawn.buffer_type()\n        spawn._before = spawn._buffer\n        spawn.after = EOF", 'D1'),
    ('readline-drops-crlf', 'spawnbase', "            return self.before + self.crlf", "            return self.before", 'D10'),
    ('read-returns-before', 'spawnbase', "            return self.after\n", "            return self.before\n", 'D10'),
    ('window-not-suffix', 'expect', "                window = data[-self.searchwindowsize:]\n", "                window = data[:self.searchwindowsize]\n", 'D1'),
    ('rebuild-from-buffer', 'expect', "                window = spawn._before.getvalue()\n                spawn._buffer.write(window)", "                window = spawn._before.getvalue()\n                spawn._buffer.write(window[:-1])", 'D1'),
    ('readlines-stop-inverted', 'spawnbase', "            if not line:\n                break", "            if line:\n                break", 'D10'),
    ('read-size0-inverted', 'spawnbase', "        if size == 0:\n            return self.string_type()\n        if size < 0:", "        if size != 0:\n            return self.string_type()\n        if size < 0:", 'D10'),
    ('read-le0', 'spawnbase', "        if size < 0:\n            # delimiter default is EOF", "        if size <= 1:\n            # delimiter default is EOF", 'D10'),
    ('readlines-skip', 'spawnbase', "            lines.append(line)\n", "            if len(line) > 2:\n                lines.append(line)\n", 'D10'),
    ('before-after-reset', 'expect', "            before = spawn._before.getvalue()\n            spawn.before = before[\n                0:len(before) - (len(window) - searcher.start)]\n            spawn._before = spawn.buffer_type()\n            spawn._before.write(window[searcher.end:])\n",
     "            spawn._before = spawn.buffer_type()\n            spawn._before.write(window[searcher.end:])\n            before = spawn._before.getvalue()\n            spawn.before = before[\n                0:len(before) - (len(window) - searcher.start)]\n", 'D6'),
]

PRESERVING = [
    ('rest-via-setter', 'expect', '            spawn._buffer = spawn.buffer_type()\n            spawn._buffer.write(window[searcher.end:])\n            before = spawn._before.getvalue()\n            spawn.before = before[\n                0:len(before) - (len(window) - searcher.start)]\n            spawn._before = spawn.buffer_type()\n            spawn._before.write(window[searcher.end:])\n            spawn.after = window[searcher.start:searcher.end]\n', '            before = spawn._before.getvalue()\n            spawn.before = before[\n                0:len(before) - (len(window) - searcher.start)]\n            spawn.after = window[searcher.start:searcher.end]\n            spawn.buffer = window[searcher.end:]\n'),
    ('clamp-min', 'expect', '        if freshlen > len(window):\n            freshlen = len(window)\n', '        freshlen = min(freshlen, len(window))\n'),
    ('rename-local', 'expect', "        freshlen = len(data)\n        spawn._before.write(data)", "        freshlen = len(data)\n        pending = spawn._before\n        pending.write(data)"),
    ('temp-rest', 'expect', "            spawn._buffer = spawn.buffer_type()\n            spawn._buffer.write(window[searcher.end:])\n            before = spawn._before.getvalue()",
     "            spawn._buffer = spawn.buffer_type()\n            spawn._buffer.write(window[searcher.end:])\n            before = spawn._before.getvalue()\n            unused_len = len(before)"),
    ('reorder-after', 'expect', "            spawn.after = window[searcher.start:searcher.end]\n            spawn.match = searcher.match\n", "            spawn.match = searcher.match\n            spawn.after = window[searcher.start:searcher.end]\n"),
    ('readline-else-flat', 'spawnbase', "        if index == 0:\n            return self.before + self.crlf\n        else:\n            return self.before", "        if index == 0:\n            return self.before + self.crlf\n        return self.before"),
]

LEVEL_TEXT = ("Static analysis of named structural clauses (necessary conditions) of stream conservation, exhaustive over "
              "the CFG paths of every function that writes the pending-text stores: suffix invariant between the two stores, "
              "seek/read pairing, no one-sided clear, append-once and read->search flow, algebraic tiling of the match branch "
              "(before/after/rest), TIMEOUT writes nothing, readers built on expect(). It decides those clauses for all paths "
              "of the current source, not the stream equality over whole histories.")
LEVEL_NOTE = ("Trusted: Python slice and io.BytesIO/StringIO semantics as listed in DESIGN appendix D; the analyser itself "
              "(validated by an in-memory mutation corpus in the thorough tier). Not decided: searcher positions, "
              "concatenation equality over call histories, transports.")
TECHNIQUE = "AST/CFG typestate + linear slice algebra (static analysis)"

"""C20 Pattern forms."""
import ast
import re

from ..astx import (calls_in, dotted, norm, src, iter_nodes, assigned_targets, assigned_names,
                    const_value, is_const, parent_chain)
from ..lib import (call_arg, relation, truth, other, cmp_views, core, holds_region, conditions, found_test, found_tests, path_tests, entails_empty, paths_entail_empty, eval_conditions, relation_tests, atom_key, expand_condition, mode_mismatch_conditions, is_bytes_mode_text_guard, cfg_nodes_with_call, node_calls, returns, raises, raised_class, stmt_assigns_attr, callee_last,
                   is_name, node_roots, guard_region, compare_parts, find_test_nodes)
from ..lib import *      # noqa: F401,F403  (path-condition helpers)
from ..linear import ctext, clone
from ..loader import AnalysisError

EXPLANATION = (
    "Static analysis of how patterns are accepted: (D1) compile_pattern_list dispatches exhaustively -- text is coerced "
    "and compiled, EOF / TIMEOUT are kept as markers, a compiled regex goes through the type coercion, anything else "
    "ends in the TypeError helper (a no-return call); None gives an empty list and a single pattern is wrapped in a "
    "one-element list; expect_exact validates the same way (markers, text, else TypeError; non-iterables rejected); (D2) "
    "the compile flags are DOTALL, plus IGNORECASE exactly when ignorecase is set, and those flags are what re.compile "
    "receives; (D3) a regex that has to be re-compiled in the other string type keeps its own flags (every re.compile "
    "in _coerce_expect_re is given flags derived from r.flags) and the pattern text is converted with utf-8; (D4) "
    "validation is complete before the Expecter is built or anything can be read, and the validators themselves never "
    "touch the stream; (D5) text given to a bytes-mode object is converted with ascii, everything else is passed "
    "through; read(n) builds its pattern with DOTALL; a text pattern is compiled in this call with this call's flags (never a regex kept from an earlier call) and the argument of expect_exact is only wrapped or mapped through the validating helper before validation (D1). NOT decided: regex semantics.")
TRUSTED = ["re.compile(pattern, flags) semantics", "sa/ engine"]
ASSUMPTIONS = []
LEVEL_TEXT = ("Static analysis of named structural clauses: exhaustive type dispatch ending in a no-return TypeError helper, "
              "constant-propagated compile flags, flags forwarded by the regex coercion, validation-before-consumption order "
              "(dominators), coercion guards.")
LEVEL_NOTE = "Trusted: re module; analyser. Not decided: which occurrences a pattern selects."
TECHNIQUE = "branch-exhaustiveness / constant propagation / dominator checks on the AST+CFG (static analysis)"


def run(R):
    repo = R.repo
    with R.clause('D1', 'DISPATCH', floor=12, desc='pattern type dispatch is exhaustive and ends in TypeError for anything else') as c:
        check_cpl(c, repo)
        check_exact(c, repo)
    with R.clause('D2', 'FLAGS', floor=4, desc='DOTALL always, IGNORECASE iff ignorecase; those flags reach re.compile') as c:
        check_flags(c, repo)
    with R.clause('D3', 'FLOW', floor=4, desc='a re-compiled regex keeps its flags; pattern text converted with utf-8') as c:
        f = repo.func('spawnbase:SpawnBase._coerce_expect_re')
        g = f.cfg
        rp = f.params[1]
        ks = [k for k in calls_in(f.node) if dotted(k.func) == 're.compile']
        c.need(len(ks) in (1, 2), '_coerce_expect_re: expected one re.compile call per direction (or one shared by both)')

        def conversions(k):
            """how the pattern text handed to this re.compile was converted: the encode / decode calls it is, or a local it was bound to, is"""
            a0 = k.args[0] if k.args else None
            if isinstance(a0, ast.Call) and callee_last(a0) in ('encode', 'decode'):
                return [a0]
            if isinstance(a0, ast.Name):
                return [st.value for st in iter_nodes(f.node) if isinstance(st, ast.Assign) and a0.id in assigned_names(st)
                        and isinstance(st.value, ast.Call) and callee_last(st.value) in ('encode', 'decode')]
            return []
        def block_of(st):
            par = getattr(st, '_parent', None)
            for fld in ('body', 'orelse', 'finalbody'):
                v = getattr(par, fld, None)
                if isinstance(v, list) and any(x is st for x in v):
                    return v
            return []
        for k in ks:
            fl0 = k.args[1] if len(k.args) > 1 else next((kw.value for kw in k.keywords if kw.arg == 'flags'), None)
            convs = conversions(k)
            dirs = sorted(set(callee_last(x) for x in convs))
            c.need(dirs, '_coerce_expect_re: how the pattern text of %s is converted was not found' % norm(k)[:50])
            # the flags expression(s) with the direction each belongs to: written in the call, or bound to a local next to the conversion of the
            # pattern text (`p = p.encode(..); flags = r.flags & ~re.UNICODE` in one arm, `p = p.decode(..); flags = r.flags` in the other)
            cases = [(fl0, d_) for d_ in dirs]
            if isinstance(fl0, ast.Name) and isinstance(k.args[0], ast.Name):
                fb = [st for st in iter_nodes(f.node) if isinstance(st, ast.Assign) and fl0.id in assigned_names(st)]
                if fb:
                    cases = []
                    for b_ in fb:
                        here = [st.value for st in block_of(b_) if isinstance(st, ast.Assign) and k.args[0].id in assigned_names(st)
                                and isinstance(st.value, ast.Call) and callee_last(st.value) in ('encode', 'decode')]
                        c.need(len(here) == 1, '_coerce_expect_re: the flags bound at L%d cannot be paired with one conversion of the pattern text' % b_.lineno)
                        cases.append((b_.value, callee_last(here[0])))
            ok = fl0 is not None and all(any(norm(x) == '%s.flags' % rp for x in ast.walk(fl)) for fl, d_ in cases)
            c.check(ok, f, k, 'the re-compiled pattern is given the flags of the original (%s.flags)' % rp,
                    witness=norm(k), kind='flow', tag='flags-kept:' + norm(k.args[0])[:20])
            fl = fl0
            if ok:
                # bit-level truth table: every flag of the original survives; the UNICODE bit (illegal for bytes patterns) may only be CLEARED.
                # A compile shared by both directions must satisfy both rows.
                bad = None
                named = sorted(set(x.attr for x in ast.walk(fl) if isinstance(x, ast.Attribute) and isinstance(x.value, ast.Name) and x.value.id == 're'
                                   and x.attr not in ('UNICODE', 'U')))
                for fl, d_ in cases:
                    to_bytes = d_ == 'encode'
                    named = sorted(set(x.attr for x in ast.walk(fl) if isinstance(x, ast.Attribute) and isinstance(x.value, ast.Name) and x.value.id == 're'
                                       and x.attr not in ('UNICODE', 'U')))
                    for bit in ['UNICODE', 'OTHER'] + named:
                        for inp in (0, 1):
                            try:
                                out = flag_bit(fl, rp, bit, inp)
                            except ValueError as e:
                                raise AnalysisError('C20-D3: flag expression not understood: %s' % e)
                            if bit not in ('UNICODE',) and out != inp:
                                bad = 'a flag of the original pattern (%s) that is %s comes out %s' % (
                                    'any flag the expression does not name, e.g. re.ASCII' if bit == 'OTHER' else 're.' + bit, 'set' if inp else 'clear', 'set' if out else 'clear')
                            if bit == 'UNICODE' and to_bytes and out != 0:
                                bad = 'for a bytes pattern the UNICODE bit must end up clear, but an original with UNICODE %s yields it set (re.compile then raises ValueError, e.g. for a str pattern compiled with re.ASCII)' % ('set' if inp else 'clear')
                            if bit == 'UNICODE' and not to_bytes and out not in (inp, 0):
                                bad = 'the UNICODE bit is forced on for a str pattern (an original compiled with re.ASCII then fails to compile)'
                c.check(bad is None, f, k, 'bit by bit the new flags equal the original ones (UNICODE cleared, never toggled, when the target is a bytes pattern)',
                        witness=('%s: %s' % (norm(fl), bad)) if bad else None, kind='alg', tag='flags-bits:' + norm(k.args[0])[:20])
            okc = all(x.args and is_const(x.args[0], 'utf-8') for x in convs)
            c.check(okc, f, k, 'the pattern text is converted with utf-8', witness=', '.join(norm(x) for x in convs), kind='ast', tag='utf8:' + norm(k.args[0])[:20])
        rets = returns(f)
        last = [r for r in rets if is_name(r.ast.value, rp)]
        others = [r for r in rets if not is_name(r.ast.value, rp)]
        # a conversion remembered on the object (`return self._cache[key]`): whether the remembered pattern is the one THIS call would
        # have built depends on what the key captures and on what was stored under it -- a question about values, not decided here
        for r_ in others:
            v_ = r_.ast.value
            tx_ = ctext(v_, f, stale_ok=True) if v_ is not None else ''
            if v_ is not None and not (isinstance(v_, ast.Call) and dotted(v_.func) == 're.compile') and \
                    (re.search(r'\bself\.\w+\[', tx_) or re.search(r'\bself\.\w+\.(get|setdefault|pop)\(', tx_)):
                # ... except for what the key leaves out: the conversion is a function of the pattern text AND its flags, so a key without
                # the flags hands the first pattern's conversion to every later pattern with the same text
                km_ = re.search(r'\bself\.\w+(?:\[(.*)\]|\.(?:get|setdefault|pop)\((.*)\))\s*$', tx_)
                key_ = (km_.group(1) or km_.group(2) or '') if km_ else None
                if key_ is not None and ('%s.pattern' % rp) in key_ and ('%s.flags' % rp) not in key_ and rp not in re.split(r'\W+', key_.replace('%s.pattern' % rp, '')):
                    c.bad(f, r_.ast, 'a remembered conversion is looked up by the pattern text alone: a second compiled pattern with the same text and different '
                          'flags (re.IGNORECASE, re.DOTALL, ...) is given the first one\'s conversion and means something else', witness='key: ' + key_, kind='ast', tag='passthrough')
                    continue
                raise AnalysisError('_coerce_expect_re: a converted pattern is returned from a store on the object (%s): cannot be decided' % tx_[:60])
        remembered = any(r.ast.value is not None and not isinstance(r.ast.value, ast.Call) and re.search(r'\bself\.\w+(\[|\.(get|setdefault|pop)\()', ctext(r.ast.value, f, stale_ok=True))
                         for r in others)
        c.check(remembered or (len(last) >= 1 and all(isinstance(r.ast.value, ast.Call) and dotted(r.ast.value.func) == 're.compile' for r in others)), f, last[0].ast if last else None,
                'a pattern already of the right type is returned unchanged (every other return is the re-compiled pattern)', kind='ast', tag='passthrough')
        pvn = [n2.targets[0].id for n2 in iter_nodes(f.node) if isinstance(n2, ast.Assign) and isinstance(n2.targets[0], ast.Name) and norm(n2.value) == '%s.pattern' % rp]
        pv_ = pvn[0] if pvn else 'p'
        # what is returned for each combination of object mode and pattern type, found by walking the routine under that truth
        # assignment (flag locals such as `bytes_mode = self.encoding is None` and tests like `isinstance(p, bytes) == bytes_mode` included)
        A_ENC = atom_key(ast.parse('self.encoding is None', mode='eval').body)[0]
        A_BYT = atom_key(ast.parse('isinstance(%s, bytes)' % pv_, mode='eval').body)[0]
        table = {}
        for enc_none in (True, False):
            for is_bytes in (True, False):
                outs = set()
                for path in scenario_paths(g, {A_ENC: enc_none, A_BYT: is_bytes}):
                    last_ = [n for n in path if n.kind == 'stmt' and isinstance(n.ast, ast.Return)]
                    if not last_:
                        outs.add('falls off / raises')
                        continue
                    v_ = last_[-1].ast.value
                    if is_name(v_, rp):
                        outs.add('unchanged')
                    elif isinstance(v_, ast.Call) and dotted(v_.func) == 're.compile' and v_.args and isinstance(v_.args[0], ast.Call) \
                            and callee_last(v_.args[0]) in ('encode', 'decode'):
                        outs.add(callee_last(v_.args[0]))
                    elif isinstance(v_, ast.Call) and dotted(v_.func) == 're.compile' and v_.args and isinstance(v_.args[0], ast.Name):
                        # the text was converted into a local on the way: the last binding of that local on THIS path
                        bnd = [n_ for n_ in path if n_.kind == 'stmt' and isinstance(n_.ast, ast.Assign) and v_.args[0].id in assigned_names(n_.ast)]
                        lv = bnd[-1].ast.value if bnd else None
                        outs.add(callee_last(lv) if isinstance(lv, ast.Call) and callee_last(lv) in ('encode', 'decode') else 'compiled from an unconverted %s' % v_.args[0].id)
                    else:
                        outs.add(norm(v_)[:40] if v_ is not None else 'None')
                table[(enc_none, is_bytes)] = sorted(outs)
        want = {(True, True): ['unchanged'], (True, False): ['encode'], (False, True): ['decode'], (False, False): ['unchanged']}
        # (with a remembered conversion -- reported above -- the returns are not the conversions, and this table says nothing)
        c.check(remembered or table == want, f, ks[0], 'str pattern + bytes mode -> bytes pattern; bytes pattern + text mode -> str pattern; a pattern of the right type is returned unchanged',
                witness='(bytes mode, bytes pattern) -> %s' % sorted(table.items()), kind='path', tag='directions')
    with R.clause('D4', 'ORDER', floor=6, desc='validation completes before the Expecter exists; validators never touch the stream') as c:
        check_order(c, repo)
    with R.clause('D5', 'COERCE', floor=3, desc='text for a bytes-mode object is ascii-encoded; read(n) pattern uses DOTALL') as c:
        f = repo.func('spawnbase:SpawnBase._coerce_expect_string')
        g = f.cfg
        ks = [k for k in calls_in(f.node) if callee_last(k) == 'encode']
        ok = len(ks) == 1 and is_const(ks[0].args[0], 'ascii') and is_name(ks[0].func.value, f.params[1])
        c.check(ok, f, ks[0] if ks else None, "text is converted with the 'ascii' codec (non-ASCII text for a bytes child is an error, not silently re-encoded)",
                witness=norm(ks[0]) if ks else '', kind='ast', tag='ascii')
        got = conditions(g, g.node_for(ks[0])) if ks else None
        rr = [r for r in returns(f) if is_name(r.ast.value, f.params[1])]
        c.check(got == mode_mismatch_conditions(f.params[1], True) and len(rr) >= 1 and len(returns(f)) == len(rr) + 1 and not raises(f), f, ks[0] if ks else None,
                'only non-bytes given to a bytes-mode object are converted', witness='converted under %s' % sorted(got or []), kind='path', tag='guard')
        f = repo.func('spawnbase:SpawnBase.read')
        ks = [k for k in calls_in(f.node) if dotted(k.func) == 're.compile']
        a0 = ks[0].args[0] if len(ks) == 1 and ks[0].args else None
        if isinstance(a0, ast.Name):
            a0 = aliases_of(f).single_assign.get(a0.id, a0)          # the pattern may be built in a local first
        ok = len(ks) == 1 and len(ks[0].args) == 2 and norm(ks[0].args[1]) == 're.DOTALL' and isinstance(a0, ast.Call) and callee_last(a0) == '_coerce_expect_string'
        c.check(ok, f, ks[0] if ks else None, 'read(n) compiles its .{n} pattern with DOTALL (newlines count as characters), coerced to the object\'s string type', witness=norm(ks[0]) if ks else '', kind='ast', tag='read-dotall')


def flag_bit(e, rp, bit, inp):
    """value of one bit of a flags expression given that bit of <rp>.flags is *inp*"""
    t = norm(e)
    if t == '%s.flags' % rp:
        return inp
    if isinstance(e, ast.Attribute) and isinstance(e.value, ast.Name) and e.value.id == 're':
        if e.attr in ('UNICODE', 'U'):
            return 1 if bit == 'UNICODE' else 0
        return 1 if bit == e.attr else 0       # a named flag is its own bit
    if isinstance(e, ast.Constant) and isinstance(e.value, int):
        if e.value == 0:
            return 0
        raise ValueError('numeric flag constant %r' % e.value)
    if isinstance(e, ast.UnaryOp) and isinstance(e.op, ast.Invert):
        return 1 - flag_bit(e.operand, rp, bit, inp)
    if isinstance(e, ast.BinOp):
        a, b = flag_bit(e.left, rp, bit, inp), flag_bit(e.right, rp, bit, inp)
        if isinstance(e.op, ast.BitAnd):
            return a & b
        if isinstance(e.op, ast.BitOr):
            return a | b
        if isinstance(e.op, ast.BitXor):
            return a ^ b
    raise ValueError(t)


def classify_atom(a, pv):
    """kind of pattern an atomic condition (normal form of lib.atom_key) recognises"""
    if a == 'isinstance(%s, self.allowed_string_types)' % pv:
        return 'TEXT'
    for m in ('EOF', 'TIMEOUT'):
        if a in ('%s is %s' % (pv, m), '%s is %s' % (m, pv), '%s == %s' % (pv, m), '%s == %s' % (m, pv)):
            return m
    if a.startswith('isinstance(%s, type(re.compile(' % pv) or a == 'isinstance(%s, re.Pattern)' % pv:
        return 'REGEX'
    return None


def classify_test(t, pv):
    a, v = atom_key(t)
    return classify_atom(a, pv) if v else None


class _Stop(Exception):
    pass


def run_dispatch(f, body, pv, res, kind):
    """abstract runs of the loop body for an element of the given kind -> [{'appends': [expr], 'err': bool}] (one per path)"""
    def subst(e, env):
        class T(ast.NodeTransformer):
            def visit_Name(self, n):
                if isinstance(n.ctx, ast.Load) and n.id in env:
                    return env[n.id]
                return n
        import copy as _copy
        return T().visit(clone(e))

    def ev(t):
        """True / False / None (unknown)"""
        if isinstance(t, ast.UnaryOp) and isinstance(t.op, ast.Not):
            r = ev(t.operand)
            return None if r is None else not r
        if isinstance(t, ast.BoolOp):
            rs = [ev(v) for v in t.values]
            if isinstance(t.op, ast.And):
                if any(r is False for r in rs):
                    return False
                return True if all(r is True for r in rs) else None
            if any(r is True for r in rs):
                return True
            return False if all(r is False for r in rs) else None
        a, v = atom_key(t)
        k = classify_atom(a, pv)
        if k is None:
            return None
        return (k == kind) == v

    def run(stmts, env, acc, out):
        """acc: {'appends': [...], 'err': bool}; appends finished paths to out; returns list of (env, acc) continuing after stmts"""
        states = [(env, acc)]
        for s in stmts:
            nxt = []
            for env_, acc_ in states:
                if isinstance(s, ast.Assign) and len(s.targets) == 1 and isinstance(s.targets[0], ast.Name):
                    e2 = dict(env_)
                    e2[s.targets[0].id] = subst(s.value, env_)
                    nxt.append((e2, acc_))
                elif isinstance(s, ast.Expr) and isinstance(s.value, ast.Call) and callee_last(s.value) == 'append' and is_name(s.value.func.value, res):
                    a2 = {'appends': acc_['appends'] + [subst(s.value.args[0], env_)], 'err': acc_['err']}
                    nxt.append((env_, a2))
                elif isinstance(s, ast.Expr) and isinstance(s.value, ast.Call) and callee_last(s.value) == '_pattern_type_err':
                    out.append({'appends': acc_['appends'], 'err': True})        # never returns
                elif isinstance(s, ast.If):
                    r = ev(subst(s.test, dict((k_, v_) for k_, v_ in env_.items() if k_ != pv)))
                    for branch, take in ((s.body, r is not False), (s.orelse, r is not True)):
                        if take:
                            nxt.extend(run(branch, env_, acc_, out))
                elif isinstance(s, (ast.Continue, ast.Break)):
                    out.append(acc_)
                elif isinstance(s, ast.Pass) or (isinstance(s, ast.Expr) and isinstance(s.value, ast.Constant)) or \
                        (isinstance(s, (ast.Assign, ast.AugAssign)) and not any(isinstance(t_, ast.Name) for t_ in assigned_targets(s))):
                    nxt.append((env_, acc_))        # stores into attributes / containers: what is appended is judged by what is appended
                else:
                    raise AnalysisError('compile_pattern_list: statement in the dispatch loop not understood: %s' % norm(s)[:80])
            states = nxt
        return states
    out = []
    for env_, acc_ in run(body, {}, {'appends': [], 'err': False}, out):
        out.append(acc_)
    return out


def check_cpl(c, repo):
    f = repo.func('spawnbase:SpawnBase.compile_pattern_list')
    g = f.cfg
    pp = f.params[1]
    t0 = [t for t in g.nodes if t.kind == 'test' and norm(t.ast) == '%s is None' % pp]
    r0 = [r for t in t0 for r in guard_region(g, t, 'true') if r.kind == 'stmt' and isinstance(r.ast, ast.Return) and norm(r.ast.value) == '[]']
    c.check(len(t0) == 1 and len(r0) == 1, f, t0[0].ast if t0 else None, 'None means "no patterns" (empty list)', kind='path', tag='none')
    t1 = [t for t in g.nodes if t.kind == 'test' and norm(t.ast) == 'not isinstance(%s, list)' % pp]
    w = [n for t in t1 for n in guard_region(g, t, 'true') if n.kind == 'stmt' and isinstance(n.ast, ast.Assign) and pp in assigned_names(n.ast)
         and norm(n.ast.value) == '[%s]' % pp]
    c.check(len(t1) == 1 and len(w) == 1, f, t1[0].ast if t1 else None, 'a single pattern is wrapped in a one-element list', kind='path', tag='wrap')
    loops = [n for n in iter_nodes(f.node) if isinstance(n, ast.For)]
    c.need(len(loops) == 1, 'compile_pattern_list: loop not found')
    loop = loops[0]
    tgt = loop.target
    pv = tgt.elts[1].id if isinstance(tgt, ast.Tuple) else tgt.id
    # what the loop body does with an element of each kind, found by running the body abstractly for p = text / EOF / TIMEOUT /
    # compiled regex / anything else (tests that classify p are decided by the scenario, other tests are explored both ways)
    nr = '_pattern_type_err' in repo.noreturn_names()
    c.check(nr, f, None, 'the TypeError helper never returns', kind='ast', tag='helper-noreturn')
    lst = [n.targets[0].id for n in iter_nodes(f.node) if isinstance(n, ast.Assign) and isinstance(n.targets[0], ast.Name) and isinstance(n.value, ast.List) and not n.value.elts]
    rets = [r for r in returns(f) if isinstance(r.ast.value, ast.Name) and r.ast.value.id in lst]
    c.need(len(rets) == 1, 'compile_pattern_list: result list not found')
    res = rets[0].ast.value.id
    want = {'TEXT': 'text: coerced to the object\'s string type, compiled in this call with the computed flags, appended',
            'EOF': 'EOF is kept as the marker itself', 'TIMEOUT': 'TIMEOUT is kept as the marker itself',
            'REGEX': 'compiled regex: type-coerced (flags kept, D3) and appended',
            'OTHER': 'anything else ends in the TypeError helper, which never returns'}
    for kind in ('TEXT', 'EOF', 'TIMEOUT', 'REGEX', 'OTHER'):
        paths = run_dispatch(f, loop.body, pv, res, kind)
        ok = bool(paths)
        wit = []
        for p_ in paths:
            vals = [norm(v) for v in p_['appends']]
            wit.append('%s%s' % (vals, ' then TypeError helper' if p_['err'] else ''))
            if kind == 'OTHER':
                ok = ok and p_['err'] and not p_['appends']
                continue
            ok = ok and not p_['err'] and len(p_['appends']) == 1
            if not ok:
                continue
            v = p_['appends'][0]
            if kind == 'TEXT':
                # the flags: the variable computed before the loop (D2 checks it), or -- when they are computed per pattern -- their value on this path
                fl_ok = len(v.args) == 2 and (isinstance(v.args[1], ast.Name) or
                                              norm(v.args[1]) in ('re.DOTALL', 're.DOTALL | re.IGNORECASE', 're.IGNORECASE | re.DOTALL')) \
                    if isinstance(v, ast.Call) else False
                ok = isinstance(v, ast.Call) and dotted(v.func) == 're.compile' and fl_ok \
                    and norm(v.args[0]) == 'self._coerce_expect_string(%s)' % pv
            elif kind in ('EOF', 'TIMEOUT'):
                ok = norm(v) in (pv, kind)
            else:
                ok = norm(v) == 'self._coerce_expect_re(%s)' % pv
        c.check(ok, f, loop, want[kind], witness='%s -> %s' % (kind, wit), kind='alg', tag='dispatch:' + kind)
    er = repo.func('spawnbase:SpawnBase._pattern_type_err')
    rs = raises(er)
    c.check(len(rs) == 1 and raised_class(rs[0].ast, er) == 'TypeError', er, rs[0].ast if rs else None, 'the helper raises TypeError', kind='ast', tag='typeerror')


def check_exact(c, repo):
    f = repo.func('spawnbase:SpawnBase.expect_exact')
    g = f.cfg
    pl = f.params[1]
    mh = mapped_helper(repo, f)
    c.need(mh is not None, 'expect_exact: prepare_pattern helper not found')
    h, pidx, hcomp = mh
    hg = h.cfg
    pv = h.params[pidx]
    # every return of the helper, with the kinds of pattern it is taken for (path conditions, whatever the chain of tests looks like)
    seen = set()
    for r in returns(h):
        ks = set(classify_atom(a, pv) for a, v in conditions(hg, r) if v) - {None}
        v_ = r.ast.value
        if is_name(v_, pv):
            seen |= ks
            c.check(bool(ks) and ks <= {'EOF', 'TIMEOUT'}, h, r.ast, 'only the markers EOF / TIMEOUT are returned as they are', witness=str(sorted(ks)), kind='path', tag='exact-marker:%s' % '+'.join(sorted(ks)))
        elif isinstance(v_, ast.Call) and callee_last(v_) == '_coerce_expect_string':
            seen |= ks
            c.check(ks == {'TEXT'}, h, r.ast, 'text is coerced to the object\'s string type', witness=str(sorted(ks)), kind='path', tag='exact-text')
        else:
            c.bad(h, r.ast, 'the helper returns something that is neither the marker nor the coerced text', witness=norm(r.ast), kind='path', tag='exact-other')
    c.check(seen == {'EOF', 'TIMEOUT', 'TEXT'}, h, None, 'the helper recognises the markers and text', witness=str(sorted(seen)), kind='path', tag='exact-kinds')
    falls = [p for p, l in hg.exit.pred if not (p.kind == 'stmt' and isinstance(p.ast, ast.Return))]
    lastcalls = [p for p, l in hg.raise_exit.pred if p.kind == 'stmt' and isinstance(p.ast, ast.Expr) and isinstance(p.ast.value, ast.Call)
                 and callee_last(p.ast.value) == '_pattern_type_err']
    c.check(not falls and len(lastcalls) == 1, h, None, 'anything else ends in the TypeError helper (the helper never falls off the end)', kind='path', tag='exact-else')
    # single-pattern wrap and iterability
    # the wrap [p] happens exactly for: a string, EOF, TIMEOUT  (one test with `or`, or separate tests each wrapping)
    w = [n for n in g.nodes if n.kind == 'stmt' and isinstance(n.ast, ast.Assign) and norm(n.ast.value) == '[%s]' % pl and pl in assigned_names(n.ast)]
    wk = set()
    conj = False
    for n in w:
        per_test = []
        for t_, outcome in path_tests(g, n):
            co, lab = truth(t_)
            pos = (lab == 'true') == outcome
            parts = co.values if (isinstance(co, ast.BoolOp) and isinstance(co.op, ast.Or) and pos) else [co]
            ks = set()
            for p_ in parts:
                a_, v_ = atom_key(p_, pos)
                if classify_atom(a_, pl):
                    ks.add((classify_atom(a_, pl), v_))
            if ks:
                per_test.append(ks)
        if len(per_test) != 1 or any(not v_ for k_, v_ in per_test[0]):
            conj = True         # the wrap depends on more than one kind test at once (a conjunction), or on a negated one
        for ks in per_test:
            wk |= set(k_ for k_, v_ in ks if v_)
    c.check(bool(w) and not conj and wk == {'TEXT', 'EOF', 'TIMEOUT'}, f, w[0].ast if w else None, 'a single string or marker is wrapped in a one-element list',
            witness='wrapped when the argument is %s' % sorted(wk), kind='path', tag='exact-wrap')
    # the argument is not replaced by anything else before it is validated
    for n in g.nodes:
        if n.kind == 'stmt' and isinstance(n.ast, (ast.Assign, ast.AugAssign)) and pl in assigned_names(n.ast):
            v = n.ast.value
            good = (n in w) or (isinstance(v, ast.Call) and dotted(v.func) in ('iter', 'list', 'tuple') and len(v.args) == 1 and is_name(v.args[0], pl)) \
                or (isinstance(v, ast.ListComp) and v is hcomp
                                and is_name(v.generators[0].iter, pl) and not v.generators[0].ifs)
            c.check(good, f, n.ast, 'the pattern argument is only ever wrapped ([p]) or mapped through the validating helper, element by element; '
                    'it is never replaced by something else before validation', witness=norm(n.ast), kind='ast', tag='exact-rebind:' + norm(n.ast)[:30])
    trs = [t for t in iter_nodes(f.node) if isinstance(t, ast.Try)]
    ok = len(trs) == 1 and any(callee_last(k) == 'iter' or dotted(k.func) == 'iter' for s in trs[0].body for k in calls_in(s)) and \
        len(trs[0].handlers) == 1 and norm(trs[0].handlers[0].type) == 'TypeError' and \
        any(callee_last(k) == '_pattern_type_err' for s in trs[0].handlers[0].body for k in calls_in(s))
    c.check(ok, f, trs[0] if trs else None, 'a non-iterable pattern list is rejected with the same TypeError', kind='ast', tag='exact-iter')


def check_flags(c, repo):
    f = repo.func('spawnbase:SpawnBase.compile_pattern_list')
    g = f.cfg
    ks0 = [k for k in calls_in(f.node) if dotted(k.func) == 're.compile' and len(k.args) == 2 and isinstance(k.args[1], ast.Name)]
    if len(ks0) != 1:
        allc = [k for k in calls_in(f.node) if dotted(k.func) == 're.compile' and not (len(k.args) == 1 and is_const(k.args[0], ''))]
        c.bad(f, allc[0] if allc else None, 'string patterns are not compiled with the computed flags variable (DOTALL / IGNORECASE handling is bypassed)',
              witness=norm(allc[0]) if allc else 'no re.compile', kind='alg', tag='flags-used')
        return
    FV = ks0[0].args[1].id
    asg = [n for n in g.nodes if n.kind == 'stmt' and isinstance(n.ast, ast.Assign) and FV in assigned_names(n.ast)]
    c.need(len(asg) >= 1, 'compile_pattern_list: the flags variable is never assigned')
    # the value of the flags variable where re.compile is reached, as a SET OF FLAG BITS, for self.ignorecase true and false: every
    # path of the scenario is executed on that abstraction (re.X -> {X}, `|` -> union, a conditional expression on self.ignorecase),
    # so it does not matter whether the flags are built by an if, a conditional expression or in two steps
    kn0 = g.node_for(ks0[0])
    A_IC = atom_key(ast.parse('self.ignorecase', mode='eval').body)[0]

    def bits(e, cur, ic):
        if isinstance(e, ast.Attribute) and isinstance(e.value, ast.Name) and e.value.id == 're':
            return frozenset([e.attr])
        if isinstance(e, ast.Name) and e.id == FV:
            return cur
        if isinstance(e, ast.Constant) and e.value == 0:
            return frozenset()
        if isinstance(e, ast.BinOp) and isinstance(e.op, ast.BitOr):
            l_, r_ = bits(e.left, cur, ic), bits(e.right, cur, ic)
            return None if l_ is None or r_ is None else l_ | r_
        if isinstance(e, ast.IfExp):
            co, lab = truth(e.test)
            if norm(co) == 'self.ignorecase':
                take = e.body if (ic == (lab == 'true')) else e.orelse
                return bits(take, cur, ic)
        return None
    for ic in (True, False):
        seen = set()
        for path in scenario_paths(g, {A_IC: ic}, goal=kn0):
            cur = None
            for n in path[:-1]:
                if n in asg:
                    cur = bits(n.ast.value, cur, ic)
                    if cur is None:
                        raise AnalysisError('compile_pattern_list: flags expression not understood: %s' % norm(n.ast))
            seen.add(cur)
        want = frozenset(['DOTALL', 'IGNORECASE']) if ic else frozenset(['DOTALL'])
        c.check(seen == {want}, f, ks0[0], 'with ignorecase %s the text patterns are compiled with %s' % ('set' if ic else 'not set', ' | '.join('re.' + x for x in sorted(want))),
                witness='flags reaching re.compile: %s' % sorted(sorted(x) if x is not None else None for x in seen), kind='alg', tag='dotall' if not ic else 'ignorecase')
    a0 = sorted(asg, key=lambda n: n.id)[0]
    ks = [k for k in calls_in(f.node) if dotted(k.func) == 're.compile' and not (len(k.args) == 1 and is_const(k.args[0], ''))]
    ok = len(ks) == 1 and len(ks[0].args) == 2 and is_name(ks[0].args[1], FV)
    c.check(ok, f, ks[0] if ks else None, 're.compile receives those flags', witness=norm(ks[0]) if ks else '', kind='alg', tag='flags-used')
    loops = [n for n in iter_nodes(f.node) if isinstance(n, ast.For)]
    mods = [n for n in asg if any(p is loops[0] for p in parent_chain(n.ast))] if loops else []
    # nothing is carried from one pattern to the next: the flags are fixed before the loop, or every iteration starts them afresh from DOTALL
    kn = g.node_for(ks0[0])
    fresh = bool(loops) and a0 in mods and kn is not None and g.path(g.node_of_stmt(loops[0]), {kn}, avoid={a0}, skip_labels=('exc',), include_start=False) is None
    c.check(not mods or fresh, f, mods[0].ast if mods else None, 'the flags are the same for every pattern of the list (fixed before the loop, or started afresh for each pattern)',
            kind='ast', tag='flags-loop-invariant')


def check_order(c, repo):
    f = repo.func('spawnbase:SpawnBase.expect')
    g = f.cfg
    cp = cfg_nodes_with_call(f, lambda k: callee_last(k) == 'compile_pattern_list')
    el = cfg_nodes_with_call(f, lambda k: callee_last(k) == 'expect_list')
    c.check(len(cp) == 1 and len(el) == 1 and g.dominated_by(el[0][0], {cp[0][0]})[0], f, el[0][1] if el else None, 'expect(): patterns are compiled (validated) before expect_list runs', tag='expect-order')
    f = repo.func('spawnbase:SpawnBase.expect_exact')
    g = f.cfg
    ex = cfg_nodes_with_call(f, lambda k: callee_last(k) == 'Expecter')
    comp = [n for n in g.nodes if n.kind == 'stmt' and isinstance(n.ast, ast.Assign) and isinstance(n.ast.value, ast.ListComp)]
    ok = len(ex) == 1 and len(comp) == 1 and g.dominated_by(ex[0][0], {comp[0]})[0]
    c.check(ok, f, ex[0][1] if ex else None, 'expect_exact(): every pattern is validated before the Expecter is created', tag='exact-order')
    for q in ('spawnbase:SpawnBase.expect_list', 'spawnbase:SpawnBase.expect_exact', 'spawnbase:SpawnBase.expect'):
        f = repo.func(q)
        g = f.cfg
        rs = [r for r in raises(f) if raised_class(r.ast, f) == 'TypeError']
        ex = cfg_nodes_with_call(f, lambda k: callee_last(k) in ('Expecter', 'expect_list'))
        ok = all(g.path(e[0], r, skip_labels=('exc',)) is None for r in rs for e in ex)
        c.check(ok and rs, f, rs[0].ast if rs else None, 'unknown keyword arguments are rejected before anything is consumed', tag='kw-first:' + f.name)
    mh = mapped_helper(repo, repo.func('spawnbase:SpawnBase.expect_exact'))
    if mh is None:
        raise AnalysisError('anchor vanished: the helper expect_exact maps over its pattern list was not found')
    for q in ('spawnbase:SpawnBase.compile_pattern_list', 'spawnbase:SpawnBase._coerce_expect_string', 'spawnbase:SpawnBase._coerce_expect_re',
              'spawnbase:SpawnBase._pattern_type_err', mh[0]):
        f = repo.func(q) if isinstance(q, str) else q
        bad = [k for k in calls_in(f.node) if callee_last(k) in ('read_nonblocking', 'expect', 'expect_list', 'expect_loop', 'new_data', 'existing_data', 'read', 'readline')]
        c.check(not bad, f, bad[0] if bad else None, 'the validator never touches the child\'s output', kind='ast', tag='pure:' + f.name)


MUTANTS = [
    ('cpl-compile-cache', 'spawnbase', "                compiled_pattern_list.append(re.compile(p, compile_flags))", "                if p not in self.__dict__.setdefault('_cp', {}):\n                    self._cp[p] = re.compile(p, compile_flags)\n                compiled_pattern_list.append(self._cp[p])", 'D1'),
    ('exact-falsy-shortcut', 'spawnbase', "        if (isinstance(pattern_list, self.allowed_string_types) or\n                pattern_list in (TIMEOUT, EOF)):\n            pattern_list = [pattern_list]", "        if not pattern_list:\n            pattern_list = []\n        elif (isinstance(pattern_list, self.allowed_string_types) or\n                pattern_list in (TIMEOUT, EOF)):\n            pattern_list = [pattern_list]", 'D1'),
    ('cpl-no-else', 'spawnbase', "            else:\n                self._pattern_type_err(p)\n        return compiled_pattern_list", "        return compiled_pattern_list", 'D1'),
    ('cpl-else-skip', 'spawnbase', "            else:\n                self._pattern_type_err(p)\n        return compiled_pattern_list", "            else:\n                continue\n        return compiled_pattern_list", 'D1'),
    ('cpl-regex-uncoerced', 'spawnbase', "                p = self._coerce_expect_re(p)\n                compiled_pattern_list.append(p)", "                compiled_pattern_list.append(p)", 'D1'),
    ('ignorecase-always', 'spawnbase', "        if self.ignorecase:\n            compile_flags = compile_flags | re.IGNORECASE", "        compile_flags = compile_flags | re.IGNORECASE", 'D2'),
    ('ignorecase-replaces', 'spawnbase', "            compile_flags = compile_flags | re.IGNORECASE", "            compile_flags = re.IGNORECASE", 'D2'),
    ('no-dotall', 'spawnbase', "        compile_flags = re.DOTALL\n", "        compile_flags = 0\n", 'D2'),
    ('flags-not-used', 'spawnbase', "compiled_pattern_list.append(re.compile(p, compile_flags))", "compiled_pattern_list.append(re.compile(p, re.DOTALL))", 'D2'),
    ('coerce-re-drops-flags', 'spawnbase', "            return re.compile(p.decode('utf-8'), r.flags)", "            return re.compile(p.decode('utf-8'))", 'D3'),
    ('coerce-re-xor-unicode', 'spawnbase', "            return re.compile(p.encode('utf-8'), r.flags & ~re.UNICODE)", "            return re.compile(p.encode('utf-8'), r.flags ^ re.UNICODE)", 'D3'),
    ('coerce-re-or-ignorecase', 'spawnbase', "            return re.compile(p.decode('utf-8'), r.flags)", "            return re.compile(p.decode('utf-8'), r.flags | re.IGNORECASE)", 'D3'),
    ('coerce-re-latin1', 'spawnbase', "            return re.compile(p.encode('utf-8'), r.flags & ~re.UNICODE)", "            return re.compile(p.encode('latin-1'), r.flags & ~re.UNICODE)", 'D3'),
    ('exact-validate-late', 'spawnbase', "        pattern_list = [prepare_pattern(p) for p in pattern_list]\n\n        exp = Expecter(self, searcher_string(pattern_list), searchwindowsize)", "        exp = Expecter(self, searcher_string([prepare_pattern(p) for p in pattern_list]), searchwindowsize)", 'D4'),
    ('exact-helper-falls', 'spawnbase', "                return self._coerce_expect_string(pattern)\n            self._pattern_type_err(pattern)", "                return self._coerce_expect_string(pattern)\n            return pattern", 'D1'),
    ('coerce-string-utf8', 'spawnbase', "            return s.encode('ascii')", "            return s.encode('utf-8')", 'D5'),
    ('read-no-dotall', 'spawnbase', "cre = re.compile(self._coerce_expect_string('.{%d}' % size), re.DOTALL)", "cre = re.compile(self._coerce_expect_string('.{%d}' % size))", 'D5'),
    ('coerce-string-or', 'spawnbase', "    def _coerce_expect_string(self, s):\n        if self.encoding is None and not isinstance(s, bytes):", "    def _coerce_expect_string(self, s):\n        if self.encoding is None or not isinstance(s, bytes):", 'D5'),
    ('exact-wrap-and', 'spawnbase', "        if (isinstance(pattern_list, self.allowed_string_types) or\n                pattern_list in (TIMEOUT, EOF)):", "        if (isinstance(pattern_list, self.allowed_string_types) and\n                pattern_list in (TIMEOUT, EOF)):", 'D1'),
    ('cpl-none-raises', 'spawnbase', "        if patterns is None:\n            return []\n", "", 'D1'),
]
PRESERVING = []

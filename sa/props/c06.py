"""C06 Transport fidelity -- structural clauses of the five read implementations."""
import ast

from ..astx import (calls_in, dotted, norm, src, iter_nodes, aliases_of, assigned_targets,
                    assigned_names, const_value, is_const, parent_chain)
from ..lib import (call_arg, relation, truth, other, cmp_views, core, holds_region, conditions, found_test, found_tests, path_tests, entails_empty, paths_entail_empty, eval_conditions, relation_tests, atom_key, expand_condition, mode_mismatch_conditions, cfg_nodes_with_call, node_calls, returns, raises, raised_class, stmt_assigns_attr,
                   callee_last, guard_region, find_test_nodes, compare_parts, is_name, is_self_attr, node_roots)
from ..lib import *      # noqa: F401,F403  (path-condition helpers)
from ..linear import ctext, lin, Lin, slice_bounds
from ..loader import AnalysisError

EXPLANATION = (
    "Static analysis of five structural clauses over all read_nonblocking implementations and the pipe reader "
    "thread: (D1) the amount requested from os.read/recv/super().read_nonblocking is size, or size-len(acc) under "
    "the loop guard len(acc) < size, and the pipe transport splits its buffer with complementary slices at the same "
    "bound; (D2) in the pty transport every raise EOF that depends on the child being dead is dominated by a failed "
    "readiness poll executed AFTER that liveness check (drain before declaring EOF); (D3) the base read maps EIO and "
    "the empty read to flag_eof+EOF and re-raises every other OSError; (D4) the pipe reader thread queues every "
    "non-empty chunk, queues the None sentinel exactly once and only as its last action, and the consumer appends "
    "every dequeued non-sentinel item through the decoder and flags EOF only on the sentinel; (D5) the socket "
    "timeout is restored (see C05-D7); (D6) once data has been read, every explicit exit of the function returns a "
    "value derived from it or parks it in the carry-over buffer -- no handler or raise discards it, except raises "
    "guarded by the data being empty (decided path-sensitively: the tests passed on every path force the variable to be falsy); (D8) end of stream is recognised on the raw read result, never on decoder output (an empty decode is not an empty read). NOT decided: interleavings with the kernel and the peer, byte exactness.")
TRUSTED = ["os.read / socket.recv return at most the requested number of bytes", "Queue is FIFO", "sa/ engine"]
ASSUMPTIONS = ["implicit exceptions from library calls (e.g. a strict codec error) are out of scope for D6"]
LEVEL_TEXT = ("Static analysis of named structural clauses of the transports: bounded request size (linear forms), "
              "drain-before-EOF ordering (dominators on the CFG), EIO/empty-read mapping, pipe sentinel protocol "
              "(once, last), read data never discarded on any explicit exit path (def-use + CFG). Exhaustive over the "
              "paths of the 5 read implementations and the reader thread.")
LEVEL_NOTE = "Trusted: OS read semantics, FIFO queue; analyser. Not decided: schedules of peer vs reader."
TECHNIQUE = "CFG dominators / def-use flow / linear size arithmetic (static analysis)"

READ_PRIMS = ('read_nonblocking', 'recv', 'read')


def run(R):
    repo = R.repo
    impls = repo.implementations('SpawnBase', 'read_nonblocking')
    R.extra['read_implementations'] = [f.qual for f in impls]
    with R.clause('D1', 'ALG', floor=8, desc='no read asks for / returns more than size') as c:
        c.need(len(impls) == 5, 'expected 5 read_nonblocking implementations, found %d' % len(impls))
        for f in impls:
            check_sizes(c, f)
    with R.clause('D2', 'ORDER', floor=2, desc='pty: EOF for a dead child only after a failed re-poll made after the liveness check') as c:
        check_drain(c, repo.func('pty_spawn:spawn.read_nonblocking'))
    with R.clause('D3', 'EXC', floor=5, desc='base read: EIO / empty read -> flag_eof + EOF, other OSError re-raised') as c:
        check_base_read(c, repo.func('spawnbase:SpawnBase.read_nonblocking'))
    with R.clause('D8', 'FLOW', floor=2, desc='EOF is decided on the raw read result (an empty decode is not an empty read)') as c:
        from .c07 import check_eof_test_raw
        check_eof_test_raw(c, repo)
    with R.clause('D4', 'ONCE', floor=6, desc='pipe transport: every chunk queued, sentinel once and last, consumer appends every item') as c:
        check_pipe(c, repo)
    with R.clause('D5', 'PAIR', floor=3, desc='a socket\'s own timeout setting is left as it was found (restore in a finally)') as c:
        from .c05 import check_socket_timeout
        check_socket_timeout(c, repo)
    with R.clause('D6', 'FLOW', floor=5, desc='data that was read is returned or parked on every explicit exit path') as c:
        for f in impls:
            check_no_discard(c, f)
    with R.clause('D7', 'ORDER', floor=3, desc='fd/socket: wait-then-read order; pty: closed check first') as c:
        f = repo.func('fdpexpect:fdspawn.read_nonblocking')
        g = f.cfg
        rd = cfg_nodes_with_call(f, lambda k: callee_last(k) == 'read_nonblocking')
        waits = [n for n, k in cfg_nodes_with_call(f, lambda k: callee_last(k) in ('select_ignore_interrupts', 'poll_ignore_interrupts'))]
        c.need(len(rd) == 1 and len(waits) == 2, 'fdspawn.read_nonblocking: wait / read calls not found')
        ok, p = g.dominated_by(rd[0][0], set(waits))
        c.check(ok, f, rd[0][1], 'the descriptor is read only after a readiness wait', witness=g.describe_path(p) if p else None, tag='wait-then-read')
        tests = [t for t in g.nodes if t.kind == 'test' and 'not in' in norm(t.ast)]
        c.check(len(tests) == 1 and g.dominated_by(rd[0][0], {tests[0]})[0] and rd[0][0] not in guard_region(g, tests[0], 'true'),
                f, tests[0].ast if tests else None, 'not ready -> TIMEOUT, ready -> exactly one read', tag='ready-test')
        f = repo.func('pty_spawn:spawn.read_nonblocking')
        g = f.cfg
        t = [t for t in g.nodes if t.kind == 'test' and norm(t.ast) == 'self.closed']
        uses = [n for n, k in cfg_nodes_with_call(f, lambda k: callee_last(k) in ('select', 'read_nonblocking', 'isalive'))]
        ok = len(t) == 1 and all(g.dominated_by(u, {t[0]})[0] for u in uses)
        c.check(ok, f, t[0].ast if t else None, 'the closed check precedes every descriptor use', tag='closed-first')


def check_sizes(c, f):
    g = f.cfg
    size = 'size'
    c.need(size in f.params, '%s has no size parameter' % f.qual)
    prims = []
    for n, k in cfg_nodes_with_call(f, lambda k: (dotted(k.func) or '') == 'os.read' or callee_last(k) in ('recv',)
                                    or (callee_last(k) == 'read_nonblocking' and isinstance(k.func.value, ast.Call))):
        prims.append((n, k))
    for n, k in prims:
        a = k.args[1] if (dotted(k.func) or '') == 'os.read' else (k.args[0] if k.args else None)
        c.need(a is not None, 'read primitive without size argument: %s' % norm(k))
        L = lin(a, f, keep=(size,))
        in_loop = any(isinstance(p, (ast.While, ast.For)) for p in parent_chain(k))
        accumulating = isinstance(n.ast, ast.AugAssign) or in_loop
        ok = L is not None and L == Lin(0, {size: 1}) and not accumulating
        wit = 'requested %r' % L + (' while accumulating into an existing result (must be size - len(<result>))' if accumulating else '')
        if not ok and L is not None and L.const == 0 and L.terms.get(size) == 1 and len(L.terms) == 2:
            other = [t for t in L.terms if t != size][0]
            if L.terms[other] == -1 and other.startswith('len('):
                # needs the guard len(acc) < size on the way in (loop condition, in-loop break, nested if: all the same path condition)
                ok = ('%s < %s' % (other, size), True) in loop_entry_conditions(g, n)
                wit = 'requested %r; guard %s < %s %s' % (L, other, size, 'holds on the way in' if ok else 'missing')
            elif L.terms[other] == -1 and other.isidentifier():
                # a running count of what has been read so far (`got = len(first)` ... `got += len(chunk)`), the request computed from its
                # CURRENT value (a request computed before the count was last updated is a stale local and is not written out: see stale.py)
                binds = [st for st in iter_nodes(f.node) if isinstance(st, (ast.Assign, ast.AugAssign)) and other in assigned_names(st)]
                counter = bool(binds) and all(
                    (isinstance(st, ast.Assign) and isinstance(st.value, ast.Call) and dotted(st.value.func) == 'len') or
                    (isinstance(st, ast.AugAssign) and isinstance(st.op, ast.Add) and isinstance(st.value, ast.Call) and dotted(st.value.func) == 'len') or
                    (isinstance(st, ast.Assign) and isinstance(st.value, ast.BinOp) and isinstance(st.value.op, ast.Add) and norm(st.value.left) == other
                     and isinstance(st.value.right, ast.Call) and dotted(st.value.right.func) == 'len') for st in binds)
                ok = counter and ('%s < %s' % (other, size), True) in loop_entry_conditions(g, n)
                wit = 'requested %r; %s is %sa running count of the lengths read; guard %s < %s %s' % (L, other, '' if counter else 'not ', other, size, 'holds on the way in' if ok else 'missing')
        c.check(ok, f, k, 'the read asks for at most `size` (never more than the caller allowed)', witness=wit, kind='alg', tag='req:' + norm(k)[:50])
    if f.qual.startswith('popen_spawn:'):
        # complementary slices
        pairs = 0
        for n in g.nodes:
            if n.kind != 'stmt':
                continue
            subs = [x for x in ast.walk(n.ast) if isinstance(x, ast.Subscript) and isinstance(x.slice, ast.Slice)]
            for x in subs:
                lo, hi, st = slice_bounds(x)
                if lo is None and hi is not None:
                    # a prefix: find the matching rest on the same base, same node or adjacent statement
                    base = norm(x.value)
                    near = {n} | set(p_ for p_, l_ in n.pred if l_ == 'next') | set(s_ for s_, l_ in n.succ if l_ == 'next')
                    rests = [y for m in g.nodes if m.kind == 'stmt' and m in near
                             for y in ast.walk(m.ast) if isinstance(y, ast.Subscript) and isinstance(y.slice, ast.Slice)
                             and norm(y.value) == base and slice_bounds(y)[0] is not None and slice_bounds(y)[1] is None]
                    okp = len(rests) == 1 and lin(rests[0].slice.lower, f, keep=(size,)) == lin(hi, f, keep=(size,)) \
                        and lin(hi, f, keep=(size,)) == Lin(0, {size: 1})
                    pairs += 1
                    c.check(okp, f, x, 'returned prefix %s[:size] and kept rest %s[size:] split at the same bound' % (base, base),
                            witness='prefix %s / rest %s' % (norm(x), [norm(r) for r in rests]), kind='alg', tag='split:%d' % pairs)
        c.need(pairs >= 1, 'PopenSpawn.read_nonblocking: no prefix/rest split found')


def check_drain(c, f):
    g = f.cfg
    # liveness tests, whichever way round they are written: (test node, outcome on which the child is DEAD)
    alive_tests = []
    for t in g.nodes:
        if t.kind == 'test':
            core, lab = truth(t.ast)
            if norm(core) == 'self.isalive()':
                alive_tests.append((t, other(lab)))
    c.need(len(alive_tests) >= 2, 'spawn.read_nonblocking: expected two self.isalive() tests, found %d' % len(alive_tests))
    n = 0
    for r in raises(f):
        if raised_class(r.ast, f) != 'EOF':
            continue
        deps = [(t, dl) for t, dl in alive_tests if r in guard_region(g, t, dl)]
        if not deps:
            continue
        n += 1
        t, dl = deps[-1]
        dead = guard_region(g, t, dl)
        polls = [(p, truth(p.ast)[1]) for p in dead if p.kind == 'test' and norm(truth(p.ast)[0]) == 'select(0)']
        ok = False
        for p, ready in polls:
            if r in guard_region(g, p, other(ready)):
                ok = True
        c.check(ok, f, r.ast, 'EOF for a dead child is raised only after a readiness poll, made after the liveness check, found nothing '
                '(otherwise data written just before the child died is reported after EOF)',
                witness='no failed select(0) between the liveness check at L%d and the raise' % t.lineno, tag='drain-before-eof')
        # the successful re-poll reads
        for p, ready in polls:
            rd = [m for m in guard_region(g, p, ready) if m.kind == 'stmt' and isinstance(m.ast, ast.Return)
                  and any(callee_last(k) == 'read_nonblocking' for k in node_calls(m))]
            c.check(bool(rd), f, p.ast, 'a successful re-poll returns the pending data', tag='repoll-reads@L%d' % 0 if False else 'repoll-reads:' + str(n))
    c.need(n >= 2, 'expected 2 liveness-dependent raise EOF sites, found %d' % n)


def check_base_read(c, f):
    g = f.cfg
    reads = cfg_nodes_with_call(f, lambda k: dotted(k.func) == 'os.read')
    c.need(len(reads) == 1, 'SpawnBase.read_nonblocking: os.read not found')
    rn, rk = reads[0]
    c.check(rk.args and norm(rk.args[0]) == 'self.child_fd', f, rk, 'reads self.child_fd (never a cached copy of the descriptor)', witness=norm(rk), kind='ast', tag='fd-current')
    tr = [p for p in parent_chain(rk) if isinstance(p, ast.Try)]
    c.need(tr and len(tr[0].handlers) == 1, 'os.read is not inside a single-handler try')
    h = tr[0].handlers[0]
    c.check(norm(h.type) == 'OSError', f, h, 'the handler catches OSError only', witness=norm(h.type), kind='ast', tag='handler-type')
    hn = h.name or 'err'
    eio = [(t, lab) for t, lab in relation_tests(g, 'eq', lambda e: norm(e) in ('%s.args[0]' % hn, '%s.errno' % hn), lambda e: norm(e) == 'errno.EIO')
           if any(t.ast is d for d in ast.walk(h))]
    others = [t for t in g.nodes if t.kind == 'test' and any(t.ast is d for d in ast.walk(h)) and not any(t is e_[0] for e_ in eio)]
    c.check(len(eio) == 1 and not others, f, eio[0][0].ast if eio else h,
            'the handler recognises exactly errno EIO (the pty\'s way of saying end of file)',
            witness=str([norm(t.ast) for t, _ in eio] + [norm(t.ast) for t in others]), kind='alg', tag='eio-test')
    c.need(len(eio) == 1, 'EIO test not found')
    te, lab = eio[0]
    reg = guard_region(g, te, lab, skip_labels=())
    okf = any(m.kind == 'stmt' and stmt_assigns_attr(m.ast, 'flag_eof') is not None and is_const(m.ast.value, True) for m in reg)
    rs_ = [m for m in reg if m.kind == 'stmt' and isinstance(m.ast, ast.Raise)]
    ok = okf and len(rs_) == 1 and raised_class(rs_[0].ast, f) == 'EOF' and \
        g.must_pass(te, {rs_[0]}, set(m for m in reg if m.kind == 'stmt' and stmt_assigns_attr(m.ast, 'flag_eof') is not None), skip_labels=('exc',))[0]
    c.check(ok, f, te.ast, 'EIO -> flag_eof = True; raise EOF', kind='path', tag='eio')
    nxt = [s_ for s_, l in te.succ if l == other(lab)]
    ok = len(nxt) == 1 and nxt[0].kind == 'stmt' and isinstance(nxt[0].ast, ast.Raise) and nxt[0].ast.exc is None
    c.check(ok, f, h, 'any other OSError is re-raised unchanged', kind='path', tag='other-oserror')
    var = rn.ast.targets[0].id if isinstance(rn.ast, ast.Assign) else None
    c.need(var, 'os.read result is not assigned')
    empt = [t for t in g.nodes if t.kind == 'test' and norm(t.ast) in ("%s == b''" % var, 'not %s' % var, "len(%s) == 0" % var)]
    c.need(len(empt) == 1, 'empty-read test not found')
    reg = guard_region(g, empt[0], 'true')
    ok = any(m.kind == 'stmt' and stmt_assigns_attr(m.ast, 'flag_eof') is not None for m in reg) and \
        any(m.kind == 'stmt' and isinstance(m.ast, ast.Raise) and raised_class(m.ast, f) == 'EOF' for m in reg)
    c.check(ok, f, empt[0].ast, 'empty read -> flag_eof = True; raise EOF', kind='path', tag='empty-read')
    rets = returns(f)
    c.check(len(rets) == 1 and g.dominated_by(rets[0], {empt[0]})[0], f, rets[0].ast if rets else None,
            'data is returned only after the EOF tests', kind='path', tag='return-after-tests')


def check_pipe(c, repo):
    f = repo.func('popen_spawn:PopenSpawn._read_incoming')
    g = f.cfg
    puts = cfg_nodes_with_call(f, lambda k: callee_last(k) == 'put')
    sent = [(n, k) for n, k in puts if k.args and is_const(k.args[0], None)]
    data = [(n, k) for n, k in puts if (n, k) not in sent]
    c.need(len(sent) >= 1 and len(data) == 1, '_read_incoming: expected a sentinel put and one data put')
    dn, dk = data[0]
    reads = cfg_nodes_with_call(f, lambda k: dotted(k.func) == 'os.read')
    c.need(len(reads) == 1 and isinstance(reads[0][0].ast, ast.Assign), '_read_incoming: buf = os.read(...) not found')
    rn = reads[0][0]
    var = rn.ast.targets[0].id
    c.check(is_name(dk.args[0], var), f, dk, 'the chunk that was read is what gets queued', witness=norm(dk), kind='ast', tag='put-chunk')
    # sentinel once and last: after a sentinel put every path reaches the exit without another put / read
    # (the end-of-stream branch may be written once, or once per way of getting there: failed read, empty read)
    sns = set(n for n, _ in sent)
    for sn, sk in sent:
        after = g.reachable(sn, skip_labels=('exc',), include_start=False)
        bad = [m for m in after if m is dn or m is rn or m in sns]
        c.check(not bad and g.exit in after, f, sk, 'the None sentinel is the last thing queued, exactly once, then the thread returns',
                witness='after the sentinel the thread can reach L%d again' % bad[0].lineno if bad else None, tag='sentinel-last' + ('' if len(sent) == 1 else ':%d' % sent.index((sn, sk))))
    # sentinel only when the read was empty: with a non-empty chunk no sentinel put can be reached before the next read, with an
    # empty one the data put cannot
    p_ = g.path(rn, sns, avoid={rn}, skip_labels=('exc',), include_start=False, assume=emptiness_facts(var, False))
    p2_ = g.path(rn, {dn}, avoid={rn}, skip_labels=('exc',), include_start=False, assume=emptiness_facts(var, True))
    c.check(p_ is None and p2_ is None, f, sent[0][1],
            'sentinel iff the read returned nothing; data chunks are queued otherwise',
            witness=('a non-empty chunk ends the stream: ' + g.describe_path(p_)) if p_ else (('an empty chunk is queued as data: ' + g.describe_path(p2_)) if p2_ else None),
            tag='sentinel-iff-empty')
    sn = sent[0][0]
    # every non-empty read is queued before the next read
    ok, p = g.must_pass(rn, {rn, g.exit}, {dn} | sns, skip_labels=('exc',))
    c.check(ok, f, dk, 'every read is followed by a put (chunk or sentinel) before the next read / exit',
            witness='path: ' + g.describe_path(p) if p else None, tag='every-chunk-queued')
    # consumer
    f2 = repo.func('popen_spawn:PopenSpawn.read_nonblocking')
    g2 = f2.cfg
    gets = cfg_nodes_with_call(f2, lambda k: callee_last(k) in ('get_nowait', 'get'))
    c.need(len(gets) == 1 and isinstance(gets[0][0].ast, ast.Assign), 'read_nonblocking: incoming = queue.get_nowait() not found')
    gn = gets[0][0]
    iv = gn.ast.targets[0].id
    tests = [t for t in g2.nodes if t.kind == 'test' and norm(t.ast) in ('%s is None' % iv, '%s is not None' % iv)]
    c.need(len(tests) == 1, 'sentinel test not found')
    edge = 'true' if 'is None' in norm(tests[0].ast) and 'not None' not in norm(tests[0].ast) else 'false'
    sreg = guard_region(g2, tests[0], edge)
    flags = [m for m in g2.nodes if m.kind == 'stmt' and stmt_assigns_attr(m.ast, '_read_reached_eof') is not None and is_const(m.ast.value, True)]
    c.check(len(flags) == 1 and flags[0] in sreg, f2, flags[0].ast if flags else tests[0].ast,
            'end of stream is flagged on the sentinel and only there', tag='eof-on-sentinel')
    apps = [m for m in g2.nodes if m.kind == 'stmt' and isinstance(m.ast, (ast.AugAssign, ast.Assign)) and iv in
            [x.id for x in ast.walk(m.ast.value) if isinstance(x, ast.Name)] and any(callee_last(k) == 'decode' for k in node_calls(m))]
    c.need(len(apps) == 1, 'append of the decoded item not found')
    an = apps[0]
    if isinstance(an.ast, ast.Assign) and isinstance(an.ast.targets[0], ast.Name) and isinstance(an.ast.value, ast.Call) and callee_last(an.ast.value) == 'decode':
        # the decoded chunk is first put into a local: the append is the statement that adds that local to the accumulated text
        tv = an.ast.targets[0].id
        adds = [m for m in g2.nodes if m.kind == 'stmt' and ((isinstance(m.ast, ast.AugAssign) and isinstance(m.ast.op, ast.Add) and is_name(m.ast.value, tv)) or
                                                               (isinstance(m.ast, ast.Assign) and isinstance(m.ast.value, ast.BinOp) and isinstance(m.ast.value.op, ast.Add)
                                                                and is_name(m.ast.value.right, tv) and isinstance(m.ast.targets[0], ast.Name)
                                                                and is_name(m.ast.value.left, m.ast.targets[0].id)))]
        if len(adds) == 1 and g2.path(an, {adds[0]}, skip_labels=('exc',)) is not None:
            okp, _p = g2.must_pass(an, {gn, g2.exit}, {adds[0]}, skip_labels=('exc',))
            if okp:
                an = adds[0]
    if isinstance(an.ast, ast.Assign) and isinstance(an.ast.targets[0], ast.Name) and \
            any(isinstance(k_.func, ast.Attribute) and k_.func.attr == 'append' and k_.args and is_name(k_.args[0], an.ast.targets[0].id) for k_ in calls_in(f2.node)):
        raise AnalysisError('read_nonblocking: the decoded item is collected in a list that is joined later: that every item reaches the text once and in order is not decided for that form')
    okd = isinstance(an.ast, ast.AugAssign) and isinstance(an.ast.op, ast.Add) or \
        (isinstance(an.ast, ast.Assign) and isinstance(an.ast.value, ast.BinOp) and isinstance(an.ast.value.op, ast.Add)
         and is_name(an.ast.value.left, an.ast.targets[0].id))
    c.check(okd, f2, an.ast, 'a dequeued item is appended (in order) to the accumulated text through the decoder', witness=norm(an.ast), kind='ast', tag='append-item')
    other = 'false' if edge == 'true' else 'true'
    ok, p = g2.must_pass(gn, {gn, g2.exit}, {an} | sreg, skip_labels=('exc',))
    c.check(ok, f2, an.ast, 'every dequeued non-sentinel item reaches the append before the next dequeue / exit',
            witness='path: ' + g2.describe_path(p) if p else None, tag='no-item-dropped')


def check_no_discard(c, f):
    g = f.cfg
    # data sources
    srcs = []
    for n in g.nodes:
        if n.kind != 'stmt' or not isinstance(n.ast, (ast.Assign, ast.AugAssign)):
            continue
        v = n.ast.value
        ks = [k for k in calls_in(v)]
        if any((dotted(k.func) or '') == 'os.read' or callee_last(k) in ('recv', 'get_nowait')
               or (callee_last(k) == 'read_nonblocking' and isinstance(k.func.value, ast.Call)) for k in ks):
            srcs.append(n)
        elif f.qual.startswith('popen_spawn:') and isinstance(v, ast.Attribute) and v.attr == '_buf':
            srcs.append(n)
    direct = [n for n in g.nodes if n.kind == 'stmt' and isinstance(n.ast, ast.Return) and isinstance(n.ast.value, ast.Call)
              and callee_last(n.ast.value) == 'read_nonblocking' and isinstance(n.ast.value.func.value, ast.Call)]
    if not srcs and direct:
        c.ok(f, direct[0].ast, 'the data read by the base class is returned directly', kind='flow', tag='no-discard')
        return
    c.need(srcs, '%s: no data source found' % f.qual)
    data = set()
    for n in srcs:
        data.update(assigned_names(n.ast))
    changed = True
    while changed:
        changed = False
        for n in g.nodes:
            if n.kind == 'stmt' and isinstance(n.ast, (ast.Assign, ast.AugAssign)):
                used = set(x.id for x in ast.walk(n.ast.value) if isinstance(x, ast.Name))
                if used & data:
                    for nm in assigned_names(n.ast):
                        if nm not in data:
                            data.add(nm)
                            changed = True
    first = min(srcs, key=lambda n: n.id)
    # nodes reachable after a successful read (normal successors of any source)
    after = set()
    for sn in srcs:
        starts = [s for s, l in sn.succ if l not in ('exc', 'raise')]
        after |= g.reachable(starts)
    problems = []
    ok_n = 0
    for n in after:
        if n.kind != 'stmt':
            continue
        if isinstance(n.ast, ast.Return):
            names = set(x.id for x in ast.walk(n.ast.value)) if False else \
                set(x.id for x in (ast.walk(n.ast.value) if n.ast.value is not None else []) if isinstance(x, ast.Name))
            carried = any(m.kind == 'stmt' and stmt_assigns_attr(m.ast, '_buf') is not None for m in g.nodes)
            if names & data:
                ok_n += 1
            else:
                problems.append((n, 'returns %s, which is not derived from the data already read (%s)' % (norm(n.ast.value), sorted(data))))
        elif isinstance(n.ast, ast.Raise):
            if n.ast.exc is None and n.in_handler is None:
                # bare re-raise: only fine if reachable solely through the exc edge of a source (nothing was read)
                pass
            # accepted idiom: guarded by emptiness of a data variable
            guarded = any(paths_entail_empty(g, n, v, skip_labels=() if n.in_handler is not None else ('exc',)) for v in data)
            # reached only via the exception edge of the source itself?
            if guarded:
                ok_n += 1
                continue
            # is there data at this point? only if some source's normal successor reaches it -- it does (n in after)
            # but a raise before any data variable has been (re)assigned on the path is fine: check that a source dominates it
            dom = any(g.dominated_by(n, {s}, skip_labels=())[0] for s in srcs)
            if not dom:
                # may be reached without a successful read (e.g. TIMEOUT / EOF decisions before reading)
                ok_n += 1
                continue
            problems.append((n, 'raises %s although data may already have been read into %s' % (raised_class(n.ast, f) or 'again', sorted(data))))
    if problems:
        for n, msg in problems:
            c.bad(f, n.ast, msg, kind='flow', tag='discard:' + norm(n.ast)[:50])
    else:
        c.ok(f, None, 'all %d explicit exits after a successful read hand the data on (variables %s)' % (ok_n, sorted(data)), kind='flow', tag='no-discard')


MUTANTS = [
    ('socket-timeout-cached', 'socket_pexpect', "        saved_timeout = self.socket.gettimeout()\n        try:\n            self.socket.settimeout(timeout)\n            yield\n        finally:\n            self.socket.settimeout(saved_timeout)", "        try:\n            self.socket.settimeout(timeout)\n            yield\n        finally:\n            self.socket.settimeout(self._saved)", 'D5'),
    ('socket-eof-after-decode', 'socket_pexpect', "                s = self.socket.recv(size)\n                if s == b'':\n                    self.flag_eof = True\n                    raise EOF(\"Socket closed\")\n                s = self._decoder.decode(s, final=False)\n", "                s = self._decoder.decode(self.socket.recv(size), final=False)\n                if not s:\n                    self.flag_eof = True\n                    raise EOF(\"Socket closed\")\n", 'D8'),
    ('base-eof-after-decode', 'spawnbase', "        if s == b'':\n            # BSD-style EOF\n            self.flag_eof = True\n            raise EOF('End Of File (EOF). Empty string style platform.')\n\n        s = self._decoder.decode(s, final=False)\n", "        s = self._decoder.decode(s, final=False)\n        if len(s) == 0:\n            self.flag_eof = True\n            raise EOF('End Of File (EOF). Empty string style platform.')\n", 'D8'),
    ('osread-size-plus', 'spawnbase', "s = os.read(self.child_fd, size)", "s = os.read(self.child_fd, size + 1)", 'D1'),
    ('loop-read-full-size', 'pty_spawn', "incoming += super(spawn, self).read_nonblocking(size - len(incoming))", "incoming += super(spawn, self).read_nonblocking(size)", 'D1'),
    ('loop-guard-or', 'pty_spawn', "            while len(incoming) < size and select(0):", "            while len(incoming) < size or select(0):", 'D1'),
    ('popen-split-off', 'popen_spawn', "r, self._buf = buf[:size], buf[size:]", "r, self._buf = buf[:size], buf[size + 1:]", 'D1'),
    ('popen-eof-split-off', 'popen_spawn', "                self._buf = buf[size:]\n                return buf[:size]", "                self._buf = buf[size:]\n                return buf[:size + 1]", 'D1'),
    ('no-repoll-dead', 'pty_spawn', "            if select(0):\n                return super(spawn, self).read_nonblocking(size)\n            self.flag_eof = True\n            raise EOF('End Of File (EOF). Braindead platform.')", "            self.flag_eof = True\n            raise EOF('End Of File (EOF). Braindead platform.')", 'D2'),
    ('no-repoll-slow', 'pty_spawn', "            if select(0):\n                return super(spawn, self).read_nonblocking(size)\n            self.flag_eof = True\n            raise EOF('End of File (EOF). Very slow platform.')", "            self.flag_eof = True\n            raise EOF('End of File (EOF). Very slow platform.')", 'D2'),
    ('eio-swallow-others', 'spawnbase', "                raise EOF('End Of File (EOF). Exception style platform.')\n            raise\n", "                raise EOF('End Of File (EOF). Exception style platform.')\n            s = b''\n", 'D3'),
    ('eio-inverted', 'spawnbase', "            if err.args[0] == errno.EIO:\n                # Linux-style EOF\n                self.flag_eof = True", "            if err.args[0] != errno.EIO:\n                # Linux-style EOF\n                self.flag_eof = True", 'D3'),
    ('sentinel-first', 'popen_spawn', "            if not buf:\n                # This indicates we have reached EOF\n                self._read_queue.put(None)\n                return\n\n            self._read_queue.put(buf)", "            if not buf:\n                # This indicates we have reached EOF\n                self._read_queue.put(None)\n                continue\n\n            self._read_queue.put(buf)", 'D4'),
    ('chunk-dropped-small', 'popen_spawn', "            self._read_queue.put(buf)\n", "            if len(buf) > 1:\n                self._read_queue.put(buf)\n", 'D4'),
    ('consumer-drops-item', 'popen_spawn', "                buf += self._decoder.decode(incoming, final=False)", "                if len(buf) + len(incoming) <= size:\n                    buf += self._decoder.decode(incoming, final=False)", 'D4'),
    ('loop-eof-discards', 'pty_spawn', "                    # Don't raise EOF, just return what we read so far.\n                    return incoming", "                    raise", 'D6'),
    ('socket-return-empty', 'socket_pexpect', "                self._log(s, 'read')\n                return s", "                self._log(s, 'read')\n                return self.string_type()", 'D6'),
    ('popen-eof-discards-buf', 'popen_spawn', "            if buf:\n                self._buf = buf[size:]\n                return buf[:size]\n            else:\n                self.flag_eof = True\n                raise EOF('End Of File (EOF).')", "            self.flag_eof = True\n            raise EOF('End Of File (EOF).')", 'D6'),
    ('socket-restore-not-finally', 'socket_pexpect', "        try:\n            self.socket.settimeout(timeout)\n            yield\n        finally:\n            self.socket.settimeout(saved_timeout)", "        self.socket.settimeout(timeout)\n        yield\n        self.socket.settimeout(saved_timeout)", 'D5'),
    ('fd-read-without-wait', 'fdpexpect', "            if self.child_fd not in rlist:\n                raise TIMEOUT('Timeout exceeded.')", "            pass", 'D7'),
    ('cached-fd', 'spawnbase', "s = os.read(self.child_fd, size)", "s = os.read(self.fileno_cached, size)", 'D3'),
]
PRESERVING = [
    ('popen-buffer-first', 'popen_spawn', "        if self._read_reached_eof:\n            # We have already finished reading. Use up any buffered data,\n            # then raise EOF\n            if buf:\n                self._buf = buf[size:]\n                return buf[:size]\n            else:\n                self.flag_eof = True\n                raise EOF('End Of File (EOF).')\n", "        if buf and (self._read_reached_eof or len(buf) >= size):\n            self._buf = buf[size:]\n            return buf[:size]\n        if self._read_reached_eof:\n            self.flag_eof = True\n            raise EOF('End Of File (EOF).')\n"),
    ('empty-test-not', 'spawnbase', "        if s == b'':\n            # BSD-style EOF", "        if not s:\n            # BSD-style EOF"),
]

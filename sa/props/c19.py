"""C19 Screen operations."""
import ast

from ..astx import (calls_in, dotted, norm, src, iter_nodes, assigned_targets, assigned_names,
                    const_value, is_const, parent_chain)
from ..lib import (call_arg, relation, truth, other, cmp_views, core, holds_region, conditions, found_test, found_tests, path_tests, entails_empty, paths_entail_empty, eval_conditions, relation_tests, atom_key, expand_condition, mode_mismatch_conditions, cfg_nodes_with_call, node_calls, returns, raises, stmt_assigns_attr, callee_last,
                   is_name, node_roots, guard_region, compare_parts, find_test_nodes)
from ..lib import *      # noqa: F401,F403  (path-condition helpers)
from ..linear import ctext, lin, Lin, slice_bounds
from ..loader import AnalysisError
from ..effects import attr_writes_closure, self_attr_writes, io_calls

EXPLANATION = (
    "Static analysis of the screen class: (D1) FRAME -- for every documented operation the transitive write set over "
    "the fields {grid, cursor, saved cursor, scroll region} (closed over self.method() calls) equals the set its "
    "documentation allows and requires (appendix A of DESIGN.md): erase/fill/put/insert/scroll touch the grid only, "
    "cursor moves the cursor only, save touches the saved cursor only, accessors nothing; nothing but the constructor "
    "writes rows/cols; (D2) accessors are effect-free, return a value on every path, and no call of an accessor has its "
    "result discarded; (D3) RANGE -- every internal call that passes coordinates computed from the cursor (cur_r+-k, "
    "cur_c+-k, rows, cols, constants) stays inside [1,rows]x[1,cols] given the cursor invariant and the dominating "
    "guards (symbolic interval analysis); otherwise the callee's clamp would turn an empty region into the current row; "
    "grid reads use clamped indices; (D4) insert_abs shifts right with a descending loop (reads ci-1, writes ci) and "
    "writes the new character after the shift; (D5) fill_region and get_region both clamp all four coordinates and "
    "normalise swapped corners the same way; (D6) cursor_back/forward/up/down move in the direction their name says, by "
    "count; save/restore copy same-named fields without crossing rows and columns; (D7) lf()/cr()/crlf() composition; (D8) the two scroll moves, evaluated abstractly for every grid height and scroll region of a small box: rows inside the region shift by one, the height is kept and no two rows end up as the same list object (shared with C18-D5); the routines are executed as a whole on row tokens, so slice assignment, insert/del/pop/append forms are all understood; (D2) also: an accessor that memoises its result must be reset by every routine that stores into the grid. "
    "NOT decided: cell-exact equality with a reference grid over operation sequences.")
TRUSTED = ["list indexing / range() semantics", "sa/ engine (effect closure, symbolic intervals)"]
ASSUMPTIONS = ["cursor invariant cur_r in [1,rows], cur_c in [1,cols] (established by C18-D6: every writer ends in cursor_constrain)",
               "rows >= 1 and cols >= 1"]
LEVEL_TEXT = ("Static analysis of named structural clauses of the screen operations: frame conditions by transitive effect "
              "analysis against a spec table taken from the documentation, accessor totality / dropped results, symbolic "
              "interval analysis of internally computed coordinates, loop dependence direction, sibling agreement, movement signs.")
LEVEL_NOTE = "Trusted: Python list semantics; analyser; cursor invariant from C18-D6. Not decided: cell-exact behaviour of sequences."
TECHNIQUE = "transitive effect analysis vs spec table + symbolic interval analysis (static analysis)"

GROUPS = {'w': {'w'}, 'cur': {'cur_r', 'cur_c'}, 'saved': {'cur_saved_r', 'cur_saved_c'}, 'scroll': {'scroll_row_start', 'scroll_row_end'}}
SPEC = {}
for m in ('_unicode', 'dump', 'pretty', 'get_abs', 'get', 'get_region', '_decode', 'set_tab', 'clear_tab', 'clear_all_tabs'):
    SPEC[m] = ()
for m in ('put_abs', 'put', 'insert_abs', 'insert', 'fill', 'fill_region', 'erase_end_of_line', 'erase_start_of_line', 'erase_line',
          'erase_down', 'erase_up', 'erase_screen', 'scroll_up', 'scroll_down'):
    SPEC[m] = ('w',)
for m in ('cursor_constrain', 'cursor_home', 'cursor_back', 'cursor_down', 'cursor_forward', 'cursor_up', 'cursor_force_position',
          'cursor_unsave', 'cursor_restore_attrs', 'cr'):
    SPEC[m] = ('cur',)
for m in ('cursor_save', 'cursor_save_attrs'):
    SPEC[m] = ('saved',)
for m in ('scroll_constrain', 'scroll_screen', 'scroll_screen_rows'):
    SPEC[m] = ('scroll',)
for m in ('lf', 'crlf', 'newline', 'cursor_up_reverse'):
    SPEC[m] = ('cur', 'w')
ANSI_SPEC = {'write_ch': ('cur', 'w'), 'write': (), 'process': (), 'process_list': (), 'flush': ()}
ACCESSORS = ('get', 'get_abs', 'get_region', 'dump', 'pretty', '_unicode')
ALL_FIELDS = set().union(*GROUPS.values())


def run(R):
    repo = R.repo
    scr = repo.cls('screen')
    with R.clause('D1', 'FRAME', floor=44, desc='each operation writes exactly the field groups its documentation allows') as c:
        for name, groups in sorted(SPEC.items()):
            f = scr.methods.get(name)
            if f is None:
                raise AnalysisError('anchor vanished: screen.%s' % name)
            check_frame(c, repo, f, groups)
        ansi = repo.cls('ANSI')
        for name, groups in sorted(ANSI_SPEC.items()):
            f = ansi.methods.get(name)
            if f is None:
                raise AnalysisError('anchor vanished: ANSI.%s' % name)
            check_frame(c, repo, f, groups)
        # rows / cols / encoding: constructor only
        for cl in (scr, ansi, repo.cls('term')):
            for f in cl.methods.values():
                w = self_attr_writes(f)
                for a in ('rows', 'cols'):
                    if a in w:
                        c.check(f.name == '__init__' and cl is scr, f, w[a][0], 'the screen dimensions are set by the constructor only', kind='flow', tag='dims:' + f.qual)
    with R.clause('D2', 'DROP', floor=8, desc='accessors are total and effect-free; no accessor result is discarded') as c:
        for name in ACCESSORS:
            f = scr.methods[name]
            g = f.cfg
            falls = [p for p, l in g.exit.pred if not (p.kind == 'stmt' and isinstance(p.ast, ast.Return) and p.ast.value is not None)]
            c.check(not falls, f, falls[0].ast if falls and falls[0].ast is not None else f.node,
                    '%s() returns a value on every path (never falls off the end returning None)' % name,
                    witness='path ends at L%d without a return value' % falls[0].lineno if falls else None, tag='returns:' + name)
            c.check(not io_calls(f), f, None, '%s() performs no I/O' % name, kind='flow', tag='no-io:' + name)
        check_derived_state(c, repo, scr)
        n = 0
        for cl in (scr, repo.cls('ANSI')):
            for f in cl.methods.values():
                for st in iter_nodes(f.node):
                    if isinstance(st, ast.Expr) and isinstance(st.value, ast.Call) and callee_last(st.value) in ACCESSORS \
                            and ctext(st.value.func.value, f) == 'self':
                        n += 1
                        # (a routine that does return a value on every path may call an accessor just for its range check -- a probe; what the
                        # rule is after is the result that was MEANT to be returned: "returns a value on every path" above covers the accessors)
                        if f.name in ACCESSORS and all(p_.kind == 'stmt' and isinstance(p_.ast, ast.Return) and p_.ast.value is not None for p_, l_ in f.cfg.exit.pred):
                            continue
                        c.bad(f, st, 'the result of the accessor %s() is computed and thrown away' % callee_last(st.value), kind='ast', tag='dropped:' + f.qual)
        c.ok(scr.methods['get'], None, 'no statement in screen/ANSI discards an accessor result (%d candidates)' % n, kind='ast', tag='no-dropped')
    with R.clause('D3', 'RANGE', floor=12, desc='internally computed coordinates stay inside the screen; grid reads use clamped indices') as c:
        check_ranges(c, repo)
    with R.clause('D4', 'DEP', floor=4, desc='insert_abs shifts right: descending loop, read ci-1 write ci, new character last') as c:
        check_insert(c, scr.methods['insert_abs'])
    with R.clause('D8', 'ALIAS', floor=6, desc='scroll moves: rows shift by one inside the region, height kept, no two rows share a list object') as c:
        from .c18 import check_scroll
        for name in ('scroll_up', 'scroll_down'):
            check_scroll(c, scr.methods[name])
    with R.clause('D5', 'SIB', floor=6, desc='fill_region and get_region clamp and normalise corners identically') as c:
        check_regions(c, scr)
    with R.clause('D6', 'SIGN', floor=8, desc='movement signs; save/restore copy same-named fields') as c:
        check_moves(c, scr)
    with R.clause('D7', 'COMPOSE', floor=5, desc='cr / lf / crlf / put / insert composition') as c:
        check_compose(c, scr)


def grid_writers(repo):
    """functions of screen / ANSI that store into the grid directly (cell store, row store, slice store, list mutator, del)"""
    out = []
    for cl in (repo.cls('screen'), repo.cls('ANSI')):
        for f in cl.methods.values():
            hit = None
            for st in iter_nodes(f.node):
                tgs = []
                if isinstance(st, (ast.Assign, ast.AugAssign)):
                    tgs = assigned_targets(st)
                elif isinstance(st, ast.Delete):
                    tgs = st.targets
                elif isinstance(st, ast.Call) and isinstance(st.func, ast.Attribute) and st.func.attr in ('append', 'pop', 'insert', 'remove', 'extend', 'clear', 'reverse', 'sort'):
                    tgs = [ast.Subscript(value=st.func.value, slice=ast.Constant(value=0), ctx=ast.Store())]
                for tg in tgs:
                    root, depth = tg, 0
                    while isinstance(root, ast.Subscript):
                        root, depth = root.value, depth + 1
                    if isinstance(root, ast.Attribute) and root.attr == 'w' and is_name(root.value, 'self') and depth >= 1:
                        hit = st
                    elif isinstance(root, ast.Name) and depth >= 1 and ctext(root, f, stale_ok=True) == 'self.w':
                        hit = st          # through a local that holds the grid (`w = self.w`)
            if hit is not None and f not in [x for x, _ in out]:
                out.append((f, hit))
    return out


def check_derived_state(c, repo, scr):
    """accessors describe the grid as it is NOW: they keep no state of their own, or -- if one memoises its result in an attribute --
    every routine that stores into the grid resets that attribute on all of its paths"""
    cached = {}
    for name in ACCESSORS + ('__str__',):
        f = scr.methods.get(name)
        if f is None:
            continue
        for a, chain in attr_writes_closure(repo, f).items():
            cached.setdefault(a, (f, chain))
    if not cached:
        c.ok(scr.methods['get'], None, 'no accessor writes an attribute of the screen (nothing derived from the grid is remembered)', kind='flow', tag='accessors-stateless')
        return
    writers = grid_writers(repo)
    for a, (af, chain) in sorted(cached.items()):
        if a in ALL_FIELDS:
            c.bad(af, None, 'the accessor %s() writes the screen field %s' % (af.name, a), witness=' -> '.join(chain), kind='flow', tag='accessor-writes:' + a)
            continue
        for wf, st in writers:
            g = wf.cfg
            resets = [n for n in g.nodes if n.kind == 'stmt' and stmt_assigns_attr(n.ast, a) is not None]
            ok = bool(resets) and g.must_pass(g.entry, {g.exit}, set(resets), skip_labels=('exc', 'raise'))[0]
            c.check(ok, wf, st, '%s() stores into the grid, so it resets %s, which the accessor %s() fills from the grid and then reuses '
                    '(otherwise str()/pretty() keep describing the grid as it was)' % (wf.name, a, af.name),
                    witness='no assignment to self.%s on every path of %s' % (a, wf.qual), kind='path', tag='stale:%s:%s' % (a, wf.name))


def check_frame(c, repo, f, groups):
    ws = attr_writes_closure(repo, f)
    wrote = set(a for a in ws if a in ALL_FIELDS)
    allowed = set().union(*[GROUPS[g] for g in groups]) if groups else set()
    extra = wrote - allowed
    if extra:
        a = sorted(extra)[0]
        c.bad(f, None, '%s() also changes %s, which its documentation does not allow (allowed: %s)'
              % (f.name, sorted(extra), sorted(groups) or 'nothing'), witness='via ' + ' -> '.join(ws[a]), kind='flow', tag='frame-extra:' + f.name)
        return
    missing = [g for g in groups if not (GROUPS[g] <= wrote)]
    if missing:
        c.bad(f, None, '%s() no longer changes %s, which is what it is documented to do' % (f.name, missing),
              witness='transitive write set: %s' % sorted(wrote), kind='flow', tag='frame-missing:' + f.name)
        return
    other = sorted(a for a in ws if a not in ALL_FIELDS and a not in ('rows', 'cols'))
    c.ok(f, None, '%s(): transitive write set %s == documented frame %s' % (f.name, sorted(wrote), sorted(groups) or '{}'), kind='flow', tag='frame:' + f.name)


# ---- symbolic intervals: bound = (base, k), base in 'c' / 'rows' / 'cols'

def b_le(a, b):
    if a[0] == b[0]:
        return a[1] <= b[1]
    if a[0] == 'c' and b[0] in ('rows', 'cols'):
        return a[1] <= 1 + b[1]
    return False


def b_add(a, k):
    return (a[0], a[1] + k)


NEG_INF = ('c', -10 ** 9)
POS_INF = ('c', 10 ** 9)


def interval(e, f, facts):
    """(lo, hi) of an integer expression in method f, or None if it does not
    depend on cursor / dimensions only."""
    t = norm(e)
    if t in facts:
        return facts[t]
    if isinstance(e, ast.Constant) and isinstance(e.value, int) and not isinstance(e.value, bool):
        return (('c', e.value), ('c', e.value))
    if t == 'self.rows':
        return (('rows', 0), ('rows', 0))
    if t == 'self.cols':
        return (('cols', 0), ('cols', 0))
    if t == 'self.cur_r':
        return (('c', 1), ('rows', 0))
    if t == 'self.cur_c':
        return (('c', 1), ('cols', 0))
    if isinstance(e, ast.BinOp) and isinstance(e.op, (ast.Add, ast.Sub)):
        k = const_value(e.right, None)
        base = interval(e.left, f, facts)
        if base is not None and isinstance(k, int):
            if isinstance(e.op, ast.Sub):
                k = -k
            return (b_add(base[0], k), b_add(base[1], k))
    return None


def guard_facts(f, node):
    """refinements of cur_r / cur_c from the tests dominating *node*"""
    g = f.cfg
    facts = {}
    for t in g.nodes:
        if t.kind != 'test':
            continue
        cp = compare_parts(t.ast)
        if not cp:
            continue
        for edge in ('true', 'false'):
            if node not in guard_region(g, t, edge):
                continue
            l, op, r = norm(cp[0]), cp[1], norm(cp[2])
            opn = type(op)
            if edge == 'false':
                opn = {ast.Lt: ast.GtE, ast.LtE: ast.Gt, ast.Gt: ast.LtE, ast.GtE: ast.Lt, ast.Eq: ast.NotEq, ast.NotEq: ast.Eq}.get(opn)
            for fld, dim in (('self.cur_r', 'rows'), ('self.cur_c', 'cols')):
                cur = facts.get(fld, (('c', 1), (dim, 0)))
                if l == fld and r == 'self.' + dim:
                    if opn is ast.Lt:
                        cur = (cur[0], (dim, -1))
                    elif opn is ast.NotEq:
                        cur = (cur[0], (dim, -1))
                elif l == fld and isinstance(cp[2], ast.Constant) and isinstance(cp[2].value, int):
                    k = cp[2].value
                    if opn is ast.Gt:
                        cur = (('c', max(cur[0][1], k + 1)), cur[1])
                    elif opn is ast.GtE:
                        cur = (('c', max(cur[0][1], k)), cur[1])
                    elif opn is ast.NotEq and k == 1:
                        cur = (('c', 2), cur[1])
                elif r == fld and l == 'self.' + dim and opn is ast.Gt:
                    cur = (cur[0], (dim, -1))
                facts[fld] = cur
    return facts


COORD_CALLS = {'fill_region': ('rows', 'cols', 'rows', 'cols'), 'put_abs': ('rows', 'cols'), 'get_abs': ('rows', 'cols'),
               'insert_abs': ('rows', 'cols'), 'get_region': ('rows', 'cols', 'rows', 'cols')}


def check_ranges(c, repo):
    n = 0
    for cl in (repo.cls('screen'), repo.cls('ANSI')):
        for f in cl.methods.values():
            g = f.cfg
            for node, k in cfg_nodes_with_call(f, lambda k: callee_last(k) in COORD_CALLS and ctext(k.func.value, f) == 'self'):
                dims = COORD_CALLS[callee_last(k)]
                facts = guard_facts(f, node)
                for i, (a, dim) in enumerate(zip(k.args, dims)):
                    iv = interval(a, f, facts)
                    if iv is None:
                        continue     # a caller-supplied coordinate: the callee clamps it ("nearest edge")
                    n += 1
                    ok = b_le(('c', 1), iv[0]) and b_le(iv[1], (dim, 0))
                    c.check(ok, f, k, 'argument %d of %s() (%s) lies in [1, %s] on every path here' % (i + 1, callee_last(k), norm(a), dim),
                            witness='range [%s, %s]: outside the screen the callee clamps it back, turning an empty region into a real one'
                                    % (fmt(iv[0]), fmt(iv[1])), kind='alg', tag='range:%s:%s:%d' % (f.name, callee_last(k), i))
    c.need(n >= 10, 'expected >= 10 internally computed coordinates, found %d' % n)
    # grid reads: self.w[r-1][c-1] with r, c clamped
    f = repo.func('screen:screen.get_abs')
    g = f.cfg
    subs = [x for x in iter_nodes(f.node) if isinstance(x, ast.Subscript) and isinstance(x.value, ast.Subscript) and norm(x.value.value) == 'self.w']
    c.need(len(subs) == 1, 'get_abs: grid read not found')
    x = subs[0]
    for idx, bound, what in ((x.value.slice, 'self.rows', 'row'), (x.slice, 'self.cols', 'column')):
        L = lin(idx, f, keep=tuple(f.params))
        ok = L is not None and L.const == -1 and len(L.terms) == 1 and list(L.terms.values())[0] == 1
        var = list(L.terms)[0] if ok else None
        clamp = ok and any(n_.kind == 'stmt' and isinstance(n_.ast, ast.Assign) and var in assigned_names(n_.ast) and isinstance(n_.ast.value, ast.Call)
                           and dotted(n_.ast.value.func) == 'constrain' and [norm(a) for a in n_.ast.value.args] == [var, '1', bound]
                           and g.dominated_by(g.node_for(x), {n_})[0] for n_ in g.nodes)
        c.check(bool(clamp), f, x, 'get_abs reads the %s at <clamped to [1, %s]> - 1 (coordinates outside the screen mean the nearest edge)' % (what, bound),
                witness=norm(idx), kind='alg', tag='read-%s' % what)


def fmt(b):
    if b[0] == 'c':
        return str(b[1])
    return b[0] + ('%+d' % b[1] if b[1] else '')


def check_insert(c, f):
    g = f.cfg
    loops = [n for n in iter_nodes(f.node) if isinstance(n, ast.For)]
    c.need(len(loops) == 1, 'insert_abs: loop not found')
    loop = loops[0]
    it = loop.iter
    ok = isinstance(it, ast.Call) and dotted(it.func) == 'range' and len(it.args) == 3 and norm(it.args[0]) == 'self.cols' \
        and is_name(it.args[1], f.params[2]) and is_const(it.args[2], -1)
    c.check(ok, f, loop, 'the shift loop runs from the last column down to c+1 (descending: each cell is read before it is overwritten)', witness=norm(it), kind='alg', tag='descending')
    ci = loop.target.id if isinstance(loop.target, ast.Name) else None
    ks = [k for k in calls_in(loop) if callee_last(k) == 'put_abs']
    ok = len(ks) == 1 and len(ks[0].args) == 3 and is_name(ks[0].args[0], f.params[1]) and is_name(ks[0].args[1], ci) and \
        isinstance(ks[0].args[2], ast.Call) and callee_last(ks[0].args[2]) == 'get_abs' and is_name(ks[0].args[2].args[0], f.params[1]) and \
        lin(ks[0].args[2].args[1], f, keep=(ci,)) == Lin(-1, {ci: 1})
    c.check(ok, f, ks[0] if ks else loop, 'cell ci receives the content of cell ci-1 of the same row', witness=norm(ks[0]) if ks else '', kind='alg', tag='shift-by-one')
    after = [k for k in calls_in(f.node) if callee_last(k) == 'put_abs' and not any(p is loop for p in parent_chain(k))]
    ok = len(after) == 1 and [norm(a) for a in after[0].args] == [f.params[1], f.params[2], f.params[3]]
    hdr = g.node_of_stmt(loop)
    okd = ok and g.dominated_by(g.node_for(after[0]), {hdr})[0] and g.path(g.node_for(after[0]), hdr, skip_labels=('exc',)) is None
    c.check(okd, f, after[0] if after else loop, 'the new character is written at (r, c) after the shift', kind='path', tag='write-last')
    cl = [n for n in g.nodes if n.kind == 'stmt' and isinstance(n.ast, ast.Assign) and isinstance(n.ast.value, ast.Call) and dotted(n.ast.value.func) == 'constrain']
    want_c = sorted([(f.params[1], (f.params[1], '1', 'self.rows')), (f.params[2], (f.params[2], '1', 'self.cols'))])
    got_c = sorted((assigned_names(n.ast)[0], tuple(norm(a) for a in n.ast.value.args)) for n in cl)
    c.check(got_c == want_c and all(g.dominated_by(hdr, {n})[0] for n in cl), f, cl[0].ast if cl else None, 'r is clamped to [1, rows] and c to [1, cols] before the shift',
            witness=str(got_c), kind='path', tag='clamped-first')


def region_skeleton(f):
    g = f.cfg
    cons = []
    for n in iter_nodes(f.node):
        if isinstance(n, ast.Assign) and isinstance(n.value, ast.Call) and dotted(n.value.func) == 'constrain':
            cons.append((assigned_names(n)[0], tuple(norm(a) for a in n.value.args)))
        elif isinstance(n, ast.Assign) and isinstance(n.value, ast.Call) and dotted(n.value.func) in ('min', 'max') and len(n.value.args) == 2 and assigned_names(n):
            # the same two-sided clamp written with min / max: min(max(v, lo), hi) or max(min(v, hi), lo)
            outer, k_ = dotted(n.value.func), n.value
            inner = [a for a in k_.args if isinstance(a, ast.Call) and dotted(a.func) == ('max' if outer == 'min' else 'min') and len(a.args) == 2]
            rest = [a for a in k_.args if a not in inner]
            if len(inner) == 1 and len(rest) == 1:
                v_ = [a for a in inner[0].args if isinstance(a, ast.Name)]
                b_ = [a for a in inner[0].args if a not in v_[:1]]
                if v_ and len(b_) == 1:
                    lo, hi = (b_[0], rest[0]) if outer == 'min' else (rest[0], b_[0])
                    cons.append((assigned_names(n)[0], (norm(v_[0]), norm(lo), norm(hi))))
    swaps = []
    for n in iter_nodes(f.node):
        if isinstance(n, ast.If) and isinstance(n.test, ast.Compare) and len(n.body) == 1 and isinstance(n.body[0], ast.Assign) \
                and isinstance(n.body[0].targets[0], ast.Tuple):
            a = n.body[0]
            tg, vl = a.targets[0], a.value
            if isinstance(vl, ast.Tuple) and len(tg.elts) == 2 and len(vl.elts) == 2 and \
                    norm(tg.elts[0]) == norm(vl.elts[1]) and norm(tg.elts[1]) == norm(vl.elts[0]):
                # the test, read as `<greater> > <smaller>` whichever way round it is written; None if it is not a strict ordering test
                gt = [(norm(a_), norm(b_)) for a_, op, b_ in cmp_views(n.test) if op is ast.Gt]
                swaps.append((gt[0] if gt else None, (norm(tg.elts[0]), norm(tg.elts[1]))))
    return cons, swaps


def check_regions(c, scr):
    f1, f2 = scr.methods['fill_region'], scr.methods['get_region']
    for f in (f1, f2):
        cons, swaps = region_skeleton(f)
        p = f.params[1:5]
        want = [(p[0], (p[0], '1', 'self.rows')), (p[2], (p[2], '1', 'self.rows')), (p[1], (p[1], '1', 'self.cols')), (p[3], (p[3], '1', 'self.cols'))]
        c.check(sorted(cons) == sorted(want), f, None, '%s clamps rows to [1, rows] and columns to [1, cols]' % f.name, witness=str(cons), kind='alg', tag='clamps:' + f.name)
        wswap = [((p[0], p[2]), (p[0], p[2])), ((p[1], p[3]), (p[1], p[3]))]
        okw = len(swaps) == 2 and all(s_[0] == w_[0] and set(s_[1]) == set(w_[1]) for s_, w_ in zip(swaps, wswap))
        c.check(okw, f, None, '%s normalises swapped corners (row pair and column pair separately)' % f.name, witness=str(swaps), kind='alg', tag='swaps:' + f.name)
        loops = [n for n in iter_nodes(f.node) if isinstance(n, ast.For)]
        g_ = f.cfg

        def iter_text(lp):
            # the range may be built in a local first, provided its bounds are final by then (after the clamps and swaps)
            it = lp.iter
            if isinstance(it, ast.Name):
                ds = [n for n in g_.nodes if n.kind == 'stmt' and isinstance(n.ast, ast.Assign) and it.id in assigned_names(n.ast)]
                if len(ds) == 1:
                    used = set(x.id for x in ast.walk(ds[0].ast.value) if isinstance(x, ast.Name))
                    later = [n for n in g_.nodes if n.kind == 'stmt' and n is not ds[0] and (set(assigned_names(n.ast)) & used)
                             and g_.path(ds[0], n, skip_labels=('exc',), include_start=False) is not None]
                    if not later:
                        return norm(ds[0].ast.value)
            return norm(it)
        ok = len(loops) == 2 and iter_text(loops[0]) == 'range(%s, %s + 1)' % (p[0], p[2]) and iter_text(loops[1]) == 'range(%s, %s + 1)' % (p[1], p[3])
        if not loops and f.name == 'get_region':
            # the same region taken with slices: rows self.w[rs-1:re], of each row the cells row[cs-1:ce] (0-based, end exclusive = rs..re / cs..ce inclusive)
            sl = [x for x in ast.walk(f.node) if isinstance(x, ast.Subscript) and isinstance(x.slice, ast.Slice) and x.slice.step is None
                  and x.slice.lower is not None and x.slice.upper is not None]
            rows_ = [x for x in sl if norm(x.value) == 'self.w']
            cells_ = [x for x in sl if isinstance(x.value, ast.Name)]

            def is_lin(e, name, k):
                l_ = lin(e, f)
                return l_ is not None and l_ == Lin(k, {name: 1})
            if len(rows_) == 1 and len(cells_) == 1:
                ok = is_lin(rows_[0].slice.lower, p[0], -1) and is_lin(rows_[0].slice.upper, p[2], 0) and \
                    is_lin(cells_[0].slice.lower, p[1], -1) and is_lin(cells_[0].slice.upper, p[3], 0)
                c.check(ok, f, rows_[0], '%s visits rows rs..re and columns cs..ce inclusive' % f.name,
                        witness='%s / %s' % (norm(rows_[0]), norm(cells_[0])), kind='alg', tag='loops:' + f.name)
                # the rest of this routine's obligations are written for the cell-by-cell form
                raise AnalysisError('get_region: the region is taken with slices; what is done with the cells (joined into one text per row, in order) is not decided for that form')
        c.check(ok, f, loops[0] if loops else None, '%s visits rows rs..re and columns cs..ce inclusive' % f.name, witness=str([norm(l.iter) for l in loops]), kind='alg', tag='loops:' + f.name)
    def loopvars(f):
        ls = [n for n in iter_nodes(f.node) if isinstance(n, ast.For)]
        return [l.target.id for l in ls if isinstance(l.target, ast.Name)]
    ks = [k for k in calls_in(f1.node) if callee_last(k) == 'put_abs']
    ok = len(ks) == 1 and [norm(a) for a in ks[0].args] == loopvars(f1)[:2] + [f1.params[5]]
    c.check(ok, f1, ks[0] if ks else None, 'fill_region writes the fill character at every visited cell', kind='ast', tag='fill-cell')
    ks = [k for k in calls_in(f2.node) if callee_last(k) == 'get_abs']
    ok = len(ks) == 1 and [norm(a) for a in ks[0].args] == loopvars(f2)[:2]
    c.check(ok, f2, ks[0] if ks else None, 'get_region reads every visited cell', kind='ast', tag='get-cell')
    # accumulation: each cell appended to the line (in column order), each line appended once per row, the list returned
    g2 = f2.cfg
    ls2 = [n for n in iter_nodes(f2.node) if isinstance(n, ast.For)]
    if len(ls2) == 2 and ks and isinstance(ks[0]._parent, ast.Assign):
        chv = ks[0]._parent.targets[0].id
        outer, inner = ls2[0], ls2[1]
        acc = [s_ for s_ in inner.body if isinstance(s_, (ast.Assign, ast.AugAssign)) and isinstance(s_.targets[0] if isinstance(s_, ast.Assign) else s_.target, ast.Name)
               and any(isinstance(x, ast.Name) and x.id == chv for x in ast.walk(s_.value))]
        okacc = len(acc) == 1 and (isinstance(acc[0], ast.AugAssign) and isinstance(acc[0].op, ast.Add) and is_name(acc[0].value, chv) or
                                   isinstance(acc[0], ast.Assign) and isinstance(acc[0].value, ast.BinOp) and isinstance(acc[0].value.op, ast.Add)
                                   and is_name(acc[0].value.left, acc[0].targets[0].id) and is_name(acc[0].value.right, chv))
        c.check(okacc, f2, acc[0] if acc else inner, 'each cell read is appended to the right of the line being built', witness=norm(acc[0]) if acc else 'missing', kind='ast', tag='get-acc')
        lv_ = (acc[0].targets[0].id if isinstance(acc[0], ast.Assign) else acc[0].target.id) if acc else None
        apps_ = [s_ for s_ in outer.body if isinstance(s_, ast.Expr) and isinstance(s_.value, ast.Call) and callee_last(s_.value) == 'append' and s_.value.args and is_name(s_.value.args[0], lv_)]
        resets = [s_ for s_ in outer.body if isinstance(s_, ast.Assign) and lv_ in assigned_names(s_) and isinstance(s_.value, ast.Constant) and s_.value.value == '']
        rr2 = returns(f2)
        okl = len(apps_) == 1 and len(resets) == 1 and outer.body.index(resets[0]) < outer.body.index(inner) < outer.body.index(apps_[0]) and \
            len(rr2) == 1 and isinstance(apps_[0].value.func.value, ast.Name) and is_name(rr2[0].ast.value, apps_[0].value.func.value.id)
        c.check(okl, f2, apps_[0] if apps_ else outer, 'each row starts empty, is appended to the result once after its columns, and the result list is returned', kind='ast', tag='get-rows')


def check_moves(c, scr):
    for name, fld, sign in (('cursor_back', 'cur_c', -1), ('cursor_forward', 'cur_c', 1), ('cursor_up', 'cur_r', -1), ('cursor_down', 'cur_r', 1)):
        f = scr.methods[name]
        asg = [n for n in iter_nodes(f.node) if isinstance(n, ast.Assign) and stmt_assigns_attr(n, fld) is not None]
        other = [n for n in iter_nodes(f.node) if isinstance(n, ast.Assign) and stmt_assigns_attr(n, 'cur_r' if fld == 'cur_c' else 'cur_c') is not None]
        L = lin(asg[0].value, f, keep=(f.params[1],)) if len(asg) == 1 else None
        ok = L is not None and L == Lin(0, {'self.' + fld: 1, f.params[1]: sign}) and not other
        c.check(ok, f, asg[0] if asg else None, '%s moves %s by %scount and touches nothing else' % (name, fld, '+' if sign > 0 else '-'), witness='%r' % L, kind='alg', tag='move:' + name)
        c.check(is_const(f.param_default(f.params[1]), 1), f, f.node, '%s defaults to one step' % name, kind='ast', tag='default:' + name)
    f = scr.methods['cursor_save_attrs']
    pairs = dict((norm(n.targets[0]), norm(n.value)) for n in iter_nodes(f.node) if isinstance(n, ast.Assign))
    c.check(pairs == {'self.cur_saved_r': 'self.cur_r', 'self.cur_saved_c': 'self.cur_c'}, f, None, 'save copies row to saved row and column to saved column', witness=str(pairs), kind='ast', tag='save')
    f = scr.methods['cursor_restore_attrs']
    ks = [k for k in calls_in(f.node) if callee_last(k) == 'cursor_home']
    ok = len(ks) == 1 and [norm(a) for a in ks[0].args] == ['self.cur_saved_r', 'self.cur_saved_c']
    c.check(ok, f, ks[0] if ks else None, 'restore goes to (saved row, saved column)', witness=norm(ks[0]) if ks else '', kind='ast', tag='restore')
    f = scr.methods['cursor_home']
    pairs = dict((norm(n.targets[0]), norm(n.value)) for n in iter_nodes(f.node) if isinstance(n, ast.Assign))
    c.check(pairs == {'self.cur_r': f.params[1], 'self.cur_c': f.params[2]}, f, None, 'cursor_home(r, c) sets row from r and column from c', witness=str(pairs), kind='ast', tag='home')
    c.check(is_const(f.param_default(f.params[1]), 1) and is_const(f.param_default(f.params[2]), 1), f, f.node, 'cursor_home() without arguments goes to (1, 1)', kind='ast', tag='home-default')
    for name, tgt in (('cursor_save', 'cursor_save_attrs'), ('cursor_unsave', 'cursor_restore_attrs'), ('cursor_force_position', 'cursor_home')):
        f = scr.methods[name]
        ks = [k for k in calls_in(f.node)]
        c.check(len(ks) == 1 and callee_last(ks[0]) == tgt, f, ks[0] if ks else None, '%s delegates to %s' % (name, tgt), kind='ast', tag='alias:' + name)


def argvals(args, f):
    """argument values as linear forms over the screen's fields, with locals that merely hold a field (`row = self.cur_r`) written out"""
    out = []
    for e in args:
        l_ = lin(e, f)
        out.append(repr(l_) if l_ is not None else norm(e))
    return out


def argvals_of(texts, f):
    return argvals([ast.parse(t, mode='eval').body for t in texts], f)


def check_compose(c, scr):
    f = scr.methods['cr']
    ks = [k for k in calls_in(f.node)]
    c.check(len(ks) == 1 and callee_last(ks[0]) == 'cursor_home' and argvals(ks[0].args, f) == argvals_of(['self.cur_r', '1'], f), f, ks[0] if ks else None,
            'cr() goes to column 1 of the current row', kind='ast', tag='cr')
    f = scr.methods['lf']
    g = f.cfg
    names = [callee_last(k) for k in calls_in(f.node)]
    t = [x for x in g.nodes if x.kind == 'test']
    olds = [n.targets[0].id for n in iter_nodes(f.node) if isinstance(n, ast.Assign) and isinstance(n.targets[0], ast.Name) and norm(n.value) == 'self.cur_r']
    ov = olds[0] if olds else 'old_r'
    ok = names[:1] == ['cursor_down'] and len(t) == 1 and norm(t[0].ast) in ('%s == self.cur_r' % ov, 'self.cur_r == %s' % ov)
    sc = [n for n in (guard_region(g, t[0], 'true') if t else []) if any(callee_last(k) == 'scroll_up' for k in node_calls(n))]
    er = [n for n in (guard_region(g, t[0], 'true') if t else []) if any(callee_last(k) == 'erase_line' for k in node_calls(n))]
    c.check(ok and len(sc) == 1 and len(er) == 1 and g.dominated_by(er[0], {sc[0]})[0], f, t[0].ast if t else None,
            'lf(): move down; only if the cursor could not move, scroll up and then blank the new last line', witness=str(names), kind='path', tag='lf')
    f = scr.methods['cursor_up_reverse']
    g = f.cfg
    names = [callee_last(k) for k in calls_in(f.node)]
    olds = [n.targets[0].id for n in iter_nodes(f.node) if isinstance(n, ast.Assign) and isinstance(n.targets[0], ast.Name) and norm(n.value) == 'self.cur_r']
    t = [x for x in g.nodes if x.kind == 'test']
    ok = names[:1] == ['cursor_up'] and len(t) == 1 and bool(olds) and norm(t[0].ast) in ('%s == self.cur_r' % olds[0], 'self.cur_r == %s' % olds[0])
    sc = [n for n in (guard_region(g, t[0], 'true') if t else []) if any(callee_last(k).startswith('scroll_') for k in node_calls(n))]
    c.check(ok and len(sc) == 1, f, t[0].ast if t else None, 'reverse index: move up; scroll only if the cursor could not move', witness=str(names), kind='path', tag='reverse-index')
    for name, first, args, guard in (('erase_down', 'erase_end_of_line', ['self.cur_r + 1', '1', 'self.rows', 'self.cols'], 'self.cur_r < self.rows'),
                                     ('erase_up', 'erase_start_of_line', ['self.cur_r - 1', '1', '1', 'self.cols'], 'self.cur_r > 1')):
        f = scr.methods[name]
        g = f.cfg
        k1 = cfg_nodes_with_call(f, lambda k: callee_last(k) == first)
        k2 = cfg_nodes_with_call(f, lambda k: callee_last(k) == 'fill_region')
        def val(e):
            # the value as a linear form over the screen's fields, with locals that merely hold a field (`row = self.cur_r`) written out
            l_ = lin(e, f)
            return repr(l_) if l_ is not None else norm(e)
        want_ = sorted(val(ast.parse(a_, mode='eval').body) for a_ in args)
        ok = len(k1) == 1 and len(k2) == 1 and g.dominated_by(g.exit, {k1[0][0]})[0] and sorted(val(a) for a in k2[0][1].args[:4]) == want_
        c.check(ok, f, k2[0][1] if k2 else None, '%s() = %s() on the current line + the whole lines %s it' % (name, first, 'below' if name == 'erase_down' else 'above'),
                witness=norm(k2[0][1]) if k2 else 'missing', kind='ast', tag='compose-' + name)
    f = scr.methods['crlf']
    names = [callee_last(k) for k in calls_in(f.node)]
    c.check(names == ['cr', 'lf'], f, None, 'crlf() = cr() then lf()', witness=str(names), kind='ast', tag='crlf')
    f = scr.methods['put']
    ks = [k for k in calls_in(f.node) if callee_last(k) == 'put_abs']
    c.check(len(ks) == 1 and argvals(ks[0].args, f) == argvals_of(['self.cur_r', 'self.cur_c', 'ch'], f), f, ks[0] if ks else None, 'put() writes at the cursor', kind='ast', tag='put')
    f = scr.methods['insert']
    ks = [k for k in calls_in(f.node) if callee_last(k) == 'insert_abs']
    c.check(len(ks) == 1 and argvals(ks[0].args, f) == argvals_of(['self.cur_r', 'self.cur_c', 'ch'], f), f, ks[0] if ks else None, 'insert() inserts at the cursor', kind='ast', tag='insert')
    f = scr.methods['fill']
    ks = [k for k in calls_in(f.node) if callee_last(k) == 'fill_region']
    c.check(len(ks) == 1 and argvals(ks[0].args, f) == argvals_of(['1', '1', 'self.rows', 'self.cols', 'ch'], f), f, ks[0] if ks else None, 'fill() covers the whole screen', kind='ast', tag='fill')
    for name, want in (('erase_end_of_line', ['self.cur_r', 'self.cur_c', 'self.cur_r', 'self.cols']),
                       ('erase_start_of_line', ['self.cur_r', '1', 'self.cur_r', 'self.cur_c']),
                       ('erase_line', ['self.cur_r', '1', 'self.cur_r', 'self.cols'])):
        f = scr.methods[name]
        ks = [k for k in calls_in(f.node) if callee_last(k) == 'fill_region']
        c.check(len(ks) == 1 and argvals(ks[0].args, f) == argvals_of(want, f), f, ks[0] if ks else None, '%s() blanks exactly %s' % (name, want), witness=norm(ks[0]) if ks else '', kind='ast', tag=name)


MUTANTS = [
    ('unicode-memoised', 'screen', "        return u'\\n'.join ([ u''.join(c) for c in self.w ])", "        if getattr(self, '_text', None) is None:\n            self._text = u'\\n'.join ([ u''.join(c) for c in self.w ])\n        return self._text", 'D2'),
    ('erase-line-moves-cursor', 'screen', "        self.fill_region (self.cur_r, 1, self.cur_r, self.cols)\n\n    def erase_down", "        self.fill_region (self.cur_r, 1, self.cur_r, self.cols)\n        self.cur_c = 1\n\n    def erase_down", 'D1'),
    ('cursor-save-also-moves', 'screen', "        self.cur_saved_r = self.cur_r\n        self.cur_saved_c = self.cur_c", "        self.cur_saved_r = self.cur_r\n        self.cur_saved_c = self.cur_c\n        self.cur_c = 1", 'D1'),
    ('scroll-screen-noop', 'screen', "        self.scroll_row_start = 1\n        self.scroll_row_end = self.rows\n\n    def scroll_screen_rows", "        pass\n\n    def scroll_screen_rows", 'D1'),
    ('get-drops', 'screen', "        return self.get_abs (self.cur_r, self.cur_c)", "        self.get_abs (self.cur_r, self.cur_c)", 'D2'),
    ('get-region-no-return-empty', 'screen', "            sc.append (line)\n        return sc", "            sc.append (line)\n        if sc:\n            return sc", 'D2'),
    ('erase-down-unguarded', 'screen', "        if self.cur_r < self.rows:\n            self.fill_region (self.cur_r + 1, 1, self.rows, self.cols)", "        self.fill_region (self.cur_r + 1, 1, self.rows, self.cols)", 'D3'),
    ('erase-up-guard-wrong', 'screen', "        if self.cur_r > 1:\n            self.fill_region (self.cur_r-1, 1, 1, self.cols)", "        if self.cur_r >= 1:\n            self.fill_region (self.cur_r-1, 1, 1, self.cols)", 'D3'),
    ('eol-plus-one', 'screen', "        self.fill_region (self.cur_r, self.cur_c, self.cur_r, self.cols)", "        self.fill_region (self.cur_r, self.cur_c + 1, self.cur_r, self.cols)", 'D3'),
    ('get-abs-unclamped', 'screen', "    def get_abs (self, r, c):\n\n        r = constrain (r, 1, self.rows)\n        c = constrain (c, 1, self.cols)", "    def get_abs (self, r, c):\n\n        r = constrain (r, 1, self.rows)", 'D3'),
    ('insert-ascending', 'screen', "        for ci in range (self.cols, c, -1):\n            self.put_abs (r,ci, self.get_abs(r,ci-1))", "        for ci in range (c + 1, self.cols + 1):\n            self.put_abs (r,ci, self.get_abs(r,ci-1))", 'D4'),
    ('insert-write-first', 'screen', "        for ci in range (self.cols, c, -1):\n            self.put_abs (r,ci, self.get_abs(r,ci-1))\n        self.put_abs (r,c,ch)", "        self.put_abs (r,c,ch)\n        for ci in range (self.cols, c, -1):\n            self.put_abs (r,ci, self.get_abs(r,ci-1))", 'D4'),
    ('get-region-no-swap', 'screen', "        if cs > ce:\n            cs, ce = ce, cs\n        sc = []", "        sc = []", 'D5'),
    ('fill-region-exclusive', 'screen', "        for r in range (rs, re+1):\n            for c in range (cs, ce + 1):\n                self.put_abs (r,c,ch)", "        for r in range (rs, re+1):\n            for c in range (cs, ce):\n                self.put_abs (r,c,ch)", 'D5'),
    ('cursor-up-adds', 'screen', "        self.cur_r = self.cur_r - count\n        self.cursor_constrain ()", "        self.cur_r = self.cur_r + count\n        self.cursor_constrain ()", 'D6'),
    ('save-crossed', 'screen', "        self.cur_saved_r = self.cur_r\n        self.cur_saved_c = self.cur_c", "        self.cur_saved_r = self.cur_c\n        self.cur_saved_c = self.cur_r", 'D6'),
    ('restore-crossed', 'screen', "        self.cursor_home (self.cur_saved_r, self.cur_saved_c)", "        self.cursor_home (self.cur_saved_c, self.cur_saved_r)", 'D6'),
    ('lf-always-scrolls', 'screen', "        old_r = self.cur_r\n        self.cursor_down()\n        if old_r == self.cur_r:\n            self.scroll_up ()\n            self.erase_line()", "        old_r = self.cur_r\n        self.cursor_down()\n        self.scroll_up ()\n        self.erase_line()", 'D7'),
    ('cr-col-0', 'screen', "        self.cursor_home (self.cur_r, 1)", "        self.cursor_home (1, 1)", 'D7'),
    ('scroll-down-shares-rows', 'screen', "        self.w[s+1:e+1] = copy.deepcopy(self.w[s:e])", "        self.w[s+1:e+1] = self.w[s:e]", 'D8'),
    ('get-region-no-append', 'screen', "                line = line + ch\n            sc.append (line)", "                line = line + ch", 'D5'),
    ('scroll-screen-half', 'screen', "        self.scroll_row_start = 1\n        self.scroll_row_end = self.rows\n\n    def scroll_screen_rows", "        self.scroll_row_end = self.rows\n\n    def scroll_screen_rows", 'D1'),
    ('reverse-index-inverted', 'screen', "        old_r = self.cur_r\n        self.cursor_up()\n        if old_r == self.cur_r:\n            self.scroll_up()", "        old_r = self.cur_r\n        self.cursor_up()\n        if old_r != self.cur_r:\n            self.scroll_up()", 'D7'),
    ('erase-down-no-eol', 'screen', "        self.erase_end_of_line ()\n        if self.cur_r < self.rows:", "        if self.cur_r < self.rows:", 'D7'),
    ('erase-sol-exclusive', 'screen', "        self.fill_region (self.cur_r, 1, self.cur_r, self.cur_c)", "        self.fill_region (self.cur_r, 1, self.cur_r, self.cur_c - 1)", 'D3'),
]
PRESERVING = []

"""C17 pxssh login."""
import ast
import re

from ..astx import (calls_in, dotted, norm, src, iter_nodes, assigned_targets, assigned_names,
                    const_value, is_const, parent_chain)
from ..lib import (call_arg, relation, truth, other, cmp_views, core, holds_region, conditions, found_test, found_tests, path_tests, entails_empty, paths_entail_empty, eval_conditions, relation_tests, atom_key, expand_condition, mode_mismatch_conditions, cfg_nodes_with_call, node_calls, returns, raises, raised_class, stmt_assigns_attr, callee_last,
                   is_name, node_roots, guard_region, compare_parts, find_test_nodes)
from ..lib import *      # noqa: F401,F403  (path-condition helpers)
from ..linear import ctext
from ..loader import AnalysisError
from ..consteval import const_str, const_val

EXPLANATION = (
    "Static analysis of pxssh.login's dialogue code: (D1) the two pattern arrays are extracted from the source and "
    "every entry classified (host-key question, shell prompt, password prompt, permission denied, terminal type, "
    "TIMEOUT, connection closed, EOF); a value-set dataflow of the dispatch index over the CFG shows that the password "
    "is sent only where the index can only mean 'password prompt', 'yes' only for the host-key question, the terminal "
    "type only for its question, and that after the first phase every index except PROMPT and TIMEOUT leads to "
    "close() + raise ExceptionPxssh; (D2) at most one sendline(password) on any path and the password reaches nothing "
    "else (no message, no command line, no other call); (D3) success needs evidence: every path to `return True` passes "
    "the PROMPT branch, a successful sync_original_prompt() or a successful set_unique_prompt(), and with "
    "auto_prompt_reset the latter is on every such path -- violated today for TIMEOUT with both options off (open known "
    "finding); (D4) every expect reachable from login is bounded (no timeout=None) and try_read_prompt's loop is bounded; "
    "(D5) the UNIQUE_PROMPT regex matches what sh/csh/zsh display for the PROMPT_SET_* commands and does not match the "
    "echoed commands themselves (constants extracted from the source, `re` applied to constants only); (D6) prompt() and "
    "set_unique_prompt() interpret their indices consistently with their own pattern lists. NOT decided: real ssh "
    "dialogues, Levenshtein heuristics, timing.")
TRUSTED = ["expect() returns the list index of the matching entry (C02)", "shell prompt escapes: \\$ and %(!.#.$) render as $ or #", "re on extracted constants", "sa/ engine"]
ASSUMPTIONS = []
LEVEL_TEXT = ("Static analysis of named structural clauses of the login dialogue: pattern-array extraction and kind table, "
              "value-set dataflow of the dispatch index (all acyclic paths covered by dataflow, not enumeration), password "
              "taint/once, evidence-before-success (must-pass-through), bounded waits, constant prompt tables. One open known finding.")
LEVEL_NOTE = "Trusted: index semantics, shell prompt escapes; analyser. Not decided: what real ssh servers print."
TECHNIQUE = "table extraction + value-set dataflow on the CFG + must-pass-through queries (static analysis)"

KINDS = [('HOSTKEY', 'are you sure you want to continue connecting'), ('DENIED', 'permission denied'),
         ('TERMTYPE', 'terminal type'), ('CLOSED', 'connection closed by remote host')]


def classify_entry(e):
    if isinstance(e, ast.Name):
        return {'original_prompt': 'PROMPT', 'password_regex': 'PASSWORD', 'TIMEOUT': 'TIMEOUT', 'EOF': 'EOF'}.get(e.id, 'UNKNOWN:' + e.id)
    if isinstance(e, ast.Constant) and isinstance(e.value, str):
        low = e.value.lower()
        for k, frag in KINDS:
            if frag in low:
                return k
        return 'UNKNOWN:' + e.value[:20]
    return 'UNKNOWN:' + norm(e)[:20]


def extract_arrays(f):
    arrays = {}

    def listval(e):
        """elements of a list-valued expression: a literal, a known array, list(<array>), <array>[:], a + b"""
        if isinstance(e, ast.List):
            return list(e.elts)
        if isinstance(e, ast.Name) and e.id in arrays:
            return list(arrays[e.id])
        if isinstance(e, ast.Call) and isinstance(e.func, ast.Name) and e.func.id == 'list' and len(e.args) == 1:
            return listval(e.args[0])
        if isinstance(e, ast.Subscript) and isinstance(e.slice, ast.Slice) and e.slice.lower is None and e.slice.upper is None:
            return listval(e.value)
        if isinstance(e, ast.BinOp) and isinstance(e.op, ast.Add):
            a, b = listval(e.left), listval(e.right)
            return None if a is None or b is None else a + b
        return None
    for st in iter_nodes(f.node):
        if isinstance(st, ast.Assign) and len(st.targets) == 1 and isinstance(st.targets[0], ast.Name) and listval(st.value) is not None \
                and (isinstance(st.value, ast.List) or any(isinstance(x, ast.Name) and x.id in arrays for x in ast.walk(st.value))):
            arrays[st.targets[0].id] = listval(st.value)
        elif isinstance(st, ast.Expr) and isinstance(st.value, ast.Call) and isinstance(st.value.func, ast.Attribute) \
                and st.value.func.attr in ('extend', 'append') and isinstance(st.value.func.value, ast.Name):
            name = st.value.func.value.id
            if name in arrays and st.value.args:
                a = st.value.args[0]
                if st.value.func.attr == 'append':
                    arrays[name].append(a)
                elif isinstance(a, ast.List):
                    arrays[name].extend(a.elts)
                elif isinstance(a, ast.Name) and a.id in arrays:
                    arrays[name].extend(arrays[a.id])
                else:
                    raise AnalysisError('pxssh.login: cannot follow %s' % norm(st))
    return arrays


class IndexFlow(object):
    """value-set dataflow of one integer variable assigned from expect(<array>)"""

    def __init__(self, f, var, arrays):
        self.f, self.var, self.arrays = f, var, arrays
        self.g = f.cfg
        self.inn = {}

    def assign_value(self, n):
        a = n.ast
        if n.kind == 'stmt' and isinstance(a, ast.Assign) and self.var in assigned_names(a):
            v = a.value
            if isinstance(v, ast.Call) and callee_last(v) == 'expect' and v.args and isinstance(v.args[0], ast.Name) and v.args[0].id in self.arrays:
                return frozenset(range(len(self.arrays[v.args[0].id])))
            return None
        return False

    def refine(self, test, truth, cur):
        cp = compare_parts(test)
        if cp and is_name(cp[0], self.var) and isinstance(cp[1], (ast.Eq, ast.NotEq)):
            k = const_value(cp[2], None)
            if isinstance(k, int):
                eq = isinstance(cp[1], ast.Eq) == truth
                return cur & {k} if eq else cur - {k}
        if isinstance(test, ast.Compare) and len(test.ops) == 1 and isinstance(test.ops[0], (ast.In, ast.NotIn)) and is_name(test.left, self.var):
            vals = const_val(test.comparators[0])
            if isinstance(vals, tuple):
                isin = isinstance(test.ops[0], ast.In) == truth
                return cur & set(vals) if isin else cur - set(vals)
        return cur

    def run(self):
        g = self.g
        TOP = frozenset(range(16))
        self.inn = {g.entry: None}
        work = [g.entry]
        outv = {}
        while work:
            n = work.pop()
            cur = self.inn.get(n)
            av = self.assign_value(n)
            if av is None:
                raise AnalysisError('pxssh.login: index assigned from something other than expect(<known array>): %s' % norm(n.ast))
            out = cur if av is False else av
            for s, lab in n.succ:
                if lab == 'exc':
                    cand = cur
                elif n.kind == 'test' and lab in ('true', 'false') and out is not None:
                    cand = frozenset(self.refine(n.ast, lab == 'true', set(out)))
                    if not cand and self._tests_var(n.ast):
                        continue     # infeasible edge
                else:
                    cand = out
                if s not in self.inn:
                    self.inn[s] = cand
                    work.append(s)
                else:
                    old = self.inn[s]
                    new = old if cand is None else (cand if old is None else old | cand)
                    if new != old:
                        self.inn[s] = new
                        work.append(s)
        return self

    def _tests_var(self, test):
        return any(isinstance(x, ast.Name) and x.id == self.var for x in ast.walk(test))

    def at(self, n):
        return self.inn.get(n)


def run(R):
    repo = R.repo
    f = repo.func('pxssh:pxssh.login')
    g = f.cfg
    arrays = extract_arrays(f)
    # answers looked up in a table that is re-bound while the dialogue runs (`answers = dict(... if q > i)` retiring what was used): which answer
    # can still be given at which point is a question about the table's contents over time -- not decided by the rules below
    nb_ = {}
    for st_ in iter_nodes(f.node):
        if isinstance(st_, (ast.Assign, ast.AugAssign)):
            for t_ in assigned_names(st_):
                nb_[t_] = nb_.get(t_, 0) + 1
    dyn_ = [k_ for k_ in calls_in(f.node) if callee_last(k_) in ('sendline', 'send') and k_.args and isinstance(k_.args[0], ast.Subscript)
            and isinstance(k_.args[0].value, ast.Name) and nb_.get(k_.args[0].value.id, 0) > 1]
    if dyn_:
        raise AnalysisError('login: %s sends an entry of a table that is re-bound during the dialogue: cannot be decided' % norm(dyn_[0]))
    with R.clause('D1', 'IDX', floor=18, desc='dispatch on the expect index agrees with the kind of the pattern at that index') as c:
        used = [(n, k.args[0].id) for n, k in cfg_nodes_with_call(f, lambda k: callee_last(k) == 'expect' and k.args and isinstance(k.args[0], ast.Name)
                                                                   and k.args[0].id in arrays)]
        c.need(len(set(a for n, a in used)) == 2, 'login: expected the dialogue to wait on two pattern arrays, found %s' % sorted(set(a for n, a in used)))
        first = [a for n, a in used if all(g.dominated_by(m, {n})[0] for m, _ in used)]
        c.need(len(first) == 1, 'login: the first wait (dominating all later ones) was not identified')
        Bn = first[0]
        An = [a for n, a in used if a != Bn][0]
        A, B = arrays[An], arrays[Bn]
        ka, kb = [classify_entry(e) for e in A], [classify_entry(e) for e in B]
        R.extra['session_regex_array'] = ka
        R.extra['session_init_regex_array'] = kb
        c.check(kb[:len(ka)] == ka, f, None, 'both arrays agree on their common prefix (an index means the same in both phases)',
                witness='%s vs %s' % (ka, kb), kind='alg', tag='prefix')
        for i, k in enumerate(kb):
            c.check(not k.startswith('UNKNOWN'), f, B[i], 'entry %d is a recognised kind (%s)' % (i, k), kind='ast', tag='kind:%d' % i)
        need_kinds = {'HOSTKEY', 'PROMPT', 'PASSWORD', 'DENIED', 'TERMTYPE', 'TIMEOUT', 'CLOSED', 'EOF'}
        c.check(set(kb) >= need_kinds, f, None, 'all outcome kinds are listed in the first wait', witness=str(kb), kind='alg', tag='kinds-complete')
        c.check({'HOSTKEY', 'PROMPT', 'PASSWORD', 'DENIED', 'TERMTYPE', 'TIMEOUT'} <= set(ka), f, None,
                'the later waits list the six dialogue kinds', witness=str(ka), kind='alg', tag='kinds-later')
        # the index variable
        ex = cfg_nodes_with_call(f, lambda k: callee_last(k) == 'expect' and k.args and isinstance(k.args[0], ast.Name) and k.args[0].id in arrays)
        c.need(len(ex) >= 4 and all(isinstance(n.ast, ast.Assign) for n, k in ex), 'login: index = self.expect(<array>) sites not found')
        iv = ex[0][0].ast.targets[0].id
        flow = IndexFlow(f, iv, arrays).run()
        kind_of = dict(enumerate(kb))

        def kinds_at(n):
            vs = flow.at(n)
            return None if vs is None else set(kind_of.get(i, 'OUT-OF-RANGE') for i in vs)
        sends = cfg_nodes_with_call(f, lambda k: callee_last(k) == 'sendline' and ctext(k.func.value, f) == 'self')
        want = {'password': ({'PASSWORD'}, 'the password'), '"yes"': ({'HOSTKEY'}, '"yes"'), "'yes'": ({'HOSTKEY'}, '"yes"'),
                'terminal_type': ({'TERMTYPE'}, 'the terminal type')}
        seen_kinds = set()
        for n, k in sends:
            a = norm(k.args[0]) if k.args else ''
            if a in want:
                ks = kinds_at(n)
                okk = ks is not None and ks == want[a][0]
                seen_kinds |= want[a][0]
                c.check(okk, f, k, '%s is sent only where the index can only mean %s' % (want[a][1], sorted(want[a][0])),
                        witness='index may be %s = %s here' % (sorted(flow.at(n) or []), sorted(ks or [])), kind='flow', tag='send:' + a)
            elif a == 'cmd':
                c.check(flow.at(n) is None, f, k, 'the ssh command itself is sent before the dialogue starts', kind='flow', tag='send:cmd')
            else:
                c.bad(f, k, 'login sends %s to the server, which is not one of the three answers the dialogue knows' % a, kind='flow', tag='send:' + a[:20])
        c.check(seen_kinds == {'PASSWORD', 'HOSTKEY', 'TERMTYPE'}, f, None, 'the three answers are present', witness=str(sorted(seen_kinds)), kind='flow', tag='answers')
        # second phase: what survives
        synct = [t for t in g.nodes if t.kind == 'test' and norm(t.ast) == 'sync_original_prompt']
        c.need(len(synct) == 1, 'login: `if sync_original_prompt:` not found')
        ks = kinds_at(synct[0])
        c.check(ks is not None and ks <= {'PROMPT', 'TIMEOUT'} and 'PROMPT' in ks, f, synct[0].ast,
                'after the dispatch only the PROMPT and TIMEOUT outcomes are still going; every other index raised',
                witness='index may still be %s = %s' % (sorted(flow.at(synct[0]) or []), sorted(ks or [])), kind='flow', tag='survivors')
        # failures close and raise ExceptionPxssh
        for r in raises(f):
            cls = raised_class(r.ast, f)
            if flow.at(r) is None:
                c.check(cls in ('ExceptionPxssh', 'TypeError'), f, r.ast, 'argument errors raise before the dialogue', kind='ast', tag='raise-pre@%d' % len(c.obs))
                continue
            closes = [n for n, k in cfg_nodes_with_call(f, lambda k: callee_last(k) == 'close' and ctext(k.func.value, f) == 'self')]
            okc = any(r in [s for s, l in cn.succ] or g.path(cn, r, skip_labels=('exc',)) and len(g.path(cn, r, skip_labels=('exc',))) <= 3 for cn in closes)
            c.check(cls == 'ExceptionPxssh' and okc, f, r.ast, 'a failed dialogue closes the session and raises ExceptionPxssh',
                    witness='raises %s, close() just before: %s' % (cls, okc), kind='flow', tag='raise@%s' % norm(r.ast)[:40])
        ep = repo.cls('ExceptionPxssh')
        c.check(ep.base_names == ['ExceptionPexpect'], f, ep.node, 'ExceptionPxssh is a pexpect exception', kind='ast', tag='exc-class')
    with R.clause('D2', 'SECRET', floor=3, desc='the password is sent at most once and flows nowhere else') as c:
        pw = cfg_nodes_with_call(f, lambda k: callee_last(k) == 'sendline' and k.args and is_name(k.args[0], 'password'))
        pn = set(n for n, k in pw)
        mn, mx = g.occurrences(lambda n: n in pn, goals={g.exit, g.raise_exit}, skip_labels=('exc',))
        c.check(mx is not None and mx <= 1 and len(pw) >= 1, f, pw[0][1] if pw else None, 'at most one sendline(password) on any path', witness='max=%s' % mx, tag='once')
        uses = [x for x in iter_nodes(f.node) if isinstance(x, ast.Name) and x.id == 'password' and isinstance(x.ctx, ast.Load)]
        legit = [k.args[0] for n, k in pw]
        other = [x for x in uses if not any(x is l for l in legit)]
        c.check(not other, f, other[0] if other else None, 'the password is used for nothing but that send (no message, no command line, no other call)',
                witness='also used in: %s' % norm(other[0]._parent) if other else None, kind='flow', tag='no-leak')
        stores_ = [st for st in iter_nodes(f.node) if isinstance(st, ast.Assign) and any(isinstance(x, ast.Name) and x.id == 'password' for x in ast.walk(st.value))]
        c.check(not stores_, f, stores_[0] if stores_ else None, 'the password is not copied into another variable or attribute', kind='flow', tag='no-copy')
    with R.clause('D3', 'ORDER', floor=2, desc='login returns True only with evidence of a shell prompt') as c:
        check_evidence(c, f, g, kinds_at)
    with R.clause('D4', 'BOUND', floor=8, desc='every wait reachable from login is bounded') as c:
        for q in ('pxssh:pxssh.login', 'pxssh:pxssh.set_unique_prompt', 'pxssh:pxssh.prompt', 'pxssh:pxssh.sync_original_prompt'):
            fn = repo.func(q)
            for k in calls_in(fn.node):
                if callee_last(k) in ('expect', 'expect_exact'):
                    t = call_arg(k, 'timeout', 1)
                    ok = t is None or not is_const(t, None)
                    c.check(ok, fn, k, 'the wait has a finite timeout (explicit, or the instance default)', witness=norm(k)[:80], kind='ast', tag='bounded:' + norm(k)[:40])
        tp = repo.func('pxssh:pxssh.try_read_prompt')
        gt = tp.cfg
        loops = [n for n in iter_nodes(tp.node) if isinstance(n, ast.While)]
        c.need(len(loops) == 1, 'try_read_prompt: loop not found')
        # the read is reached only under `<elapsed> < <total>` (loop condition or in-loop exit: the same path condition)
        rk0 = [n for n, k in cfg_nodes_with_call(tp, lambda k: callee_last(k) == 'read_nonblocking')]
        c.need(len(rk0) == 1, 'try_read_prompt: the read was not found')
        import re as _re
        bound = [a for a, v in loop_entry_conditions(gt, rk0[0]) if v and _re.match(r'^[A-Za-z_]\w* < .+$', a)]
        okb = len(bound) == 1
        ev_, tv_ = bound[0].split(' < ', 1) if okb else (None, None)
        if okb:
            # the total: an expression over the multiplier parameter (possibly through a local fixed before the loop), never changed in the loop
            tnames = set(x.id for x in ast.walk(ast.parse(tv_, mode='eval')) if isinstance(x, ast.Name))
            td = [s2 for s2 in iter_nodes(tp.node) if isinstance(s2, ast.Assign) and (set(assigned_names(s2)) & tnames)]
            derived = tp.params[1] in tnames or any(any(isinstance(x, ast.Name) and x.id == tp.params[1] for x in ast.walk(d.value)) for d in td)
            okb = derived and not any(any(p is loops[0] for p in parent_chain(d)) for d in td) and ev_ not in tnames
        c.check(bool(okb), tp, loops[0], 'the read loop runs while <elapsed> < <total timeout derived from the multiplier, fixed before the loop>',
                witness=str(bound), kind='path', tag='loop-bound')
        upd = [s2 for s2 in ast.walk(loops[0]) if isinstance(s2, ast.Assign) and ev_ in assigned_names(s2)]
        oku = len(upd) == 1 and isinstance(upd[0].value, ast.BinOp) and isinstance(upd[0].value.op, ast.Sub) and norm(upd[0].value.left) == 'time.time()' \
            and isinstance(upd[0].value.right, ast.Name)
        if oku:
            bd = [s2 for s2 in iter_nodes(tp.node) if isinstance(s2, ast.Assign) and upd[0].value.right.id in assigned_names(s2)]
            oku = len(bd) == 1 and norm(bd[0].value) == 'time.time()' and not any(p is loops[0] for p in parent_chain(bd[0]))
        c.check(bool(oku), tp, upd[0] if upd else loops[0], 'elapsed time is recomputed after every character as time.time() - <start taken once before the loop>', kind='ast', tag='loop-progress')
        hs = [h for h in ast.walk(loops[0]) if isinstance(h, ast.ExceptHandler)]
        c.check(len(hs) == 1 and norm(hs[0].type) == 'TIMEOUT' and any(isinstance(s, ast.Break) for s in hs[0].body), tp, hs[0] if hs else loops[0],
                'silence (TIMEOUT on one character) ends the loop', kind='ast', tag='loop-timeout')
        rk = [k for k in calls_in(loops[0]) if callee_last(k) == 'read_nonblocking']
        ta = call_arg(rk[0], 'timeout', 1) if len(rk) == 1 else None
        ok = isinstance(ta, ast.Name)
        if ok:
            tvn = ta.id
            tds = [s2 for s2 in iter_nodes(tp.node) if isinstance(s2, ast.Assign) and tvn in assigned_names(s2)]
            ok = bool(tds) and all(not is_const(s2.value, None) for s2 in tds)
        c.check(ok, tp, rk[0] if rk else loops[0], 'each character read has its own finite timeout', kind='ast', tag='char-timeout')
    with R.clause('D5', 'TAB', floor=6, desc='UNIQUE_PROMPT matches what the shells display, not the echoed set-commands') as c:
        check_prompt_table(c, repo)
    with R.clause('D6', 'IDX', floor=6, desc='prompt() and set_unique_prompt() read their own lists correctly') as c:
        check_prompt_fn(c, repo)
    with R.clause('D7', 'EVIDENCE', floor=4, desc='sync_original_prompt() reports success only for a non-empty, repeated response') as c:
        check_sync(c, repo.func('pxssh:pxssh.sync_original_prompt'))


def check_evidence(c, f, g, kinds_at):
    rt = [r for r in returns(f) if is_const(r.ast.value, True)]
    c.need(len(rt) == 1, 'login: `return True` not found exactly once')
    R_ = rt[0]
    ev = set()      # evidence EDGES: (test node, label)
    # (a) the PROMPT branch of the second-phase dispatch
    for t in g.nodes:
        if t.kind == 'test' and compare_parts(t.ast) is not None and isinstance(compare_parts(t.ast)[1], ast.Eq):
            for s, l in t.succ:
                if l == 'true' and kinds_at(s) == {'PROMPT'}:
                    ev.add((t, 'true'))
    # (b)/(c) successful sync / unique prompt
    def exact_call_test(t, name):
        # the test is exactly `self.<name>(...)` or `not self.<name>(...)`: only then does an edge prove the outcome
        e = t.ast
        neg = False
        while isinstance(e, ast.UnaryOp) and isinstance(e.op, ast.Not):
            neg = not neg
            e = e.operand
        if isinstance(e, ast.Call) and callee_last(e) == name:
            return 'false' if neg else 'true'
        return None
    for name in ('sync_original_prompt', 'set_unique_prompt'):
        for t in g.nodes:
            if t.kind == 'test':
                edge = exact_call_test(t, name)
                if edge:
                    ev.add((t, edge))
    c.need(len(ev) >= 1, 'login: no evidence point identified')
    # one obligation per way of arriving at `return True`: the last edge taken
    n_in = 0
    for pn, pl in R_.pred:
        if pl == 'exc':
            continue
        n_in += 1
        if (pn, pl) in ev:
            c.ok(f, R_.ast, 'arriving from L%d (%s is %s) is itself evidence of a prompt' % (pn.lineno, norm(pn.ast)[:40] if pn.ast is not None else pn.kind, pl),
                 tag='success-needs-evidence:L-%s=%s' % (norm(pn.ast)[:40] if pn.ast is not None else pn.kind, pl))
            continue
        p = g.path(g.entry, {pn}, skip_labels=('exc',), avoid_edges=ev)
        tagk = 'success-needs-evidence:%s=%s' % (norm(pn.ast)[:40] if pn.ast is not None else pn.kind, pl)
        if p is None:
            c.ok(f, R_.ast, 'every path arriving at `return True` from L%d has crossed the PROMPT branch or a successful prompt '
                 'synchronisation / reset' % pn.lineno, tag=tagk)
        else:
            c.bad(f, R_.ast, 'login() can return True without any evidence of a shell prompt (no PROMPT match, no successful '
                  'sync_original_prompt(), no successful set_unique_prompt()): last decision `%s` is %s'
                  % (norm(pn.ast)[:50] if pn.ast is not None else pn.kind, pl),
                  witness='path: ' + g.describe_path(p + [R_], limit=16), tag=tagk)
    c.need(n_in >= 2, 'login: `return True` has fewer than two incoming decisions')
    # with auto_prompt_reset the unique prompt must have been set
    at = [t for t in g.nodes if t.kind == 'test' and norm(t.ast) == 'auto_prompt_reset']
    c.need(len(at) == 1, '`if auto_prompt_reset:` not found')
    su = [t for t in guard_region(g, at[0], 'true') if t.kind == 'test' and exact_call_test(t, 'set_unique_prompt')]
    okr = len(su) == 1
    if okr:
        edge_ok = exact_call_test(su[0], 'set_unique_prompt')
        edge_fail = 'true' if edge_ok == 'false' else 'false'
        fail = guard_region(g, su[0], edge_fail)
        okr = any(n.kind == 'stmt' and isinstance(n.ast, ast.Raise) for n in fail) and R_ not in fail
        # and no way from the auto_prompt_reset branch to the return that avoids the success edge
        starts = [s2 for s2, l2 in at[0].succ if l2 == 'true']
        okr = okr and all(g.path(s2, {R_}, skip_labels=('exc',), avoid_edges={(su[0], edge_ok)}) is None for s2 in starts)
    c.check(okr, f, at[0].ast, 'with prompt reset enabled, True is returned only after set_unique_prompt() succeeded (failure raises)', tag='reset-required')


def emptiness_edge(test, names):
    """label of the edge on which the tested response is known to be NON-empty, for a test
    that is exactly an emptiness test of one of *names* (a response variable or its length)"""
    e = test
    neg = False
    while isinstance(e, ast.UnaryOp) and isinstance(e.op, ast.Not):
        neg = not neg
        e = e.operand
    if isinstance(e, ast.Name) and e.id in names:
        return 'false' if neg else 'true'
    if isinstance(e, ast.Call) and dotted(e.func) == 'len' and e.args and isinstance(e.args[0], ast.Name) and e.args[0].id in names:
        return 'false' if neg else 'true'
    cp = compare_parts(e)
    if cp:
        l, op, r = cp
        lt = l.id if isinstance(l, ast.Name) else (l.args[0].id if isinstance(l, ast.Call) and dotted(l.func) == 'len' and l.args and isinstance(l.args[0], ast.Name) else None)
        if lt in names and is_const(r, 0):
            if isinstance(op, ast.Eq):
                return 'true' if neg else 'false'
            if isinstance(op, (ast.NotEq, ast.Gt)):
                return 'false' if neg else 'true'
        if lt in names and is_const(r, 1) and isinstance(op, ast.Lt):
            return 'true' if neg else 'false'
        if lt in names and is_const(r, 1) and isinstance(op, ast.GtE):
            return 'false' if neg else 'true'
    return None


def check_sync(c, f):
    g = f.cfg
    resp = [n.ast.targets[0].id for n in g.nodes if n.kind == 'stmt' and isinstance(n.ast, ast.Assign) and isinstance(n.ast.value, ast.Call)
            and callee_last(n.ast.value) == 'try_read_prompt' and isinstance(n.ast.targets[0], ast.Name)]
    n_reads = len([k for k in calls_in(f.node) if callee_last(k) == 'try_read_prompt'])
    c.need(n_reads >= 2 and len(resp) >= 1, 'sync_original_prompt: responses of try_read_prompt not found')
    lens = {}
    for n in g.nodes:
        if n.kind == 'stmt' and isinstance(n.ast, ast.Assign) and isinstance(n.ast.targets[0], ast.Name) and isinstance(n.ast.value, ast.Call) \
                and dotted(n.ast.value.func) == 'len' and n.ast.value.args and isinstance(n.ast.value.args[0], ast.Name) and n.ast.value.args[0].id in resp:
            lens[n.ast.targets[0].id] = n.ast.value.args[0].id
    ld = [n for n in g.nodes if n.kind == 'stmt' and isinstance(n.ast, ast.Assign) and isinstance(n.ast.value, ast.Call) and callee_last(n.ast.value) == 'levenshtein_distance']
    c.need(len(ld) == 1, 'levenshtein_distance call not found')
    cmp_args = [norm(a) for a in ld[0].ast.value.args]
    c.check(len(cmp_args) == 2 and cmp_args[0] != cmp_args[1] and all(a in resp for a in cmp_args), f, ld[0].ast,
            'two DIFFERENT responses are compared', witness=str(cmp_args), kind='ast', tag='compare-two')
    names = set(cmp_args) | set(k for k, v in lens.items() if v in cmp_args)
    edges = set()
    for t in g.nodes:
        if t.kind == 'test':
            e = emptiness_edge(t.ast, names)
            if e:
                edges.add((t, e))
    rt = [r for r in returns(f) if is_const(r.ast.value, True)]
    c.need(len(rt) >= 1, 'sync_original_prompt: no `return True`')
    for r in rt:
        p = g.path(g.entry, {r}, skip_labels=('exc',), avoid_edges=edges) if edges else g.path(g.entry, {r}, skip_labels=('exc',))
        c.check(p is None, f, r.ast, 'success is reported only after the compared response was found to be non-empty (silence from the server is not a prompt)',
                witness=('no emptiness test on %s guards this return' % sorted(names)) if not edges else 'path: ' + g.describe_path(p), tag='nonempty-response')
        # and only under the similarity test
        sim = [t for t in g.nodes if t.kind == 'test' and any(isinstance(x, ast.Name) and x.id == ld[0].ast.targets[0].id for x in ast.walk(t.ast))]
        # (equality of the two compared responses is similarity too: `if a == b: return True` as a fast path)
        for t in g.nodes:
            if t.kind == 'test' and compare_parts(t.ast) is not None and isinstance(compare_parts(t.ast)[1], ast.Eq) \
                    and sorted([norm(compare_parts(t.ast)[0]), norm(compare_parts(t.ast)[2])]) == sorted(cmp_args):
                sim.append(t)
        ok = any(r in guard_region(g, t, 'true') for t in sim)
        c.check(ok, f, r.ast, 'success depends on the similarity of the two responses', tag='similar')
    rf = [r for r in returns(f) if is_const(r.ast.value, False)]
    c.check(len(rf) >= 1, f, rf[0].ast if rf else None, 'failure is reported as False', kind='ast', tag='false')
    sl = [k for k in calls_in(f.node) if callee_last(k) == 'sendline']
    c.check(len(sl) >= 3, f, sl[0] if sl else None, 'the prompt is provoked repeatedly (enter pressed at least three times)', witness='%d sends' % len(sl), kind='ast', tag='probes')


def shell_render(s):
    """what the shells display for a prompt string: \\$ and %(!.#.$) become $ or #"""
    outs = set()
    for ch in ('$', '#'):
        outs.add(s.replace('\\$', ch).replace('%(!.#.$)', ch))
    return outs


def check_prompt_table(c, repo):
    f = repo.func('pxssh:pxssh.__init__')
    env = {}
    for st in iter_nodes(f.node):
        if isinstance(st, ast.Assign) and len(st.targets) == 1 and isinstance(st.targets[0], ast.Attribute) and is_name(st.targets[0].value, 'self'):
            v = const_str(st.value, env)
            if v is not None:
                env['self.' + st.targets[0].attr] = v
            elif isinstance(st.value, ast.Attribute) and 'self.' + st.value.attr in env:
                env['self.' + st.targets[0].attr] = env['self.' + st.value.attr]
    for k in ('self.UNIQUE_PROMPT', 'self.PROMPT', 'self.PROMPT_SET_SH', 'self.PROMPT_SET_CSH', 'self.PROMPT_SET_ZSH'):
        c.need(k in env, 'pxssh.__init__: %s is not a constant' % k)
    up = env['self.UNIQUE_PROMPT']
    c.check(env['self.PROMPT'] == up, f, None, 'PROMPT starts out as UNIQUE_PROMPT', kind='alg', tag='prompt-init')
    try:
        rx = re.compile(up)
    except re.error as e:
        c.bad(f, None, 'UNIQUE_PROMPT is not a valid regex: %s' % e, kind='alg', tag='regex')
        return
    for name in ('SH', 'CSH', 'ZSH'):
        cmd = env['self.PROMPT_SET_' + name]
        m = re.search(r"'([^']*)'\s*$", cmd)
        c.need(m is not None, 'PROMPT_SET_%s: quoted prompt value not found in %r' % (name, cmd))
        shown = shell_render(m.group(1))
        okm = all(rx.search(s) for s in shown)
        c.check(okm, f, None, 'UNIQUE_PROMPT matches what %s displays after %r' % (name.lower(), cmd), witness='displays %s' % sorted(shown), kind='alg', tag='match:' + name)
        # the match must consume the whole displayed prompt, and no proper prefix of it may match: otherwise a read
        # boundary inside the prompt makes prompt() return early and the rest of the prompt leaks into the next output
        for disp in sorted(shown):
            m2 = rx.search(disp)
            whole = m2 is not None and m2.end() == len(disp)
            pref = [disp[:i] for i in range(1, len(disp)) if rx.search(disp[:i])]
            c.check(whole and not pref, f, None, 'the match covers the whole %s prompt %r and no proper prefix of it matches' % (name.lower(), disp),
                    witness=('prefix %r already matches' % pref[0]) if pref else ('match ends at %s of %d' % (m2.end() if m2 else None, len(disp))),
                    kind='alg', tag='exact:%s:%s' % (name, disp[-2:]))
        echo_hit = rx.search(cmd)
        c.check(echo_hit is None, f, None, 'UNIQUE_PROMPT does not match the echoed %s set-command itself' % name.lower(),
                witness='matched %r' % echo_hit.group(0) if echo_hit else None, kind='alg', tag='echo:' + name)


def check_prompt_fn(c, repo):
    f = repo.func('pxssh:pxssh.prompt')
    g = f.cfg
    ks = cfg_nodes_with_call(f, lambda k: callee_last(k) == 'expect')
    c.need(len(ks) == 1 and (isinstance(ks[0][0].ast, ast.Assign) or ks[0][0].kind == 'test'), 'prompt(): i = self.expect([...]) not found')
    n, k = ks[0]
    lst = k.args[0]
    ok = isinstance(lst, ast.List) and [norm(e) for e in lst.elts] == ['self.PROMPT', 'TIMEOUT']
    c.check(ok, f, k, 'prompt() waits for [PROMPT, TIMEOUT]', witness=norm(lst), kind='ast', tag='prompt-list')
    tim_idx = [i for i, e in enumerate(lst.elts) if norm(e) == 'TIMEOUT'] if isinstance(lst, ast.List) else []
    if n.kind == 'test':
        # the index is compared where it is produced: `if self.expect([...]) == 1:`
        t = relation_tests(g, 'eq', lambda e: e is k, lambda e: isinstance(e, ast.Constant))
    else:
        iv = n.ast.targets[0].id
        t = relation_tests(g, 'eq', lambda e: is_name(e, iv), lambda e: isinstance(e, ast.Constant))
    c.need(len(t) == 1, 'prompt(): index test not found')
    tn, lab = t[0]
    rel = relation(tn.ast)
    okf = bool(tim_idx) and (is_const(rel[2], tim_idx[0]) or is_const(rel[1], tim_idx[0]))
    reg = guard_region(g, tn, lab)
    fr = [r for r in returns(f) if r in reg]
    c.check(bool(okf) and len(fr) == 1 and is_const(fr[0].ast.value, False), f, tn.ast, 'the TIMEOUT index means False', witness=norm(tn.ast), kind='alg', tag='prompt-timeout')
    tr = [r for r in returns(f) if r not in reg]
    c.check(len(tr) == 1 and is_const(tr[0].ast.value, True), f, tr[0].ast if tr else None, 'a matched prompt means True', kind='ast', tag='prompt-true')
    ta = call_arg(k, 'timeout', 1)
    c.check(ta is not None and is_name(ta, 'timeout'), f, k, 'the caller\'s timeout is forwarded', kind='ast', tag='prompt-timeout-arg')
    # set_unique_prompt
    f = repo.func('pxssh:pxssh.set_unique_prompt')
    g = f.cfg
    ks = cfg_nodes_with_call(f, lambda k: callee_last(k) == 'expect')
    c.need(len(ks) == 3, 'set_unique_prompt: expected three waits')
    for n, k in ks:
        lst = k.args[0]
        ok = isinstance(lst, ast.List) and [norm(e) for e in lst.elts] == ['TIMEOUT', 'self.PROMPT']
        c.check(ok, f, k, 'each attempt waits for [TIMEOUT, PROMPT]', witness=norm(lst), kind='ast', tag='sup-list@%d' % ks.index((n, k)))
    sends = [norm(k.args[0]) for n, k in sorted(cfg_nodes_with_call(f, lambda k: callee_last(k) == 'sendline'), key=lambda x: x[0].lineno)]
    c.check(sends[-3:] == ['self.PROMPT_SET_SH', 'self.PROMPT_SET_CSH', 'self.PROMPT_SET_ZSH'], f, None, 'the three syntaxes are tried as sh, csh, zsh',
            witness=str(sends), kind='ast', tag='sup-order')
    rf = set(r for r in returns(f) if is_const(r.ast.value, False))
    rt = set(r for r in returns(f) if is_const(r.ast.value, True))
    waits_ = [n for n, k in ks]
    # the outcome of a wait: kept in a local (`i = self.expect(..)`, decided by the facts on that local along the path) or compared where
    # it is produced (`if self.expect(..) != 0:`, decided by the edge taken out of that test)
    how = {}
    for n, k in ks:
        if isinstance(n.ast, ast.Assign) and isinstance(n.ast.targets[0], ast.Name) and n.kind != 'test':
            iv = n.ast.targets[0].id
            how[n] = (dict(assume=[('0 == %s' % iv, False, {iv})]), dict(assume=[('0 == %s' % iv, True, {iv})]))
        else:
            t_ = [(tn_, lab_) for tn_, lab_ in relation_tests(g, 'eq', lambda e, k=k: e is k, lambda e: is_const(e, 0) or is_const(e, 1)) if tn_ is n]
            c.need(n.kind == 'test' and len(t_) == 1 and isinstance(k.args[0], ast.List) and len(k.args[0].elts) == 2,
                   'set_unique_prompt: the index of a wait is neither kept in a local nor compared with 0 / 1 in place')
            lab0 = t_[0][1]          # the edge on which the index IS 0 (timed out); of a two-entry list the index is 0 or 1
            rel_ = relation(n.ast)
            if is_const(rel_[1], 1) or is_const(rel_[2], 1):
                lab0 = other(lab0)
            how[n] = (dict(avoid_edges={(n, lab0)}), dict(avoid_edges={(n, other(lab0))}))
    sends_ = set(n for n, k in cfg_nodes_with_call(f, lambda k: callee_last(k) in ('sendline', 'send')))
    okf = bool(rf) and all(g.dominated_by(r, {w})[0] for r in rf for w in waits_)
    okt = bool(rt)
    for w in waits_:
        rest = set(waits_) - {w}
        hit, miss = how[w]
        # after a wait that saw the prompt: straight to `return True`, nothing more is sent or awaited, never False
        if g.path(w, rf | sends_ | rest | {g.exit}, avoid=rt, skip_labels=('exc',), include_start=False, **hit) is not None:
            okt = False
        # after a wait that timed out: never True before the next attempt
        if g.path(w, rt, avoid=rest, skip_labels=('exc',), include_start=False, **miss) is not None:
            okf = False
    c.check(okf, f, None, 'False only after all three attempts timed out (index 0 = TIMEOUT)', kind='path', tag='sup-false')
    c.check(okt, f, None, 'True as soon as one attempt shows the unique prompt', kind='path', tag='sup-true')


MUTANTS = [
    ('swap-array-entries', 'pxssh', 'original_prompt, password_regex, "(?i)permission denied"', 'password_regex, original_prompt, "(?i)permission denied"', 'D1'),
    ('password-on-timeout', 'pxssh', "        if i==2: # password or passphrase\n            self.sendline(password)", "        if i==2 or i==5: # password or passphrase\n            self.sendline(password)", 'D1'),
    ('password-twice', 'pxssh', "        elif i==2: # password prompt again\n            # For incorrect passwords, some ssh servers will\n            # ask for the password again, others return 'denied' right away.\n            # If we get the password prompt again then this means\n            # we didn't get the password right the first time.\n            self.close()\n            raise ExceptionPxssh('password refused')",
     "        elif i==2: # password prompt again\n            self.sendline(password)\n            i = self.expect(session_regex_array)\n            if i != 1:\n                self.close()\n                raise ExceptionPxssh('password refused')", 'D2'),
    ('denied-passes', 'pxssh', "        elif i==3: # permission denied -- password was bad.\n            self.close()\n            raise ExceptionPxssh('permission denied')", "        elif i==3: # permission denied -- password was bad.\n            pass", 'D1'),
    ('password-in-message', 'pxssh', "            raise ExceptionPxssh('password refused')", "            raise ExceptionPxssh('password %r refused' % password)", 'D2'),
    ('yes-on-termtype', 'pxssh', "        if i==4:\n            self.sendline(terminal_type)", "        if i==4:\n            self.sendline(\"yes\")", 'D1'),
    ('closed-passes', 'pxssh', "        elif i==6: # Connection closed by remote host\n            self.close()\n            raise ExceptionPxssh('connection closed')", "        elif i==6: # Connection closed by remote host\n            pass", 'D1'),
    ('no-unique-check', 'pxssh', "            if not self.set_unique_prompt():\n                self.close()\n                raise ExceptionPxssh('could not set shell prompt '", "            if not self.set_unique_prompt() and sync_original_prompt:\n                self.close()\n                raise ExceptionPxssh('could not set shell prompt '", 'D3'),
    ('expect-unbounded', 'pxssh', "        i = self.expect(session_init_regex_array, timeout=login_timeout)", "        i = self.expect(session_init_regex_array, timeout=None)", 'D4'),
    ('unique-prompt-no-space', 'pxssh', 'self.UNIQUE_PROMPT = r"\\[PEXPECT\\][\\$\\#] "', 'self.UNIQUE_PROMPT = r"\\[PEXPECT\\]\\\\?[\\$\\#] "', 'D5'),
    ('zsh-prompt-typo', 'pxssh', "PS1='[PEXPECT]%(!.#.$) '", "PS1='[PEXPCT]%(!.#.$) '", 'D5'),
    ('prompt-index-0', 'pxssh', "        i = self.expect([self.PROMPT, TIMEOUT], timeout=timeout)\n        if i==1:\n            return False", "        i = self.expect([self.PROMPT, TIMEOUT], timeout=timeout)\n        if i==0:\n            return False", 'D6'),
    ('sup-false-early', 'pxssh', "            i = self.expect([TIMEOUT, self.PROMPT], timeout=10)\n            if i == 0: # zsh-style", "            i = self.expect([TIMEOUT, self.PROMPT], timeout=10)\n            if i == 0:\n                return False\n            if i == 0: # zsh-style", 'D6'),
    ('sync-empty-ok', 'pxssh', "        if len_a == 0:\n            return False\n        if float(ld)/len_a < 0.4:", "        if float(ld)/max(len_a, 1) < 0.4:", 'D7'),
    ('sync-compare-same', 'pxssh', "        ld = self.levenshtein_distance(a,b)", "        ld = self.levenshtein_distance(a,a)", 'D7'),
    ('unique-prompt-optional-blank', 'pxssh', 'self.UNIQUE_PROMPT = r"\\[PEXPECT\\][\\$\\#] "', 'self.UNIQUE_PROMPT = r"\\[PEXPECT\\][\\$\\#] ?"', 'D5'),
    ('trp-unbounded', 'pxssh', "        while expired < total_timeout:", "        while True:", 'D4'),
]
PRESERVING = []

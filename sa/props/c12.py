"""C12 run() -- loop skeleton."""
import ast

from ..astx import (calls_in, dotted, norm, src, iter_nodes, assigned_targets, assigned_names,
                    const_value, is_const, parent_chain)
from ..lib import (call_arg, relation, truth, other, cmp_views, core, holds_region, conditions, found_test, found_tests, path_tests, entails_empty, paths_entail_empty, eval_conditions, relation_tests, atom_key, expand_condition, mode_mismatch_conditions, cfg_nodes_with_call, node_calls, returns, raises, raised_class, stmt_assigns_attr, callee_last,
                   is_name, node_roots, guard_region, compare_parts, find_test_nodes)
from ..lib import *      # noqa: F401,F403  (path-condition helpers)
from ..linear import ctext
from ..loader import AnalysisError

EXPLANATION = (
    "Static analysis of run()'s loop skeleton: (D1) the event table is split into two parallel lists from the same "
    "object in the same order (list: two comprehensions over the same tuple pattern; dict: keys()/values() of the "
    "same unmodified dict) and those lists are what expect() and the dispatch use; (D2) each iteration appends exactly "
    "one piece to the result (before+after for a text match, before alone otherwise) before dispatching, and both "
    "exception handlers append the rest and leave the loop; the result is the join of exactly that list; (D3) the "
    "dispatch on responses[index]: a string is sent once; a function/method is called with locals(), a string result "
    "is sent, a true result stops, anything else raises TypeError; (D4) close() precedes reading exitstatus; (D5) "
    "'only consumed text is accumulated': a piece appended on a path that continues looping must have been consumed "
    "from the pending text -- violated today for a TIMEOUT event (open known finding); (D6) constructor arguments are forwarded; (D7, by evaluating every test of the loop under the three outcomes of expect(): matched text / EOF / TIMEOUT in child.after) an answered TIMEOUT event does not end the run, and an iteration whose outcome was EOF is the last one (expect() keeps answering EOF, so an EOF event must not go round the loop again). NOT decided: real dialogues, "
    "timing, exit codes.")
TRUSTED = ["expect() semantics as decided by C01/C04 (a TIMEOUT outcome consumes nothing)", "sa/ engine"]
ASSUMPTIONS = []
LEVEL_TEXT = ("Static analysis of named structural clauses of run(): parallel-list construction, append-once per "
              "iteration and in both handlers (CFG occurrence counting), dispatch table of the response kinds, "
              "close-before-exitstatus, consumed-vs-view accumulation. One open known finding (TIMEOUT event duplicates output).")
LEVEL_NOTE = "Trusted: expect() outcome semantics from C01/C04; analyser. Not decided: behaviour with real children."
TECHNIQUE = "CFG occurrence counting + guard-region dispatch analysis (static analysis)"


def run(R):
    repo = R.repo
    f = repo.func('run:run')
    g = f.cfg
    loops = [n for n in iter_nodes(f.node) if isinstance(n, ast.While)]
    if len(loops) != 1:
        raise AnalysisError('run(): expected one while loop')
    loop = loops[0]
    hdr = g.node_of_stmt(loop)
    with R.clause('D1', 'PARALLEL', floor=5, desc='patterns / responses are parallel views of the same event table') as c:
        check_split(c, f)
    with R.clause('D2', 'ONCE', floor=6, desc='one piece appended per iteration; handlers append the rest and stop; result = join of the list') as c:
        check_append(c, f, loop)
    with R.clause('D3', 'DISPATCH', floor=6, desc='string -> send once; callable(locals()) -> send / stop; else TypeError') as c:
        check_dispatch(c, f, loop)
    with R.clause('D4', 'ORDER', floor=2, desc='close() before exitstatus; close() refreshes the status after closing the pty') as c:
        sc = repo.func('pty_spawn:spawn.close')
        gs = sc.cfg
        cl_ = cfg_nodes_with_call(sc, lambda k: callee_last(k) == 'close' and (ctext(k.func.value, sc, stale_ok=True) or '').endswith('ptyproc'))
        al_ = cfg_nodes_with_call(sc, lambda k: callee_last(k) == 'isalive' and ctext(k.func.value, sc) == 'self')
        okc = len(cl_) == 1 and len(al_) >= 1 and any(gs.dominated_by(a[0], {cl_[0][0]})[0] for a in al_)
        c.check(okc, sc, al_[0][1] if al_ else None, 'spawn.close() reads the child\'s status AFTER closing the pty (a child that exits because of the hang-up '
                'must have its real exit code reported by run(withexitstatus=True))', tag='status-after-close')
        closes = [n for n, k in cfg_nodes_with_call(f, lambda k: callee_last(k) == 'close')]
        for n in g.nodes:
            if n.ast is not None and n.kind in ('stmt', 'test') and any(isinstance(x, ast.Attribute) and x.attr == 'exitstatus' for x in ast.walk(n.ast)):
                ok, p = g.dominated_by(n, set(closes))
                c.check(ok, f, n.ast, 'exitstatus is read only after child.close()', witness=g.describe_path(p) if p else None, tag='close-first')
    with R.clause('D6', 'CONFIG', floor=3, desc='run() hands timeout / logfile / cwd / env / extra keywords to the child it creates') as c:
        sps = cfg_nodes_with_call(f, lambda k: callee_last(k) == 'spawn')
        c.need(1 <= len(sps) <= 2, 'run(): spawn(...) call not found')
        M1 = atom_key(ast.parse('timeout == -1', mode='eval').body)[0]
        # the keywords the child is created with, for timeout == -1 and for an explicit timeout: explicit keywords of the call plus the
        # contents of a **dict built before it (one call or two, literal or incremental: the same to this rule)
        for is_m1 in (True, False):
            seen_ = []
            for n, k in sps:
                if (M1, not is_m1) in conditions(g, n):
                    continue                    # this call site is not used in this scenario
                kws = dict((kw.arg, norm(kw.value)) for kw in k.keywords if kw.arg)
                stars = [kw.value for kw in k.keywords if kw.arg is None]
                variants = [dict(kws)]
                for sv in stars:
                    if isinstance(sv, ast.Name) and sv.id != 'kwargs':
                        outs = dict_contents_at(g, n, sv.id, {M1: is_m1})
                        c.need(outs, 'run(): the contents of **%s could not be determined' % sv.id)
                        variants = [dict(list(v_.items()) + list(o_.items())) for v_ in variants for o_ in outs]
                    else:
                        variants = [dict(list(v_.items()) + [('**', norm(sv))]) for v_ in variants]
                for v_ in variants:
                    okk = v_.get('logfile') == 'logfile' and v_.get('cwd') == 'cwd' and v_.get('env') == 'env' and v_.get('**') == 'kwargs' \
                        and v_.get('maxread') == '2000' and k.args and is_name(k.args[0], 'command')
                    okt = ('timeout' not in v_) if is_m1 else (v_.get('timeout') == 'timeout')
                    seen_.append(v_)
                    c.check(okk and okt, f, k, 'the child is created for the given command with %s and the caller\'s logfile / cwd / env / keywords'
                            % ('the spawn default timeout (timeout == -1)' if is_m1 else 'timeout=timeout'), witness=str(sorted(v_.items()))[:160], kind='alg',
                            tag='spawn-args:%s' % ('default' if is_m1 else 'explicit'))
            c.need(seen_, 'run(): no spawn(...) call is reachable for timeout %s -1' % ('==' if is_m1 else '!='))
        c.check(all(isinstance(n.ast, ast.Assign) and 'child' in assigned_names(n.ast) for n, k in sps), f, sps[0][1], 'both forms bind the same child variable', kind='ast', tag='child-bound')
    with R.clause('D7', 'STOP', floor=1, desc='an EOF outcome ends the loop even when EOF is one of the events') as c:
        check_eof_stops(c, f, loop)
    with R.clause('D5', 'CONSUMED', floor=1, desc='text appended on a path that keeps looping has been consumed from the pending text') as c:
        check_consumed(c, f, loop)


def check_split(c, f):
    g = f.cfg
    ev = 'events'
    pats = [n for n in g.nodes if n.kind == 'stmt' and isinstance(n.ast, ast.Assign) and 'patterns' in assigned_names(n.ast)]
    resp = [n for n in g.nodes if n.kind == 'stmt' and isinstance(n.ast, ast.Assign) and 'responses' in assigned_names(n.ast)]
    tl = [t for t in g.nodes if t.kind == 'test' and norm(t.ast) == 'isinstance(events, list)']
    td = [t for t in g.nodes if t.kind == 'test' and norm(t.ast) == 'isinstance(events, dict)']
    c.need(len(tl) == 1 and len(td) == 1, 'run(): isinstance tests on events not found')
    rebinds = [n for n in g.nodes if n.kind == 'stmt' and isinstance(n.ast, ast.Assign) and ev in assigned_names(n.ast)]
    c.check(not rebinds, f, rebinds[0].ast if rebinds else None, 'the event table is used as given (a list is not converted: duplicates and their priority order must survive)',
            witness=norm(rebinds[0].ast) if rebinds else None, kind='ast', tag='events-as-given')
    c.need(len(pats) >= 2 and len(resp) >= 2, 'run(): assignments to patterns/responses not found (%d/%d)' % (len(pats), len(resp)))
    lr = guard_region(g, tl[0], 'true')
    lp = [n for n in pats if n in lr]
    lq = [n for n in resp if n in lr]
    ok = False
    wit = ''
    if len(lp) == 1 and len(lq) == 1:
        a, b = lp[0].ast.value, lq[0].ast.value
        wit = '%s / %s' % (norm(a), norm(b))
        if isinstance(a, ast.ListComp) and isinstance(b, ast.ListComp) and len(a.generators) == 1 and len(b.generators) == 1:
            ga, gb = a.generators[0], b.generators[0]
            same_iter = is_name(ga.iter, ev) and is_name(gb.iter, ev) and not ga.ifs and not gb.ifs
            ta, tb = ga.target, gb.target
            if same_iter and isinstance(ta, ast.Tuple) and isinstance(tb, ast.Tuple) and len(ta.elts) == 2 and len(tb.elts) == 2:
                ok = is_name(a.elt, ta.elts[0].id) and is_name(b.elt, tb.elts[1].id)
    c.check(ok, f, lp[0].ast if lp else tl[0].ast, 'list form: patterns = first components, responses = second components, same order, unfiltered',
            witness=wit, kind='ast', tag='list-split')
    dr = guard_region(g, td[0], 'true')
    dp = [n for n in pats if n in dr]
    dq = [n for n in resp if n in dr]
    ok = len(dp) == 1 and len(dq) == 1 and norm(dp[0].ast.value) == 'list(events.keys())' and norm(dq[0].ast.value) == 'list(events.values())'
    c.check(ok, f, dp[0].ast if dp else td[0].ast, 'dict form: keys() and values() of the same dict', witness=str([norm(n.ast) for n in dp + dq]), kind='ast', tag='dict-split')
    # no mutation of events / patterns / responses afterwards
    muts = []
    for n in g.nodes:
        for k in node_calls(n):
            if isinstance(k.func, ast.Attribute) and isinstance(k.func.value, ast.Name) and k.func.value.id in ('events', 'patterns', 'responses') \
                    and k.func.attr in ('append', 'pop', 'sort', 'reverse', 'insert', 'remove', 'clear', 'extend', 'update', 'popitem'):
                muts.append(k)
    c.check(not muts, f, muts[0] if muts else None, 'the two lists stay aligned (never mutated)', kind='ast', tag='no-mutation')
    # expect gets `patterns`; dispatch indexes `responses` with the returned index
    ex = cfg_nodes_with_call(f, lambda k: callee_last(k) == 'expect')
    c.need(len(ex) == 1 and isinstance(ex[0][0].ast, ast.Assign), 'index = child.expect(patterns) not found')
    iv = ex[0][0].ast.targets[0].id
    c.check(ex[0][1].args and is_name(ex[0][1].args[0], 'patterns'), f, ex[0][1], 'expect() waits for exactly the event patterns', witness=norm(ex[0][1]), kind='ast', tag='expect-patterns')
    subs = [x for x in iter_nodes(f.node) if isinstance(x, ast.Subscript) and is_name(x.value, 'responses')]
    ok = bool(subs) and all(is_name(x.slice, iv) for x in subs)
    c.check(ok, f, subs[0] if subs else None, 'the response is looked up with the index expect() returned', kind='ast', tag='index-lookup')
    mods = [n for n in g.nodes if n.kind == 'stmt' and iv in assigned_names(n.ast) and n is not ex[0][0]]
    c.check(not mods, f, mods[0].ast if mods else None, 'the index is not modified before the lookup', kind='ast', tag='index-stable')


def appends(f, lst='child_result_list'):
    return cfg_nodes_with_call(f, lambda k: callee_last(k) == 'append' and is_name(k.func.value, lst))


def check_append(c, f, loop):
    g = f.cfg
    hdr = g.node_of_stmt(loop)
    ex = cfg_nodes_with_call(f, lambda k: callee_last(k) == 'expect')
    en = ex[0][0]
    aps = appends(f)
    an = set(n for n, k in aps)
    inloop = [(n, k) for n, k in aps if any(p is loop for p in parent_chain(k))]
    body_aps = [(n, k) for n, k in inloop if not any(isinstance(p, ast.ExceptHandler) for p in parent_chain(k))]
    bn = set(n for n, k in body_aps)
    after = [s for s, l in hdr.succ if l == 'false'] + [n for n in g.nodes if n.kind == 'join' and n.stmt is loop]
    # dispatch = first use of responses[...]
    disp = [n for n in g.nodes if n.ast is not None and n.kind in ('test', 'stmt') and any(isinstance(x, ast.Subscript) and is_name(x.value, 'responses') for x in ast.walk(n.ast))]
    c.need(disp, 'dispatch not found')
    d0 = min(disp, key=lambda n: n.id)
    mn, mx = g.occurrences(lambda n: n in bn, start=en, goals={d0}, skip_labels=('exc', 'raise'))
    c.check(mn == 1 and mx == 1, f, body_aps[0][1] if body_aps else en.ast, 'between expect() and the dispatch exactly one piece is appended on every path',
            witness='min=%s max=%s' % (mn, mx), tag='append-once')
    # no append after the dispatch within the iteration
    late = [n for n in bn if g.path(d0, n, avoid={hdr}, skip_labels=('exc',)) is not None]
    c.check(not late, f, late[0].ast if late else d0.ast, 'nothing is appended again after the dispatch', tag='no-late-append')
    # what is appended
    t = [t for t in g.nodes if t.kind == 'test' and 'child.after' in norm(t.ast) and 'isinstance' in norm(t.ast)]
    c.need(len(t) == 1, 'isinstance(child.after, ...) test not found')
    tr, fr = guard_region(g, t[0], 'true'), guard_region(g, t[0], 'false')
    for n, k in body_aps:
        v = norm(k.args[0])
        if n in tr:
            c.check(v == 'child.before + child.after', f, k, 'text match: the piece is before + after', witness=v, kind='ast', tag='piece-match')
        else:
            c.check(v == 'child.before', f, k, 'EOF/TIMEOUT entry: only before (the marker class is not text)', witness=v, kind='ast', tag='piece-marker')
    # handlers
    hs = [h for h in iter_nodes(loop) if isinstance(h, ast.ExceptHandler)]
    names = sorted(norm(h.type) for h in hs)
    c.check(names == ['EOF', 'TIMEOUT'], f, loop, 'the loop handles exactly EOF and TIMEOUT', witness=str(names), kind='ast', tag='handlers')
    # everything in the loop that talks to the child (the wait, the answers, the caller's callback -- which may itself wait on the child)
    # runs under those handlers: an EOF / TIMEOUT from any of them ends the run with the text so far instead of escaping from run()
    resp_names = set(['responses[index]'] + [k_ for k_, v_ in aliases_of(f).single_assign.items() if norm(v_) == 'responses[index]'])
    for k in calls_in(loop):
        if any(isinstance(p, ast.ExceptHandler) for p in parent_chain(k)):
            continue
        talks = (isinstance(k.func, ast.Attribute) and norm(k.func.value) == 'child' and k.func.attr in ('expect', 'expect_exact', 'expect_list', 'send', 'sendline', 'read', 'readline')) \
            or norm(k.func) in resp_names
        if not talks:
            continue
        cover = [p for p in parent_chain(k) if isinstance(p, ast.Try) and any(p is q or any(p is y for y in ast.walk(q)) for q in [loop])
                 and {'EOF', 'TIMEOUT'} <= set(norm(h.type) for h in p.handlers if h.type is not None)
                 and any(k is y for st_ in p.body for y in ast.walk(st_))]
        c.check(bool(cover), f, k, '%s runs under the EOF / TIMEOUT handlers of the loop (an EOF or TIMEOUT raised while an event is answered must end the run, '
                'not escape from run())' % norm(k.func), kind='ast', tag='covered:' + norm(k.func)[:30])
    for h in hs:
        ap = [k for s in h.body for k in calls_in(s) if callee_last(k) == 'append' and is_name(k.func.value, 'child_result_list')]
        ok = len(ap) == 1 and norm(ap[0].args[0]) == 'child.before' and isinstance(h.body[-1], ast.Break)
        c.check(ok, f, h, 'except %s: the remaining text (before) is appended once, then the loop ends' % norm(h.type),
                witness=' ; '.join(norm(s) for s in h.body), kind='ast', tag='handler-' + norm(h.type))
    # result
    js = [n for n in g.nodes if n.kind == 'stmt' and isinstance(n.ast, ast.Assign) and isinstance(n.ast.value, ast.Call) and callee_last(n.ast.value) == 'join']
    ok = len(js) == 1 and js[0].ast.value.args and is_name(js[0].ast.value.args[0], 'child_result_list') and \
        norm(js[0].ast.value.func.value) == 'child.string_type()'
    c.check(ok, f, js[0].ast if js else None, 'the result is the join (empty separator of the API string type) of exactly that list', witness=norm(js[0].ast) if js else '', kind='ast', tag='join')
    if js:
        rv = js[0].ast.targets[0].id
        for r in returns(f):
            v = r.ast.value
            ok = is_name(v, rv) or (isinstance(v, ast.Tuple) and v.elts and is_name(v.elts[0], rv))
            c.check(ok, f, r.ast, 'run() returns that text', witness=norm(v), kind='ast', tag='returns:' + norm(v)[:20])
    inits = [n for n in g.nodes if n.kind == 'stmt' and 'child_result_list' in assigned_names(n.ast)]
    c.check(len(inits) == 1 and norm(inits[0].ast.value) == '[]' and not any(p is loop for p in parent_chain(inits[0].ast)), f, inits[0].ast if inits else None,
            'the list starts empty, once, before the loop', kind='ast', tag='init')


def check_dispatch(c, f, loop):
    """the three-way dispatch on the response object, stated as path conditions so that it does not matter whether it is
    written as if/elif/else, as guard clauses, with `or` or with its De Morgan dual"""
    g = f.cfg
    # the response object: `responses[index]` written out, or a local that holds it (`response = responses[index]`, bound once, inside the loop)
    # (the written-out form and such a local hold the same object within an iteration: texts are compared with the local written out)
    import re as _re
    aliases = [k_ for k_, v_ in aliases_of(f).single_assign.items() if norm(v_) == 'responses[index]']
    R = 'responses[index]'

    # (and a local bound once to the spawn's string types, `text_types = child.allowed_string_types`: nothing in run() re-binds that attribute)
    st_aliases = [k_ for k_, v_ in aliases_of(f).single_assign.items() if norm(v_) == 'child.allowed_string_types']

    def eqv(text):
        for al_ in aliases:
            text = _re.sub(r'(?<![\w.])%s(?![\w])' % _re.escape(al_), R, text)
        for al_ in st_aliases:
            text = _re.sub(r'(?<![\w.])%s(?![\w])' % _re.escape(al_), 'child.allowed_string_types', text)
        return text

    def conds(n):
        return set((eqv(a_), v_) for a_, v_ in conditions(g, n))

    def sent_text(n, k):
        """what a `child.send(x)` sends, as text: x itself, or -- when x is a local that is bound several times (`response = responses[index]` in one
        arm, `response = callback_result` in the other) -- the value of the one binding that reaches this send (it dominates the send and no other
        binding of the local lies between them)"""
        a0 = k.args[0]
        if isinstance(a0, ast.Name):
            binds = [m for m in g.nodes if m.kind == 'stmt' and isinstance(m.ast, ast.Assign) and len(m.ast.targets) == 1 and is_name(m.ast.targets[0], a0.id)]
            if len(binds) > 1:
                reach = [d for d in binds if g.dominated_by(n, {d})[0] and not any(o is not d and g.path(d, o, skip_labels=('exc',), include_start=False) is not None
                                                                                   and g.path(o, n, avoid={d}, skip_labels=('exc',), include_start=False) is not None for o in binds)]
                if len(reach) == 1:
                    return eqv(norm(reach[0].ast.value))
        return eqv(norm(a0))
    S = None
    for t in g.nodes:
        if t.kind == 'test' and t.ast is not None:
            for a_, v_ in expand_condition(t.ast, True) | expand_condition(t.ast, False):
                a_ = eqv(a_)
                if a_.startswith('isinstance(%s' % R) and 'allowed_string_types' in a_:
                    S = a_
    c.need(S is not None, 'dispatch: isinstance(responses[index], <string types>) test not found')
    F, M = 'isinstance(%s, types.FunctionType)' % R, 'isinstance(%s, types.MethodType)' % R
    disp = lambda cs: set((a_, v_) for a_, v_ in cs if a_.startswith('isinstance(%s' % R))
    sends = [(n, k) for n, k in cfg_nodes_with_call(f, lambda k: callee_last(k) == 'send') if k.args and sent_text(n, k) == R]
    ok = len(sends) == 1 and disp(conds(sends[0][0])) == {(S, True)}
    c.check(ok, f, sends[0][1] if sends else None, 'first case: a string response is sent to the child exactly once', witness=str([norm(k) for n, k in sends]), kind='path', tag='string-sent')
    # anything that is neither string nor function nor method raises TypeError -- under exactly that condition
    rs = [n for n in raises(f) if any(a_.startswith('isinstance(%s' % R) for a_, v_ in conds(n))]
    got = disp(conds(rs[0])) if len(rs) == 1 else None
    c.check(got == {(S, False), (F, False), (M, False)} and raised_class(rs[0].ast, f) == 'TypeError', f, rs[0].ast if rs else None,
            'any other response object (not a string, not a function, not a method) raises TypeError', witness='raised under %s' % sorted(got or []), kind='path', tag='case-else')
    c.check(got is not None and (F, False) in got and (M, False) in got, f, rs[0].ast if rs else None, 'second case: function OR method', witness=str(sorted(got or [])), kind='path', tag='case-callable')
    calls_ = [(n, k) for n in g.nodes if n in g.live_nodes() for k in node_calls(n) if eqv(norm(k.func)) == R]
    ok = len(calls_) == 1 and len(calls_[0][1].args) == 1 and norm(calls_[0][1].args[0]) == 'locals()' and isinstance(calls_[0][0].ast, ast.Assign) \
        and disp(conds(calls_[0][0])) <= {(S, False), (F, True), (M, True)} \
        and (not rs or g.path(rs[0], calls_[0][0], skip_labels=('exc',)) is None)
    c.check(ok, f, calls_[0][1] if calls_ else None, 'the callback is called once with the state dictionary locals()', kind='path', tag='callback-call')
    if ok:
        cn = calls_[0][0]
        rv = cn.ast.targets[0].id
        after = set(n for n in g.nodes if g.path(cn, n, avoid={g.node_of_stmt(loop)}, skip_labels=('exc',), include_start=False) is not None)
        t3 = [t for t in after if t.kind == 'test' and 'isinstance(%s' % rv in norm(t.ast)]
        c.check(len(t3) == 1, f, t3[0].ast if t3 else cn.ast, 'a string result is recognised', kind='ast', tag='callback-string')
        if t3:
            s2 = [(n, k) for n, k in cfg_nodes_with_call(f, lambda k: callee_last(k) == 'send') if n in holds_region(g, t3[0], True)]
            c.check(len(s2) == 1 and (is_name(s2[0][1].args[0], rv) or sent_text(s2[0][0], s2[0][1]) == rv), f, s2[0][1] if s2 else t3[0].ast, 'a string result is sent to the child once', kind='ast', tag='callback-sent')
            t4 = [t for t in holds_region(g, t3[0], False) if t.kind == 'test' and norm(core(t)) == rv]
            brk = [n for t in t4 for n in holds_region(g, t, True) if n.kind == 'stmt' and isinstance(n.ast, ast.Break)]
            c.check(bool(brk), f, t4[0].ast if t4 else t3[0].ast, 'a true result stops the run', kind='path', tag='callback-stop')


def _outcome_value(e, kind, flags, depth=0):
    """three-valued value of a test under the outcome *kind* of the last expect(): 'TEXT' (child.after is the matched text), 'EOF' or
    'TIMEOUT' (child.after is that class).  None = this rule cannot tell."""
    if depth > 6:
        return None
    if isinstance(e, ast.Constant) and isinstance(e.value, bool):
        return e.value
    if isinstance(e, ast.UnaryOp) and isinstance(e.op, ast.Not):
        v = _outcome_value(e.operand, kind, flags, depth + 1)
        return None if v is None else (not v)
    if isinstance(e, ast.BoolOp):
        vs = [_outcome_value(x, kind, flags, depth + 1) for x in e.values]
        if isinstance(e.op, ast.And):
            return False if any(v is False for v in vs) else (True if all(v is True for v in vs) else None)
        return True if any(v is True for v in vs) else (False if all(v is False for v in vs) else None)
    if isinstance(e, ast.Name) and e.id in flags:
        return _outcome_value(flags[e.id], kind, {k: v for k, v in flags.items() if k != e.id}, depth + 1)
    if isinstance(e, ast.Call) and dotted(e.func) == 'isinstance' and len(e.args) == 2 and norm(e.args[0]) == 'child.after':
        t = norm(e.args[1])
        if isinstance(e.args[1], ast.Name) and ('=' + t) in flags:
            t = norm(flags['=' + t])
        if 'string_type' in t or t in ('str', 'bytes', '(str, bytes)', '(bytes, str)'):
            return kind == 'TEXT'
        if t in ('type',):
            return kind != 'TEXT'
        return None
    if isinstance(e, ast.Compare) and len(e.ops) == 1:
        l, op, r = norm(e.left), e.ops[0], e.comparators[0]
        if isinstance(op, (ast.Is, ast.Eq, ast.IsNot, ast.NotEq)) and {l, norm(r)} & {'child.after'} and ({l, norm(r)} - {'child.after'}) <= {'EOF', 'TIMEOUT'} \
                and len({l, norm(r)}) == 2:
            which = ({l, norm(r)} - {'child.after'}).pop()
            v = (kind == which)
            return v if isinstance(op, (ast.Is, ast.Eq)) else (not v)
        if isinstance(op, (ast.In, ast.NotIn)) and l == 'child.after' and isinstance(r, (ast.Tuple, ast.List, ast.Set)) \
                and all(norm(x) in ('EOF', 'TIMEOUT') for x in r.elts):
            v = kind in [norm(x) for x in r.elts]
            return v if isinstance(op, ast.In) else (not v)
        return None
    if norm(e) in ('child.flag_eof', 'child.eof()'):
        return True if kind == 'EOF' else (False if kind == 'TIMEOUT' else None)
    return None


def check_eof_stops(c, f, loop):
    """expect() keeps answering EOF once the stream has ended (C04), so a loop iteration whose outcome was EOF must be the last one:
    otherwise run(cmd, events={EOF: f}) calls f again and again and never returns.  A TIMEOUT that was an event and has been answered
    is NOT the end: the output that follows, and the events in it, still belong to the result.
    Every test of the loop is evaluated under the three outcomes of expect() (matched text / EOF / TIMEOUT in child.after); an edge
    that contradicts the outcome is closed, and the question is whether the top of the loop can still be reached."""
    g = f.cfg
    hdr = g.node_of_stmt(loop)
    inloop = lambda n: n.stmt is not None and any(p is loop for p in [n.stmt] + list(parent_chain(n.stmt)))
    exps = cfg_nodes_with_call(f, lambda k: callee_last(k) == 'expect')
    c.need(len(exps) == 1, 'run(): child.expect(...) not found')
    en = exps[0][0]
    # locals bound once, inside the loop, to an expression of the outcome (`matched = isinstance(child.after, ...)`)
    flags = {}
    counts = {}
    for n in g.nodes:
        if n.kind == 'stmt' and n.ast is not None:
            for nm in assigned_names(n.ast):
                counts[nm] = counts.get(nm, 0) + 1
    for n in g.nodes:
        if n.kind == 'stmt' and isinstance(n.ast, ast.Assign) and len(n.ast.targets) == 1 and isinstance(n.ast.targets[0], ast.Name) \
                and counts.get(n.ast.targets[0].id) == 1 and inloop(n) and 'child.after' in norm(n.ast.value) \
                and g.path(en, {n}, skip_labels=('exc', 'raise')) is not None:
            flags[n.ast.targets[0].id] = n.ast.value
    # (and locals bound once, anywhere, to the spawn's string types: `text_types = child.allowed_string_types`)
    for n in g.nodes:
        if n.kind == 'stmt' and isinstance(n.ast, ast.Assign) and len(n.ast.targets) == 1 and isinstance(n.ast.targets[0], ast.Name) \
                and counts.get(n.ast.targets[0].id) == 1 and norm(n.ast.value) in ('child.allowed_string_types', '(child.string_type,)', 'child.string_type'):
            flags['=' + n.ast.targets[0].id] = n.ast.value
    tests = [t for t in g.nodes if t.kind == 'test' and t.ast is not None and inloop(t)]

    def mentions_outcome(t):
        tx = norm(t.ast)
        return any(w in tx for w in ('child.after', 'EOF', 'TIMEOUT', 'flag_eof', 'child.eof(')) or any(isinstance(x, ast.Name) and x.id in flags for x in ast.walk(t.ast))

    def closed_edges(kind, unknown_closed):
        av = set()
        unk = []
        for t in tests:
            v = _outcome_value(t.ast, kind, flags)
            if v is True:
                av.add((t, 'false'))
            elif v is False:
                av.add((t, 'true'))
            elif mentions_outcome(t):
                unk.append(t)
                if unknown_closed:
                    av.add((t, 'true'))
                    av.add((t, 'false'))
        return av, unk
    # EOF: no way back to the top of the loop
    av, unk = closed_edges('EOF', True)
    p = g.path(en, {hdr}, skip_labels=('exc', 'raise'), include_start=False, avoid_edges=av)
    if p is None and unk:
        av2, _ = closed_edges('EOF', False)
        p2 = g.path(en, {hdr}, skip_labels=('exc', 'raise'), include_start=False, avoid_edges=av2)
        if p2 is not None and any(t in p2 for t in unk):
            raise AnalysisError('run(): the loop tests the outcome of expect() in a form this rule cannot evaluate: `%s`' % norm(unk[0].ast)[:80])
    c.check(p is None, f, exps[0][1], 'when EOF is one of the events the iteration that saw EOF is the last one (otherwise expect() reports EOF again at once, the '
            'response is triggered again, and run() never returns unless a callback returns true)',
            witness=('path back to the loop with child.after = EOF: ' + g.describe_path(p)) if p else None, kind='path', tag='eof-event-loops')
    # TIMEOUT as an event: the loop goes on (unless the callback asked to stop)
    av, unk = closed_edges('TIMEOUT', False)
    p = g.path(en, {hdr}, skip_labels=('exc', 'raise'), include_start=False, avoid_edges=av)
    c.check(p is not None, f, exps[0][1], 'a TIMEOUT that was one of the events and has been answered does not end the run: the top of the loop is reachable with '
            'child.after = TIMEOUT (what the child writes afterwards, and the events in it, belong to the result)',
            witness=None if p else 'every way back to `while` is closed when child.after is TIMEOUT', kind='path', tag='timeout-event-continues')


def check_consumed(c, f, loop):
    g = f.cfg
    hdr = g.node_of_stmt(loop)
    t = [t for t in g.nodes if t.kind == 'test' and 'child.after' in norm(t.ast) and 'isinstance' in norm(t.ast)]
    if len(t) != 1:
        raise AnalysisError('run(): isinstance(child.after, ...) test not found')
    fr = guard_region(g, t[0], 'false')
    marker_aps = [(n, k) for n, k in appends(f) if n in fr]
    c.need(marker_aps, 'append for the EOF/TIMEOUT entry not found')
    for n, k in marker_aps:
        # can the loop continue after this append without the pending text being consumed?
        consuming = set(m for m in g.nodes if m.kind == 'stmt' and (stmt_assigns_attr(m.ast, 'buffer') is not None or
                                                                   isinstance(m.ast, ast.Break)))
        # a guard that excludes the TIMEOUT outcome on this path also discharges the obligation
        excl = [tt for tt in g.nodes if tt.kind == 'test' and 'TIMEOUT' in norm(tt.ast) and 'child.after' in norm(tt.ast)]
        guarded = any(n in guard_region(g, tt, 'false') or n in guard_region(g, tt, 'true') for tt in excl)
        p = g.path(n, {hdr}, avoid=consuming, skip_labels=('exc', 'raise'), include_start=False)
        if p is None or guarded:
            c.ok(f, k, 'a piece appended for a marker outcome is either the last one or was consumed', tag='timeout-event-duplicates')
        else:
            c.bad(f, k, 'for a TIMEOUT event the pending text (child.before) is appended although TIMEOUT consumes nothing, and the loop '
                  'continues: the same text is appended again by every later iteration (run(cmd, events=[(TIMEOUT, f)]) returns '
                  'the output once per tick)', witness='path append -> next iteration: ' + g.describe_path(p), tag='timeout-event-duplicates')


MUTANTS = [
    ('wait-outside-handlers', 'run', '        except EOF:\n            child_result_list.append(child.before)\n            break\n    child_result = child.string_type().join(child_result_list)', '        except EOF:\n            child_result_list.append(child.before)\n            break\n        child.expect(patterns, timeout=0)\n    child_result = child.string_type().join(child_result_list)', 'D2'),
    ('eof-event-keeps-looping', 'run', "            if child.after is EOF:\n", "            if child.after is EOF and not responses:\n", 'D7'),
    ('timeout-event-stops', 'run', "            if child.after is EOF:\n", "            if child.after is EOF or child.after is TIMEOUT:\n", 'D7'),
    ('marker-event-stops', 'run', "            if child.after is EOF:\n", "            if not isinstance(child.after, child.allowed_string_types):\n", 'D7'),
    ('eof-event-stop-removed', 'run', "            if child.after is EOF:\n                # EOF was one of the events: it has been answered, and the\n                # stream has ended, so there is nothing more to wait for.\n                break\n", "", 'D7'),
    ('list-via-dict', 'run', "    if isinstance(events, list):\n        patterns= [x for x,y in events]\n        responses = [y for x,y in events]\n    elif isinstance(events, dict):", "    if isinstance(events, list):\n        events = dict(events)\n    if isinstance(events, dict):", 'D1'),
    ('close-status-first', 'pty_spawn', "        self.flush()\n        with _wrap_ptyprocess_err():\n            # PtyProcessError may be raised if it is not possible to terminate\n            # the child.\n            self.ptyproc.close(force=force)\n        self.isalive()  # Update exit status from ptyproc", "        self.flush()\n        self.isalive()  # Update exit status from ptyproc\n        with _wrap_ptyprocess_err():\n            # PtyProcessError may be raised if it is not possible to terminate\n            # the child.\n            self.ptyproc.close(force=force)", 'D4'),
    ('timeout-sentinel-inverted', 'run', "    if timeout == -1:\n        child = spawn(command, maxread=2000,", "    if timeout != -1:\n        child = spawn(command, maxread=2000,", 'D6'),
    ('callable-and', 'run', "            elif (isinstance(responses[index], types.FunctionType) or\n                  isinstance(responses[index], types.MethodType)):", "            elif (isinstance(responses[index], types.FunctionType) and\n                  isinstance(responses[index], types.MethodType)):", 'D3'),
    ('append-twice', 'run', "                child_result_list.append(child.before + child.after)\n", "                child_result_list.append(child.before + child.after)\n                child_result_list.append(child.after)\n", 'D2'),
    ('append-before-only', 'run', "                child_result_list.append(child.before + child.after)\n", "                child_result_list.append(child.before)\n", 'D2'),
    ('eof-handler-no-append', 'run', "        except EOF:\n            child_result_list.append(child.before)\n            break", "        except EOF:\n            break", 'D2'),
    ('timeout-handler-continue', 'run', "        except TIMEOUT:\n            child_result_list.append(child.before)\n            break", "        except TIMEOUT:\n            child_result_list.append(child.before)\n            continue", 'D2'),
    ('responses-sorted', 'run', "        responses = list(events.values())", "        responses = sorted(events.values(), key=repr)", 'D1'),
    ('list-responses-reversed', 'run', "        responses = [y for x,y in events]", "        responses = [y for x,y in reversed(events)]", 'D1'),
    ('send-twice', 'run', "                child.send(responses[index])\n", "                child.send(responses[index])\n                child.send(responses[index])\n", 'D3'),
    ('callback-no-locals', 'run', "                callback_result = responses[index](locals())", "                callback_result = responses[index]({})", 'D3'),
    ('callback-string-dropped', 'run', "                if isinstance(callback_result, child.allowed_string_types):\n                    child.send(callback_result)\n                elif callback_result:", "                if callback_result and not isinstance(callback_result, child.allowed_string_types):", 'D3'),
    ('exit-before-close', 'run', "        child.close()\n        return (child_result, child.exitstatus)", "        st = child.exitstatus\n        child.close()\n        return (child_result, st)", 'D4'),
    ('append-after-dispatch', 'run', "            event_count = event_count + 1\n", "            event_count = event_count + 1\n            if event_count > 100:\n                child_result_list.append(child.before)\n", 'D2'),
    ('index-shift', 'run', "            index = child.expect(patterns)\n", "            index = child.expect(patterns)\n            index = index - 1 if index else index\n", 'D1'),
    ('join-drops-last', 'run', "    child_result = child.string_type().join(child_result_list)", "    child_result = child.string_type().join(child_result_list[:event_count + 1])", 'D2'),
]
PRESERVING = []
